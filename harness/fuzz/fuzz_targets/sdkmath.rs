#![no_main]
use libfuzzer_sys::fuzz_target;
fuzz_target!(|data: &[u8]| {
    wpv::fuzz::sdkmath(data);
});
