//! More instruction builders: adaptive-fee tiers/pools, locks, resets, bundles, settings.
use crate::world::*;
use solana_program::{instruction::Instruction, pubkey::Pubkey, sysvar};
use whirlpool::accounts as wa;
use whirlpool::instruction as wi;

#[derive(Clone, Debug, PartialEq, Eq, serde::Serialize, serde::Deserialize, Hash)]
pub struct AfConstants {
    pub filter_period: u16,
    pub decay_period: u16,
    pub reduction_factor: u16,
    pub adaptive_fee_control_factor: u32,
    pub max_volatility_accumulator: u32,
    pub tick_group_size: u16,
    pub major_swap_threshold_ticks: u16,
}

impl AfConstants {
    pub fn sane(tick_spacing: u16) -> AfConstants {
        AfConstants {
            filter_period: 30,
            decay_period: 600,
            reduction_factor: 5000,
            adaptive_fee_control_factor: 4_000,
            max_volatility_accumulator: 350_000,
            tick_group_size: tick_spacing.min(64).max(1),
            major_swap_threshold_ticks: tick_spacing.max(1),
        }
    }
}

impl World {
    #[allow(clippy::too_many_arguments)]
    pub fn ix_init_adaptive_fee_tier(
        &self,
        cfg: usize,
        fee_tier_index: u16,
        tick_spacing: u16,
        initialize_pool_authority: Pubkey,
        delegated_fee_authority: Pubkey,
        default_base_fee_rate: u16,
        k: &AfConstants,
    ) -> Instruction {
        let c = &self.configs[cfg];
        ixb(
            wa::InitializeAdaptiveFeeTier {
                whirlpools_config: c.key,
                adaptive_fee_tier: fee_tier_pda(&c.key, fee_tier_index),
                funder: self.admin,
                fee_authority: c.fee_authority,
                system_program: SYS,
            },
            wi::InitializeAdaptiveFeeTier {
                fee_tier_index,
                tick_spacing,
                initialize_pool_authority,
                delegated_fee_authority,
                default_base_fee_rate,
                filter_period: k.filter_period,
                decay_period: k.decay_period,
                reduction_factor: k.reduction_factor,
                adaptive_fee_control_factor: k.adaptive_fee_control_factor,
                max_volatility_accumulator: k.max_volatility_accumulator,
                tick_group_size: k.tick_group_size,
                major_swap_threshold_ticks: k.major_swap_threshold_ticks,
            },
        )
    }

    #[allow(clippy::too_many_arguments)]
    pub fn ix_init_pool_adaptive(
        &self,
        cfg: usize,
        ma: &MintInfo,
        mb: &MintInfo,
        va: Pubkey,
        vb: Pubkey,
        fee_tier_index: u16,
        initialize_pool_authority: Pubkey,
        sqrt_price: u128,
        trade_enable_timestamp: Option<u64>,
    ) -> Instruction {
        let c = &self.configs[cfg];
        let (pool, _) = pool_pda(&c.key, &ma.key, &mb.key, fee_tier_index);
        ixb(
            wa::InitializePoolWithAdaptiveFee {
                whirlpools_config: c.key,
                token_mint_a: ma.key,
                token_mint_b: mb.key,
                token_badge_a: token_badge_pda(&c.key, &ma.key),
                token_badge_b: token_badge_pda(&c.key, &mb.key),
                funder: self.admin,
                initialize_pool_authority,
                whirlpool: pool,
                oracle: oracle_pda(&pool),
                token_vault_a: va,
                token_vault_b: vb,
                adaptive_fee_tier: fee_tier_pda(&c.key, fee_tier_index),
                token_program_a: ma.program,
                token_program_b: mb.program,
                system_program: SYS,
                rent: sysvar::rent::ID,
            },
            wi::InitializePoolWithAdaptiveFee { initial_sqrt_price: sqrt_price, trade_enable_timestamp },
        )
    }

    /// create an adaptive-fee pool (tier must exist); `auth` signs as initialize-pool authority
    #[allow(clippy::too_many_arguments)]
    pub fn init_pool_adaptive(
        &mut self,
        cfg: usize,
        m1: &MintInfo,
        m2: &MintInfo,
        fee_tier_index: u16,
        tick_spacing: u16,
        auth: Pubkey,
        sqrt_price: u128,
        trade_enable_timestamp: Option<u64>,
    ) -> Result<usize, crate::rt::Outcome> {
        let (ma, mb) = if m1.key < m2.key { (m1.clone(), m2.clone()) } else { (m2.clone(), m1.clone()) };
        let (va, vb) = (self.new_signer(), self.new_signer());
        self.bank.accounts.remove(&va);
        self.bank.accounts.remove(&vb);
        let ix = self.ix_init_pool_adaptive(cfg, &ma, &mb, va, vb, fee_tier_index, auth, sqrt_price, trade_enable_timestamp);
        let o = self.exec(&ix);
        if !o.ok() {
            return Err(o);
        }
        let ckey = self.configs[cfg].key;
        let (pool, _) = pool_pda(&ckey, &ma.key, &mb.key, fee_tier_index);
        self.pools.push(PoolInfo {
            key: pool,
            config: cfg,
            mint_a: ma,
            mint_b: mb,
            vault_a: va,
            vault_b: vb,
            tick_spacing,
            fee_tier_index,
            fee_tier: fee_tier_pda(&ckey, fee_tier_index),
            oracle: oracle_pda(&pool),
            adaptive: true,
            rewards: vec![],
        });
        Ok(self.pools.len() - 1)
    }

    // ---- position lifecycle extras ----------------------------------------------------------------
    pub fn ix_lock_position(&self, pos: usize, lock_type: whirlpool::state::LockType) -> Instruction {
        let p = &self.positions[pos];
        let ownerk = self.users[p.owner].key;
        ixb(
            wa::LockPosition {
                funder: ownerk,
                position_authority: ownerk,
                position: p.position,
                position_mint: p.mint,
                position_token_account: p.token_account,
                lock_config: lock_config_pda(&p.position),
                whirlpool: self.pools[p.pool].key,
                token_2022_program: TOKEN22,
                system_program: SYS,
            },
            wi::LockPosition { lock_type },
        )
    }
    pub fn ix_transfer_locked(&self, pos: usize, receiver: Pubkey, destination_token_account: Pubkey) -> Instruction {
        let p = &self.positions[pos];
        let ownerk = self.users[p.owner].key;
        ixb(
            wa::TransferLockedPosition {
                position_authority: ownerk,
                receiver,
                position: p.position,
                position_mint: p.mint,
                position_token_account: p.token_account,
                destination_token_account,
                lock_config: lock_config_pda(&p.position),
                token_2022_program: TOKEN22,
            },
            wi::TransferLockedPosition {},
        )
    }
    pub fn ix_reset_range(&self, pos: usize, lower: i32, upper: i32) -> Instruction {
        let p = &self.positions[pos];
        let ownerk = self.users[p.owner].key;
        ixb(
            wa::ResetPositionRange { funder: ownerk, position_authority: ownerk, whirlpool: self.pools[p.pool].key, position: p.position, position_token_account: p.token_account, system_program: SYS },
            wi::ResetPositionRange { new_tick_lower_index: lower, new_tick_upper_index: upper },
        )
    }
    pub fn ix_delete_bundle(&self, bundle: usize) -> Instruction {
        let b = &self.bundles[bundle];
        let ownerk = self.users[b.owner].key;
        ixb(
            wa::DeletePositionBundle {
                position_bundle: b.bundle,
                position_bundle_mint: b.mint,
                position_bundle_token_account: b.token_account,
                position_bundle_owner: ownerk,
                receiver: ownerk,
                token_program: TOKEN,
            },
            wi::DeletePositionBundle {},
        )
    }

    // ---- settings ---------------------------------------------------------------------------------
    pub fn ix_set_default_fee_rate(&self, cfg: usize, tick_spacing: u16, rate: u16) -> Instruction {
        let c = &self.configs[cfg];
        ixb(wa::SetDefaultFeeRate { whirlpools_config: c.key, fee_tier: fee_tier_pda(&c.key, tick_spacing), fee_authority: c.fee_authority }, wi::SetDefaultFeeRate { default_fee_rate: rate })
    }
    pub fn ix_set_default_protocol_fee_rate(&self, cfg: usize, rate: u16) -> Instruction {
        let c = &self.configs[cfg];
        ixb(wa::SetDefaultProtocolFeeRate { whirlpools_config: c.key, fee_authority: c.fee_authority }, wi::SetDefaultProtocolFeeRate { default_protocol_fee_rate: rate })
    }
    pub fn ix_set_fee_authority(&self, cfg: usize, new: Pubkey) -> Instruction {
        let c = &self.configs[cfg];
        ixb(wa::SetFeeAuthority { whirlpools_config: c.key, fee_authority: c.fee_authority, new_fee_authority: new }, wi::SetFeeAuthority {})
    }
    pub fn ix_set_collect_protocol_fees_authority(&self, cfg: usize, new: Pubkey) -> Instruction {
        let c = &self.configs[cfg];
        ixb(
            wa::SetCollectProtocolFeesAuthority { whirlpools_config: c.key, collect_protocol_fees_authority: c.collect_protocol_fees_authority, new_collect_protocol_fees_authority: new },
            wi::SetCollectProtocolFeesAuthority {},
        )
    }
    pub fn ix_set_reward_emissions_super_authority(&self, cfg: usize, new: Pubkey) -> Instruction {
        let c = &self.configs[cfg];
        ixb(
            wa::SetRewardEmissionsSuperAuthority { whirlpools_config: c.key, reward_emissions_super_authority: c.reward_emissions_super_authority, new_reward_emissions_super_authority: new },
            wi::SetRewardEmissionsSuperAuthority {},
        )
    }
    pub fn ix_set_reward_authority(&self, pool: usize, index: u8, new: Pubkey) -> Instruction {
        let pl = &self.pools[pool];
        ixb(wa::SetRewardAuthority { whirlpool: pl.key, reward_authority: self.reward_authority(pool), new_reward_authority: new }, wi::SetRewardAuthority { reward_index: index })
    }
    pub fn ix_set_reward_authority_by_super(&self, pool: usize, index: u8, new: Pubkey) -> Instruction {
        let pl = &self.pools[pool];
        let c = &self.configs[pl.config];
        ixb(
            wa::SetRewardAuthorityBySuperAuthority { whirlpools_config: c.key, whirlpool: pl.key, reward_emissions_super_authority: c.reward_emissions_super_authority, new_reward_authority: new },
            wi::SetRewardAuthorityBySuperAuthority { reward_index: index },
        )
    }
    pub fn ix_set_config_feature_flag(&self, cfg: usize, flag: whirlpool::state::ConfigFeatureFlag) -> Instruction {
        let c = &self.configs[cfg];
        ixb(wa::SetConfigFeatureFlag { whirlpools_config: c.key, authority: self.admin }, wi::SetConfigFeatureFlag { feature_flag: flag })
    }
    pub fn ix_set_config_extension_authority(&self, cfg: usize, new: Pubkey) -> Instruction {
        let c = &self.configs[cfg];
        ixb(
            wa::SetConfigExtensionAuthority {
                whirlpools_config: c.key,
                whirlpools_config_extension: config_extension_pda(&c.key),
                config_extension_authority: c.config_extension_authority,
                new_config_extension_authority: new,
            },
            wi::SetConfigExtensionAuthority {},
        )
    }
    pub fn ix_set_token_badge_authority(&self, cfg: usize, new: Pubkey) -> Instruction {
        let c = &self.configs[cfg];
        ixb(
            wa::SetTokenBadgeAuthority {
                whirlpools_config: c.key,
                whirlpools_config_extension: config_extension_pda(&c.key),
                config_extension_authority: c.config_extension_authority,
                new_token_badge_authority: new,
            },
            wi::SetTokenBadgeAuthority {},
        )
    }
    pub fn ix_delete_token_badge(&self, cfg: usize, mint: &Pubkey) -> Instruction {
        let c = &self.configs[cfg];
        ixb(
            wa::DeleteTokenBadge {
                whirlpools_config: c.key,
                whirlpools_config_extension: config_extension_pda(&c.key),
                token_badge_authority: c.token_badge_authority,
                token_mint: *mint,
                token_badge: token_badge_pda(&c.key, mint),
                receiver: self.admin,
            },
            wi::DeleteTokenBadge {},
        )
    }
    pub fn ix_set_token_badge_attribute(&self, cfg: usize, mint: &Pubkey, attr: whirlpool::state::TokenBadgeAttribute) -> Instruction {
        let c = &self.configs[cfg];
        ixb(
            wa::SetTokenBadgeAttribute {
                whirlpools_config: c.key,
                whirlpools_config_extension: config_extension_pda(&c.key),
                token_badge_authority: c.token_badge_authority,
                token_mint: *mint,
                token_badge: token_badge_pda(&c.key, mint),
            },
            wi::SetTokenBadgeAttribute { attribute: attr },
        )
    }
    // adaptive-fee settings
    pub fn ix_set_default_base_fee_rate(&self, cfg: usize, index: u16, rate: u16) -> Instruction {
        let c = &self.configs[cfg];
        ixb(wa::SetDefaultBaseFeeRate { whirlpools_config: c.key, adaptive_fee_tier: fee_tier_pda(&c.key, index), fee_authority: c.fee_authority }, wi::SetDefaultBaseFeeRate { default_base_fee_rate: rate })
    }
    pub fn ix_set_delegated_fee_authority(&self, cfg: usize, index: u16, new: Pubkey) -> Instruction {
        let c = &self.configs[cfg];
        ixb(
            wa::SetDelegatedFeeAuthority { whirlpools_config: c.key, adaptive_fee_tier: fee_tier_pda(&c.key, index), fee_authority: c.fee_authority, new_delegated_fee_authority: new },
            wi::SetDelegatedFeeAuthority {},
        )
    }
    pub fn ix_set_initialize_pool_authority(&self, cfg: usize, index: u16, new: Pubkey) -> Instruction {
        let c = &self.configs[cfg];
        ixb(
            wa::SetInitializePoolAuthority { whirlpools_config: c.key, adaptive_fee_tier: fee_tier_pda(&c.key, index), fee_authority: c.fee_authority, new_initialize_pool_authority: new },
            wi::SetInitializePoolAuthority {},
        )
    }
    pub fn ix_set_preset_adaptive_fee_constants(&self, cfg: usize, index: u16, k: &AfConstants) -> Instruction {
        let c = &self.configs[cfg];
        ixb(
            wa::SetPresetAdaptiveFeeConstants { whirlpools_config: c.key, adaptive_fee_tier: fee_tier_pda(&c.key, index), fee_authority: c.fee_authority },
            wi::SetPresetAdaptiveFeeConstants {
                filter_period: k.filter_period,
                decay_period: k.decay_period,
                reduction_factor: k.reduction_factor,
                adaptive_fee_control_factor: k.adaptive_fee_control_factor,
                max_volatility_accumulator: k.max_volatility_accumulator,
                tick_group_size: k.tick_group_size,
                major_swap_threshold_ticks: k.major_swap_threshold_ticks,
            },
        )
    }
    pub fn ix_set_fee_rate_by_delegate(&self, pool: usize, delegated: Pubkey, rate: u16) -> Instruction {
        let pl = &self.pools[pool];
        ixb(wa::SetFeeRateByDelegatedFeeAuthority { whirlpool: pl.key, adaptive_fee_tier: pl.fee_tier, delegated_fee_authority: delegated }, wi::SetFeeRateByDelegatedFeeAuthority { fee_rate: rate })
    }
    #[allow(clippy::too_many_arguments)]
    pub fn ix_set_adaptive_fee_constants(
        &self,
        pool: usize,
        filter_period: Option<u16>,
        decay_period: Option<u16>,
        reduction_factor: Option<u16>,
        adaptive_fee_control_factor: Option<u32>,
        max_volatility_accumulator: Option<u32>,
        tick_group_size: Option<u16>,
        major_swap_threshold_ticks: Option<u16>,
    ) -> Instruction {
        let pl = &self.pools[pool];
        let c = &self.configs[pl.config];
        ixb(
            wa::SetAdaptiveFeeConstants { whirlpool: pl.key, whirlpools_config: c.key, oracle: pl.oracle, fee_authority: c.fee_authority },
            wi::SetAdaptiveFeeConstants { filter_period, decay_period, reduction_factor, adaptive_fee_control_factor, max_volatility_accumulator, tick_group_size, major_swap_threshold_ticks },
        )
    }
}
