//! Histories: generated operation sequences interpreted against a world (DESIGN.md §2.3).
use crate::decode::{self, PositionD, TickArrayD, WhirlpoolD};
use crate::gen;
use crate::model::*;
use crate::rt::Outcome;
use crate::world::*;
use num_traits::CheckedSub;
use proptest::prelude::*;
use serde::{Deserialize, Serialize};
use solana_program::pubkey::Pubkey;
use std::collections::BTreeMap;
use whirlpool::math::sqrt_price_from_tick_index;

#[derive(Clone, Debug, Serialize, Deserialize, Hash, PartialEq, Eq)]
pub struct RewardSpec {
    #[serde(with = "crate::ser::u128s")]
    pub emissions_x64: u128,
    pub vault_fund: u64,
    /// reward mint: 0 SPL Token, 1 Token-2022, 2 Token-2022 with the transfer fee `fee`, 3 as 2 plus a transfer hook (badge issued)
    #[serde(default)]
    pub mint_kind: u8,
    #[serde(default)]
    pub fee: Option<(u16, u64)>,
    /// second / third reward only: paid in the SAME mint as the first reward (each index still has its own vault)
    #[serde(default)]
    pub same_mint_as_first: bool,
}

#[derive(Clone, Debug, Serialize, Deserialize, Hash, PartialEq, Eq)]
pub struct WorldSpec {
    pub tick_spacing: u16,
    pub start_tick: i32,
    /// added to the price of `start_tick` (units of 2^-64)
    pub start_price_offset: i8,
    pub fee_rate: u16,
    pub protocol_fee_rate: u16,
    /// bit (hash(start index) % 64) chooses the dynamic encoding for an array when it is created
    pub dynamic_mask: u64,
    pub n_lps: u8,
    pub n_traders: u8,
    /// poke p1: initial values of the pool's fee-growth accumulators (pool has no positions yet)
    #[serde(with = "crate::ser::u128s")]
    pub growth_a0: u128,
    #[serde(with = "crate::ser::u128s")]
    pub growth_b0: u128,
    pub rewards: Vec<RewardSpec>,
    /// poke p1 for rewards: initial growth_global of each reward
    pub reward_growth0_hi: u8,
    /// 0 = both mints SPL Token; 1 = both Token-2022 (no extensions); 2 = one of each; 3 = Token-2022 with transfer fees (tf1 / tf2)
    #[serde(default)]
    pub mint_kind: u8,
    /// transfer fee (basis points, maximum) of the first / second created mint when mint_kind == 3
    #[serde(default)]
    pub tf1: Option<(u16, u64)>,
    #[serde(default)]
    pub tf2: Option<(u16, u64)>,
    /// mint_kind == 3: a fee change scheduled through the real SetTransferFee right after the mint is created (takes effect two epochs later)
    #[serde(default)]
    pub tf1_next: Option<(u16, u64)>,
    #[serde(default)]
    pub tf2_next: Option<(u16, u64)>,
    /// epochs that pass between scheduling the change and the first pool instruction (0, 1: still pending; >= 2: in force)
    #[serde(default)]
    pub epoch_advance: u8,
    /// mint_kind == 3: the first / second mint carries a TransferHook extension (hook program 1 / 2 of the runtime); such mints need a
    /// token badge, which the world issues
    #[serde(default)]
    pub hook1: bool,
    #[serde(default)]
    pub hook2: bool,
    /// packaging: create this many (empty) tick arrays on each side of the start price before any position exists
    #[serde(default)]
    pub precreate_arrays: u8,
    /// adaptive-fee pool with these constants (must satisfy the published validity rules, else the pool is static)
    #[serde(default)]
    pub adaptive: Option<crate::world2::AfConstants>,
    /// adaptive pools only: the pool is created through a permissioned tier with trading enabled this many seconds after creation
    #[serde(default)]
    pub trade_enable_delay: Option<u32>,
}

#[derive(Clone, Debug, Serialize, Deserialize, Hash, PartialEq, Eq)]
pub enum RangeSel {
    /// bounds in tick-spacing units relative to the grid point at/below the start tick
    Rel { lo: i32, hi: i32 },
    Full,
    /// sentinel-free explicit ticks (may be unusable: the program must reject them)
    Abs { lo: i32, hi: i32 },
}

#[derive(Clone, Debug, Serialize, Deserialize, Hash, PartialEq, Eq)]
pub enum DecSel {
    All,
    Frac(u16),
    Exact(#[serde(with = "crate::ser::u128s")] u128),
    /// the amount that brings the stored NET liquidity of the position's lower (false) / upper (true) tick to exactly zero while other
    /// positions keep the tick's gross liquidity above zero (a tick shared with opposite roles); `All` when there is no such amount
    NetZero(bool),
}

#[derive(Clone, Debug, Serialize, Deserialize, Hash, PartialEq, Eq)]
pub enum LimitSel {
    None,
    /// price of the k-th initialized tick in the trade direction (k = 0: nearest)
    InitTick(u8),
    /// price of a usable tick `units` spacings away in the trade direction
    UsableTick(u16),
    /// current price moved by this many price units in the trade direction
    Offset(#[serde(with = "crate::ser::u128s")] u128),
    Bound,
}

#[derive(Clone, Debug, Serialize, Deserialize, Hash, PartialEq, Eq)]
pub enum IncVariant {
    V1,
    V2,
    ByAmounts { max_a: u64, max_b: u64 },
    /// liquidity = inverse image of a token amount on a boundary of the u64 result type (`model::AMOUNT_TARGETS[target]`,
    /// exact amount in [target, target+1)) for the position's range at the current price; the op's `liquidity` is ignored
    ForAmount { token_a: bool, target: u8, frac: u32, v2: bool },
}

#[derive(Clone, Debug, Serialize, Deserialize, Hash, PartialEq, Eq)]
pub enum Op {
    Open { lp: u8, kind: PosKind, range: RangeSel },
    Increase { pos: u16, #[serde(with = "crate::ser::u128s")] liquidity: u128, variant: IncVariant },
    Decrease { pos: u16, amount: DecSel, v2: bool },
    Reposition { pos: u16, range: RangeSel, #[serde(with = "crate::ser::u128s")] liquidity: u128 },
    Swap { trader: u8, a_to_b: bool, exact_in: bool, amount: u64, limit: LimitSel, v2: bool },
    /// reverse of the trader's last successful swap: exact-in spends what that swap paid out (+delta),
    /// exact-out asks back what that swap took in (+delta)
    SwapBack { trader: u8, exact_in: bool, delta: i8, v2: bool },
    /// exact-in swap whose budget is the gross-up of the exact curve cost from the current price to `target` at the pool's current
    /// liquidity and fee rate, plus `delta` units: the budget's net part equals / just misses / just exceeds what the step to that
    /// price costs.  `with_limit`: the same price is also the price limit.
    SwapExact {
        trader: u8,
        a_to_b: bool,
        target: LimitSel,
        delta: i8,
        with_limit: bool,
        v2: bool,
        /// exact-OUT instead: the amount asked for is the exact curve output (rounded down) of the move to `target`, plus `delta`
        #[serde(default)]
        exact_out: bool,
    },
    UpdateFees { pos: u16 },
    CollectFees { pos: u16, v2: bool },
    CollectProtocolFees { v2: bool },
    SetFeeRate(u16),
    SetProtocolFeeRate(u16),
    Close { pos: u16 },
    AdvanceClock(i32),
    CollectReward { pos: u16, index: u8, v2: bool },
    SetEmissions { index: u8, #[serde(with = "crate::ser::u128s")] emissions_x64: u128 },
    FundRewardVault { index: u8, amount: u64 },
    /// emissions chosen so that one day of emissions is the vault balance (+delta units of rate around the largest accepted rate)
    SetEmissionsNearVault { index: u8, delta: i8 },
    /// fee-mint pools: schedule a new transfer fee on the pool's first / second mint (real Token-2022 SetTransferFee)
    SetTransferFee { second: bool, bp: u16, max: u64 },
    /// fee-mint pools: let epochs pass (scheduled transfer fees come into force)
    AdvanceEpoch(u8),
    /// collect_reward(_v2) naming ANOTHER account as the reward's vault: the vault of another reward index (`from` 0, 1: possibly of the
    /// same mint), or the pool's token vault A / B (2, 3).  Must be refused.
    CollectRewardFrom { pos: u16, index: u8, v2: bool, from: u8 },
    /// initialize_(dynamic_)tick_array sent AGAIN for an array that already exists (`which` picks it): as a dynamic array with the
    /// idempotent flag set or not, or as a fixed array.  Refused or accepted, the array's contents must survive (all monitors run after it).
    ReinitArray { which: u16, dynamic: bool, idempotent: bool },
    /// adversarial account choice: the wrapped liquidity / fee-update op names ANOTHER initialized tick array of the same pool for the
    /// position's lower (which 0) / upper (1) bound, `offset` arrays away, or exchanges the two (2).  Must be refused or harmless.
    Skewed { which: u8, offset: i8, op: Box<Op> },
    /// the wrapped swap is sent as swap_v2 with up to three MORE of the pool's own tick arrays as supplemental accounts (chosen by `seed`
    /// among the existing arrays, duplicates of the three main arrays included): the outcome may not depend on them
    Supplemented { n: u8, seed: u16, op: Box<Op> },
}

impl Op {
    /// the op whose effect monitors reason about
    pub fn effective(&self) -> &Op {
        match self {
            Op::Skewed { op, .. } => op.effective(),
            Op::Supplemented { op, .. } => op.effective(),
            o => o,
        }
    }
}

#[derive(Clone, Debug, Serialize, Deserialize, Hash, PartialEq, Eq)]
pub struct HistoryCase {
    pub spec: WorldSpec,
    pub ops: Vec<Op>,
}

/// monotone index mapping (shrinks towards 0)
pub fn pick(i: u16, len: usize) -> usize {
    ((i as usize) * len) >> 16
}

#[derive(Clone, Debug)]
pub struct Snap {
    pub pool: WhirlpoolD,
    pub positions: Vec<Option<PositionD>>,
    pub balances: BTreeMap<Pubkey, u64>,
    /// Token-2022 withheld transfer fees per token account (accounts without the extension: absent)
    pub withheld: BTreeMap<Pubkey, u64>,
    pub clock: i64,
}

#[derive(Clone, Debug, PartialEq, Eq)]
pub enum Did {
    /// op could not even be built (no position to act on etc.)
    Vacuous,
    Rejected(u64),
    Ok,
}

pub struct OpResult {
    pub did: Did,
    pub outcome: Option<Outcome>,
    /// position index acted on (if any)
    pub pos: Option<usize>,
    /// user index acting
    pub user: Option<usize>,
    /// swap parameters actually sent
    pub swap: Option<SwapParams>,
    /// liquidity delta actually requested (increase +, decrease -)
    pub liquidity_delta: i128,
    /// for Reposition: (old lower, old upper, old liquidity)
    pub repositioned_from: Option<(i32, i32, u128)>,
    /// the op was sent with a wrong tick array of the same pool (`Op::Skewed`)
    pub skewed: bool,
}

pub struct Hist {
    pub w: World,
    pub spec: WorldSpec,
    pub pool: usize,
    pub lps: Vec<usize>,
    pub traders: Vec<usize>,
    pub treasury: usize,
    pub array_starts: Vec<i32>,
    pub base_unit: i32,
    /// (user, a_to_b, amount in, amount out) of the last successful swap, from balance deltas
    pub last_swap: Option<(usize, bool, u64, u64)>,
}

/// per-pool context of a `Hist` (swapped in and out when a world holds two pools)
pub struct PoolCtx {
    pub pool: usize,
    pub spec: WorldSpec,
    pub array_starts: Vec<i32>,
    pub base_unit: i32,
    pub last_swap: Option<(usize, bool, u64, u64)>,
}

pub fn start_sqrt_price(spec: &WorldSpec) -> u128 {
    let t = spec.start_tick.clamp(MIN_TICK, MAX_TICK);
    let p = sqrt_price_from_tick_index(t) as i128 + spec.start_price_offset as i128;
    (p.max(MIN_SQRT_PRICE as i128) as u128).min(MAX_SQRT_PRICE)
}

pub const LP_FUND: u64 = 1 << 61;
pub const TRADER_FUND: u64 = 1 << 61;

impl Hist {
    /// Build the world of a history: config, fee tier, two plain SPL mints, pool, users.
    pub fn build(spec: &WorldSpec) -> Option<Hist> {
        let mut w = World::new(1_700_000_000);
        let cfg = w.init_config(spec.protocol_fee_rate.min(2500));
        let ix = w.ix_init_fee_tier(cfg, spec.tick_spacing, spec.fee_rate.min(60000));
        w.must("initialize_fee_tier", &ix);
        let (m1, m2) = if spec.mint_kind == 3 {
            let (mut m1, mut m2) = (
                w.create_t22_mint_hooked(spec.tf1, spec.hook1.then(|| crate::rt::hook_program(1))),
                w.create_t22_mint_hooked(spec.tf2, spec.hook2.then(|| crate::rt::hook_program(2))),
            );
            if spec.hook1 || spec.hook2 {
                // transfer-hook mints are admitted only with a token badge of this config
                w.init_config_extension(cfg);
                let ix = w.ix_set_config_feature_flag(cfg, whirlpool::state::ConfigFeatureFlag::TokenBadge(true));
                w.must("token badge feature", &ix);
                for m in [&m1, &m2] {
                    if m.hook.is_some() {
                        let ix = w.ix_init_token_badge(cfg, &m.key);
                        w.must("token badge for a transfer-hook mint", &ix);
                    }
                }
            }
            for (m, next) in [(&mut m1, spec.tf1_next), (&mut m2, spec.tf2_next)] {
                if let (Some(_), Some((bp, max))) = (m.transfer_fee, next) {
                    w.set_transfer_fee(&m.key, bp.min(10_000), max);
                }
            }
            w.bank.clock.epoch += spec.epoch_advance as u64;
            for m in [&mut m1, &mut m2] {
                if m.transfer_fee.is_some() {
                    m.transfer_fee = w.fee_in_force(&m.key);
                }
            }
            (m1, m2)
        } else {
            (if spec.mint_kind == 1 { w.create_t22_mint(None) } else { w.create_spl_mint() }, if spec.mint_kind >= 1 { w.create_t22_mint(None) } else { w.create_spl_mint() })
        };
        let pool = match &spec.adaptive {
            Some(k) => {
                let auth = w.new_signer();
                let index = 1024u16.wrapping_add(spec.tick_spacing % 1000);
                let (pool_auth, enable) = match spec.trade_enable_delay {
                    Some(d) => (auth, Some(w.bank.clock.unix_timestamp as u64 + d as u64)),
                    None => (Pubkey::default(), None),
                };
                let ix = w.ix_init_adaptive_fee_tier(cfg, index, spec.tick_spacing, pool_auth, Pubkey::default(), spec.fee_rate.min(60000), k);
                if w.exec(&ix).ok() {
                    w.init_pool_adaptive(cfg, &m1, &m2, index, spec.tick_spacing, auth, start_sqrt_price(spec), enable).ok()?
                } else {
                    w.init_pool(cfg, &m1, &m2, spec.tick_spacing, start_sqrt_price(spec)).ok()?
                }
            }
            None => w.init_pool(cfg, &m1, &m2, spec.tick_spacing, start_sqrt_price(spec)).ok()?,
        };
        // poke p1: accumulators of a pool without positions may start anywhere
        {
            let k = w.pools[pool].key;
            let mut a = w.bank.get(&k);
            a.data[decode::OFF_FEE_GROWTH_GLOBAL_A..decode::OFF_FEE_GROWTH_GLOBAL_A + 16].copy_from_slice(&spec.growth_a0.to_le_bytes());
            a.data[decode::OFF_FEE_GROWTH_GLOBAL_B..decode::OFF_FEE_GROWTH_GLOBAL_B + 16].copy_from_slice(&spec.growth_b0.to_le_bytes());
            w.bank.set(k, a);
        }
        let (ma, mb) = (w.pools[pool].mint_a.clone(), w.pools[pool].mint_b.clone());
        let mut lps = vec![];
        for _ in 0..spec.n_lps.clamp(1, 3) {
            let u = w.add_user();
            w.user_token(u, &ma, LP_FUND);
            w.user_token(u, &mb, LP_FUND);
            lps.push(u);
        }
        let mut traders = vec![];
        for _ in 0..spec.n_traders.clamp(1, 2) {
            let u = w.add_user();
            w.user_token(u, &ma, TRADER_FUND);
            w.user_token(u, &mb, TRADER_FUND);
            traders.push(u);
        }
        let treasury = w.add_user();
        w.user_token(treasury, &ma, 0);
        w.user_token(treasury, &mb, 0);
        // rewards
        for (i, r) in spec.rewards.iter().take(3).enumerate() {
            let rm = match r.mint_kind % 4 {
                _ if i > 0 && r.same_mint_as_first && !w.pools[pool].rewards.is_empty() => w.pools[pool].rewards[0].mint.clone(),
                0 => w.create_spl_mint(),
                1 => w.create_t22_mint(None),
                2 => w.create_t22_mint(r.fee),
                _ => {
                    let m = w.create_t22_mint_hooked(r.fee, Some(crate::rt::hook_program(1 + (i as u8 % 2))));
                    if w.configs[cfg].config_extension.is_none() {
                        w.init_config_extension(cfg);
                        let ix = w.ix_set_config_feature_flag(cfg, whirlpool::state::ConfigFeatureFlag::TokenBadge(true));
                        w.must("token badge feature", &ix);
                    }
                    let ix = w.ix_init_token_badge(cfg, &m.key);
                    w.must("token badge for a reward mint with a transfer hook", &ix);
                    m
                }
            };
            let idx = w.init_reward(pool, &rm, i % 2 == 1 || rm.program != TOKEN).ok()?;
            let vault = w.pools[pool].rewards[idx].vault;
            if r.vault_fund > 0 {
                w.mint_to(&rm, &vault, r.vault_fund);
            }
            for u in lps.clone() {
                w.user_token(u, &rm, 0);
            }
            if spec.reward_growth0_hi > 0 {
                let k = w.pools[pool].key;
                let mut a = w.bank.get(&k);
                let o = decode::OFF_REWARD_INFOS + 128 * idx + 112;
                let g: u128 = u128::MAX - ((255 - spec.reward_growth0_hi) as u128) * (1u128 << 100);
                a.data[o..o + 16].copy_from_slice(&g.to_le_bytes());
                w.bank.set(k, a);
            }
            if r.emissions_x64 > 0 {
                let ix = w.ix_set_reward_emissions(pool, idx as u8, r.emissions_x64, rm.program != TOKEN);
                let mut ix = ix;
                // reward authority = the config's super authority; it is a funded signer in this world
                ix.accounts[1].is_signer = true;
                let _ = w.exec(&ix);
            }
        }
        let ts = spec.tick_spacing as i32;
        let base_unit = floor_div(spec.start_tick.clamp(MIN_TICK, MAX_TICK), ts);
        let mut h = Hist { w, spec: spec.clone(), pool, lps, traders, treasury, array_starts: vec![], base_unit, last_swap: None };
        if spec.precreate_arrays > 0 {
            let n = 88 * ts;
            let cur = h.w.pool_state(pool).tick_current_index;
            for k in -(spec.precreate_arrays as i32)..=(spec.precreate_arrays as i32) {
                let t = cur.saturating_add(k * n);
                if t >= array_start(MIN_TICK, spec.tick_spacing) && t <= MAX_TICK {
                    h.ensure_array(t);
                }
            }
        }
        Some(h)
    }

    /// Add a second pool that shares one mint with the first (the shared mint is pool one's A if `share_a`).
    /// Users get funded accounts of the new mint.  Returns the context to `switch` to.
    pub fn add_second_pool(&mut self, spec2: &WorldSpec, share_a: bool) -> Option<PoolCtx> {
        let cfg = self.w.pools[self.pool].config;
        let ts = spec2.tick_spacing;
        if !self.w.bank.accounts.contains_key(&fee_tier_pda(&self.w.configs[cfg].key, ts)) {
            let ix = self.w.ix_init_fee_tier(cfg, ts, spec2.fee_rate.min(60000));
            self.w.must("initialize_fee_tier(2)", &ix);
        }
        let shared = self.w.mint_of(self.pool, share_a);
        let newm = if spec2.mint_kind == 3 && spec2.hook2 { let m = self.w.create_t22_mint_hooked(spec2.tf2, Some(crate::rt::hook_program(2))); if self.w.configs[cfg].config_extension.is_none() { self.w.init_config_extension(cfg); let ix = self.w.ix_set_config_feature_flag(cfg, whirlpool::state::ConfigFeatureFlag::TokenBadge(true)); self.w.must("token badge feature", &ix); } let ix = self.w.ix_init_token_badge(cfg, &m.key); self.w.must("token badge (second pool)", &ix); m } else if spec2.mint_kind == 3 { self.w.create_t22_mint(spec2.tf2) } else if spec2.mint_kind >= 1 { self.w.create_t22_mint(None) } else { self.w.create_spl_mint() };
        let pool2 = match &spec2.adaptive {
            Some(k) => {
                let auth = self.w.new_signer();
                let index = 2048u16.wrapping_add(ts % 1000);
                let (pool_auth, enable) = match spec2.trade_enable_delay {
                    Some(d) => (auth, Some(self.w.bank.clock.unix_timestamp as u64 + d as u64)),
                    None => (Pubkey::default(), None),
                };
                let ix = self.w.ix_init_adaptive_fee_tier(cfg, index, ts, pool_auth, Pubkey::default(), spec2.fee_rate.min(60000), k);
                if self.w.exec(&ix).ok() {
                    self.w.init_pool_adaptive(cfg, &shared, &newm, index, ts, auth, start_sqrt_price(spec2), enable).ok()?
                } else {
                    self.w.init_pool(cfg, &shared, &newm, ts, start_sqrt_price(spec2)).ok()?
                }
            }
            None => self.w.init_pool(cfg, &shared, &newm, ts, start_sqrt_price(spec2)).ok()?,
        };
        {
            let k = self.w.pools[pool2].key;
            let mut a = self.w.bank.get(&k);
            a.data[decode::OFF_FEE_GROWTH_GLOBAL_A..decode::OFF_FEE_GROWTH_GLOBAL_A + 16].copy_from_slice(&spec2.growth_a0.to_le_bytes());
            a.data[decode::OFF_FEE_GROWTH_GLOBAL_B..decode::OFF_FEE_GROWTH_GLOBAL_B + 16].copy_from_slice(&spec2.growth_b0.to_le_bytes());
            self.w.bank.set(k, a);
        }
        // same fee rate override as the spec asks (the tier may pre-exist with another default)
        let ix = self.w.ix_set_fee_rate(pool2, spec2.fee_rate.min(60000));
        let _ = self.w.exec(&ix);
        for u in self.lps.clone().into_iter().chain(self.traders.clone()) {
            self.w.user_token(u, &newm, LP_FUND);
        }
        let t = self.treasury;
        self.w.user_token(t, &newm, 0);
        let base_unit = floor_div(spec2.start_tick.clamp(MIN_TICK, MAX_TICK), ts as i32);
        Some(PoolCtx { pool: pool2, spec: spec2.clone(), array_starts: vec![], base_unit, last_swap: None })
    }

    /// exchange the active pool context
    pub fn switch(&mut self, ctx: &mut PoolCtx) {
        std::mem::swap(&mut self.pool, &mut ctx.pool);
        std::mem::swap(&mut self.spec, &mut ctx.spec);
        std::mem::swap(&mut self.array_starts, &mut ctx.array_starts);
        std::mem::swap(&mut self.base_unit, &mut ctx.base_unit);
        std::mem::swap(&mut self.last_swap, &mut ctx.last_swap);
    }

    pub fn snap(&self) -> Snap {
        let mut balances = BTreeMap::new();
        for u in &self.w.users {
            for (_, t) in &u.tokens {
                balances.insert(*t, self.w.balance(t));
            }
        }
        let p = &self.w.pools[self.pool];
        for v in [p.vault_a, p.vault_b] {
            balances.insert(v, self.w.balance(&v));
        }
        for r in &p.rewards {
            balances.insert(r.vault, self.w.balance(&r.vault));
        }
        let mut withheld = BTreeMap::new();
        for k in balances.keys() {
            if let Some(x) = decode::withheld_amount(&self.w.bank.get(k).data) {
                withheld.insert(*k, x);
            }
        }
        Snap {
            withheld,
            pool: self.w.pool_state(self.pool),
            positions: (0..self.w.positions.len()).map(|i| if self.w.positions[i].open { self.w.position_state(i) } else { None }).collect(),
            balances,
            clock: self.w.bank.clock.unix_timestamp,
        }
    }

    pub fn resolve_range(&self, r: &RangeSel) -> (i32, i32) {
        let ts = self.spec.tick_spacing as i32;
        match r {
            RangeSel::Rel { lo, hi } => {
                let (mut a, mut b) = (self.base_unit.saturating_add(*lo).saturating_mul(ts), self.base_unit.saturating_add(*hi).saturating_mul(ts));
                let (fl, fu) = (MIN_TICK / ts * ts, MAX_TICK / ts * ts);
                a = a.clamp(fl, fu);
                b = b.clamp(fl, fu);
                (a, b)
            }
            RangeSel::Full => (MIN_TICK / ts * ts, MAX_TICK / ts * ts),
            RangeSel::Abs { lo, hi } => (*lo, *hi),
        }
    }

    fn dynamic_for(&self, start: i32) -> bool {
        let h = crate::runner::fnv(&start.to_le_bytes()) % 64;
        (self.spec.dynamic_mask >> h) & 1 == 1
    }

    pub fn ensure_array(&mut self, tick: i32) {
        let start = array_start(tick, self.spec.tick_spacing);
        if self.array_starts.contains(&start) {
            return;
        }
        let dynamic = self.dynamic_for(start);
        if self.w.ensure_tick_array(self.pool, tick, dynamic) {
            self.array_starts.push(start);
            self.array_starts.sort();
        }
    }

    pub fn tick_arrays(&self) -> Vec<TickArrayD> {
        let pk = self.w.pools[self.pool].key;
        self.array_starts.iter().filter_map(|s| decode::tick_array(&self.w.bank.get(&tick_array_pda(&pk, *s)).data).ok()).collect()
    }

    /// all initialized ticks of the pool, ascending
    pub fn initialized_ticks(&self) -> Vec<i32> {
        let ts = self.spec.tick_spacing as i32;
        let mut out = vec![];
        for a in self.tick_arrays() {
            for (i, t) in a.ticks.iter().enumerate() {
                if t.initialized {
                    out.push(a.start_tick_index + i as i32 * ts);
                }
            }
        }
        out.sort();
        out
    }

    pub fn open_positions(&self) -> Vec<usize> {
        (0..self.w.positions.len()).filter(|i| self.w.positions[*i].open).collect()
    }

    pub fn resolve_limit(&self, sel: &LimitSel, a_to_b: bool) -> u128 {
        let st = self.w.pool_state(self.pool);
        let ts = self.spec.tick_spacing as i32;
        match sel {
            LimitSel::None => 0,
            LimitSel::Bound => {
                if a_to_b {
                    MIN_SQRT_PRICE
                } else {
                    MAX_SQRT_PRICE
                }
            }
            LimitSel::InitTick(k) => {
                let ticks = self.initialized_ticks();
                let cands: Vec<i32> = if a_to_b {
                    ticks.iter().rev().copied().filter(|t| sqrt_price_from_tick_index(*t) < st.sqrt_price).collect()
                } else {
                    ticks.iter().copied().filter(|t| sqrt_price_from_tick_index(*t) > st.sqrt_price).collect()
                };
                match cands.get(*k as usize).or(cands.last()) {
                    Some(t) => sqrt_price_from_tick_index(*t),
                    None => 0,
                }
            }
            LimitSel::UsableTick(units) => {
                let base = floor_div(st.tick_current_index, ts) * ts;
                let t = if a_to_b { base - (*units as i32) * ts } else { base + (1 + *units as i32) * ts };
                sqrt_price_from_tick_index(t.clamp(MIN_TICK, MAX_TICK))
            }
            LimitSel::Offset(d) => {
                if a_to_b {
                    st.sqrt_price.saturating_sub(*d).max(MIN_SQRT_PRICE)
                } else {
                    st.sqrt_price.saturating_add(*d).min(MAX_SQRT_PRICE)
                }
            }
        }
    }

    pub fn needs_v2(&self) -> bool {
        let p = &self.w.pools[self.pool];
        p.mint_a.program != TOKEN || p.mint_b.program != TOKEN
    }

    /// Execute one op.  A rejected instruction leaves the world unchanged.
    /// On pools with a Token-2022 mint the v1 instruction variants cannot be used; the v2 variant is sent instead.
    pub fn exec(&mut self, op: &Op) -> OpResult {
        if let Op::Supplemented { n, seed, op: inner } = op {
            let forced = match (**inner).clone() {
                Op::Swap { trader, a_to_b, exact_in, amount, limit, .. } => Op::Swap { trader, a_to_b, exact_in, amount, limit, v2: true },
                Op::SwapBack { trader, exact_in, delta, .. } => Op::SwapBack { trader, exact_in, delta, v2: true },
                Op::SwapExact { trader, a_to_b, target, delta, with_limit, exact_out, .. } => Op::SwapExact { trader, a_to_b, target, delta, with_limit, v2: true, exact_out },
                o => return self.exec(&o),
            };
            let pk = self.w.pools[self.pool].key;
            let mut extra = vec![];
            for k in 0..(*n).min(3) as usize {
                if self.array_starts.is_empty() {
                    break;
                }
                let s = self.array_starts[pick(seed.wrapping_mul(k as u16 * 2 + 1).wrapping_add(k as u16 * 21845), self.array_starts.len())];
                let key = tick_array_pda(&pk, s);
                if !extra.contains(&key) {
                    extra.push(key);
                }
            }
            self.w.swap_supplemental = extra;
            let r = self.exec(&forced);
            self.w.swap_supplemental = vec![];
            return r;
        }
        if let Op::Skewed { which, offset, op: inner } = op {
            if !matches!(inner.effective(), Op::Increase { .. } | Op::Decrease { .. } | Op::UpdateFees { .. } | Op::Reposition { .. }) || *offset == 0 && *which < 2 {
                return self.exec(inner);
            }
            self.w.array_skew = Some((*which % 3, *offset as i32));
            // the substituted arrays must be genuine initialized arrays of this pool
            let min_start = array_start(MIN_TICK, self.spec.tick_spacing);
            for p in self.open_positions() {
                if self.w.positions[p].pool != self.pool {
                    continue;
                }
                let (sl, su) = self.w.pos_array_starts(p);
                for s in [sl, su] {
                    if s >= min_start && s <= MAX_TICK {
                        self.ensure_array(s.max(MIN_TICK));
                    }
                }
            }
            let mut r = self.exec(inner);
            self.w.array_skew = None;
            r.skewed = true;
            return r;
        }
        if self.needs_v2() {
            let forced = match op.clone() {
                Op::Increase { pos, liquidity, variant: IncVariant::V1 } => Some(Op::Increase { pos, liquidity, variant: IncVariant::V2 }),
                Op::Increase { pos, liquidity, variant: IncVariant::ForAmount { token_a, target, frac, v2: false } } => Some(Op::Increase { pos, liquidity, variant: IncVariant::ForAmount { token_a, target, frac, v2: true } }),
                Op::Decrease { pos, amount, v2: false } => Some(Op::Decrease { pos, amount, v2: true }),
                Op::Swap { trader, a_to_b, exact_in, amount, limit, v2: false } => Some(Op::Swap { trader, a_to_b, exact_in, amount, limit, v2: true }),
                Op::SwapBack { trader, exact_in, delta, v2: false } => Some(Op::SwapBack { trader, exact_in, delta, v2: true }),
                Op::SwapExact { trader, a_to_b, target, delta, with_limit, v2: false, exact_out } => Some(Op::SwapExact { trader, a_to_b, target, delta, with_limit, v2: true, exact_out }),
                Op::CollectFees { pos, v2: false } => Some(Op::CollectFees { pos, v2: true }),
                Op::CollectProtocolFees { v2: false } => Some(Op::CollectProtocolFees { v2: true }),
                _ => None,
            };
            if let Some(f) = forced {
                return self.exec_inner(&f);
            }
        }
        self.exec_inner(op)
    }

    fn exec_inner(&mut self, op: &Op) -> OpResult {
        let mut res = OpResult { did: Did::Vacuous, outcome: None, pos: None, user: None, swap: None, liquidity_delta: 0, repositioned_from: None, skewed: false };
        let open = self.open_positions();
        let pick_pos = |i: u16| -> Option<usize> { if open.is_empty() { None } else { Some(open[pick(i, open.len())]) } };
        let ix = match op {
            Op::Open { lp, kind, range } => {
                let u = self.lps[*lp as usize % self.lps.len()];
                let (lo, hi) = self.resolve_range(range);
                let (ix, info) = self.w.prep_open_position(self.pool, u, lo, hi, if *kind == PosKind::Bundled { PosKind::Plain } else { *kind });
                let o = self.w.exec(&ix);
                res.user = Some(u);
                if o.ok() {
                    self.w.positions.push(info);
                    res.pos = Some(self.w.positions.len() - 1);
                    self.ensure_array(lo);
                    self.ensure_array(hi);
                }
                res.did = if o.ok() { Did::Ok } else { Did::Rejected(o.code().unwrap()) };
                res.outcome = Some(o);
                return res;
            }
            Op::Increase { pos, liquidity, variant } => {
                let Some(p) = pick_pos(*pos) else { return res };
                res.pos = Some(p);
                res.user = Some(self.w.positions[p].owner);
                match variant {
                    IncVariant::V1 => {
                        res.liquidity_delta = *liquidity as i128;
                        self.w.ix_increase(p, *liquidity, u64::MAX, u64::MAX, false)
                    }
                    IncVariant::V2 => {
                        res.liquidity_delta = *liquidity as i128;
                        self.w.ix_increase(p, *liquidity, u64::MAX, u64::MAX, true)
                    }
                    IncVariant::ByAmounts { max_a, max_b } => self.w.ix_increase_by_amounts(p, *max_a, *max_b, MIN_SQRT_PRICE, MAX_SQRT_PRICE),
                    IncVariant::ForAmount { token_a, target, frac, v2 } => {
                        let info = &self.w.positions[p];
                        let (pl, pu) = (whirlpool::math::sqrt_price_from_tick_index(info.lower), whirlpool::math::sqrt_price_from_tick_index(info.upper));
                        let price = self.w.pool_state(self.pool).sqrt_price;
                        let t = AMOUNT_TARGETS[*target as usize % AMOUNT_TARGETS.len()];
                        // a one-sided position has no cost in the other token: use the token it does cost
                        let l = liquidity_for_amount(price, pl, pu, *token_a, t, *frac).or_else(|| liquidity_for_amount(price, pl, pu, !*token_a, t, *frac));
                        let Some(l) = l.filter(|l| *l > 0 && *l <= i128::MAX as u128) else { return res };
                        res.liquidity_delta = l as i128;
                        self.w.ix_increase(p, l, u64::MAX, u64::MAX, *v2)
                    }
                }
            }
            Op::Decrease { pos, amount, v2 } => {
                let Some(p) = pick_pos(*pos) else { return res };
                res.pos = Some(p);
                res.user = Some(self.w.positions[p].owner);
                let cur = self.w.position_state(p).map(|s| s.liquidity).unwrap_or(0);
                let l = match amount {
                    DecSel::All => cur,
                    DecSel::Frac(f) => ((b(cur) * (*f as u32 + 1)) >> 16u32).try_into().unwrap_or(cur),
                    DecSel::Exact(x) => *x,
                    DecSel::NetZero(upper) => {
                        let info = &self.w.positions[p];
                        let t = if *upper { info.upper } else { info.lower };
                        let ts = self.spec.tick_spacing as i32;
                        let net = self
                            .tick_arrays()
                            .iter()
                            .find(|a| t >= a.start_tick_index && t < a.start_tick_index + 88 * ts)
                            .map(|a| a.ticks[((t - a.start_tick_index) / ts) as usize].liquidity_net)
                            .unwrap_or(0);
                        // withdrawing x moves the lower tick's net by -x and the upper tick's by +x
                        let x = if *upper { -net } else { net };
                        if x > 0 && (x as u128) < cur {
                            x as u128
                        } else {
                            cur
                        }
                    }
                };
                res.liquidity_delta = -(l.min(i128::MAX as u128) as i128);
                self.w.ix_decrease(p, l, 0, 0, *v2)
            }
            Op::Reposition { pos, range, liquidity } => {
                let Some(p) = pick_pos(*pos) else { return res };
                res.pos = Some(p);
                res.user = Some(self.w.positions[p].owner);
                let (lo, hi) = self.resolve_range(range);
                self.ensure_array(lo);
                self.ensure_array(hi);
                let cur = self.w.position_state(p).map(|s| s.liquidity).unwrap_or(0);
                res.repositioned_from = Some((self.w.positions[p].lower, self.w.positions[p].upper, cur));
                let ix = self.w.ix_reposition(p, lo, hi, *liquidity, 0, 0, u64::MAX, u64::MAX);
                let o = self.w.exec(&ix);
                if o.ok() {
                    self.w.positions[p].lower = lo;
                    self.w.positions[p].upper = hi;
                }
                res.did = if o.ok() { Did::Ok } else { Did::Rejected(o.code().unwrap()) };
                res.outcome = Some(o);
                return res;
            }
            Op::Swap { trader, a_to_b, exact_in, amount, limit, v2 } => {
                let u = self.traders[*trader as usize % self.traders.len()];
                res.user = Some(u);
                let sp = SwapParams {
                    amount: *amount,
                    threshold: SwapParams::neutral_threshold(*exact_in),
                    sqrt_price_limit: self.resolve_limit(limit, *a_to_b),
                    exact_in: *exact_in,
                    a_to_b: *a_to_b,
                };
                let ix = if *v2 { self.w.ix_swap_v2(self.pool, u, &sp) } else { self.w.ix_swap(self.pool, u, &sp) };
                res.swap = Some(sp);
                ix
            }
            Op::SwapBack { trader, exact_in, delta, v2 } => {
                let u = self.traders[*trader as usize % self.traders.len()];
                let Some((lu, la2b, lin, lout)) = self.last_swap else { return res };
                if lu != u {
                    return res;
                }
                res.user = Some(u);
                let base = if *exact_in { lout } else { lin };
                let amount = (base as i128 + *delta as i128).clamp(0, u64::MAX as i128) as u64;
                let sp = SwapParams { amount, threshold: SwapParams::neutral_threshold(*exact_in), sqrt_price_limit: 0, exact_in: *exact_in, a_to_b: !la2b };
                let ix = if *v2 { self.w.ix_swap_v2(self.pool, u, &sp) } else { self.w.ix_swap(self.pool, u, &sp) };
                res.swap = Some(sp);
                ix
            }
            Op::SwapExact { trader, a_to_b, target, delta, with_limit, v2, exact_out } => {
                let u = self.traders[*trader as usize % self.traders.len()];
                let st = self.w.pool_state(self.pool);
                let p1 = self.resolve_limit(target, *a_to_b);
                if p1 == 0 || p1 == st.sqrt_price || st.liquidity == 0 {
                    return res;
                }
                let (p0, l) = (st.sqrt_price, st.liquidity);
                let cost = if *a_to_b { crate::model::amt_a(l, p1.min(p0), p1.max(p0), true) } else { crate::model::amt_b(l, p1.min(p0), p1.max(p0), true) };
                let rate = st.fee_rate as u32;
                // smallest gross amount whose part net of the fee (floor) covers the cost
                let gross = crate::model::ceil_div(&(cost * 1_000_000u32), &num_bigint::BigUint::from(1_000_000u32 - rate.min(999_999)));
                let Some(mut gross) = crate::model::to_u64(&gross) else { return res };
                if *exact_out {
                    let out = if *a_to_b { crate::model::amt_b(l, p1.min(p0), p1.max(p0), false) } else { crate::model::amt_a(l, p1.min(p0), p1.max(p0), false) };
                    let Some(out) = crate::model::to_u64(&out) else { return res };
                    gross = out;
                }
                let amount = (gross as i128 + *delta as i128).clamp(0, u64::MAX as i128) as u64;
                res.user = Some(u);
                let sp = SwapParams { amount, threshold: SwapParams::neutral_threshold(!*exact_out), sqrt_price_limit: if *with_limit { p1 } else { 0 }, exact_in: !*exact_out, a_to_b: *a_to_b };
                let ix = if *v2 { self.w.ix_swap_v2(self.pool, u, &sp) } else { self.w.ix_swap(self.pool, u, &sp) };
                res.swap = Some(sp);
                ix
            }
            Op::ReinitArray { which, dynamic, idempotent } => {
                if self.array_starts.is_empty() {
                    return res;
                }
                let start = self.array_starts[pick(*which, self.array_starts.len())];
                let mut ix = self.w.ix_init_tick_array(self.pool, start, *dynamic);
                if *dynamic && *idempotent {
                    // InitializeDynamicTickArray { start_tick_index: i32, idempotent: bool }: the flag is the last data byte
                    let n = ix.data.len();
                    ix.data[n - 1] = 1;
                }
                ix
            }
            Op::UpdateFees { pos } => {
                let Some(p) = pick_pos(*pos) else { return res };
                res.pos = Some(p);
                self.w.ix_update_fees(p)
            }
            Op::CollectFees { pos, v2 } => {
                let Some(p) = pick_pos(*pos) else { return res };
                res.pos = Some(p);
                res.user = Some(self.w.positions[p].owner);
                self.w.ix_collect_fees(p, *v2)
            }
            Op::CollectProtocolFees { v2 } => {
                let pl = self.w.pools[self.pool].clone();
                let (da, db) = (self.w.user_token_existing(self.treasury, &pl.mint_a.key), self.w.user_token_existing(self.treasury, &pl.mint_b.key));
                res.user = Some(self.treasury);
                self.w.ix_collect_protocol_fees(self.pool, da, db, *v2)
            }
            Op::SetFeeRate(r) => self.w.ix_set_fee_rate(self.pool, *r),
            Op::SetProtocolFeeRate(r) => self.w.ix_set_protocol_fee_rate(self.pool, *r),
            Op::Close { pos } => {
                let Some(p) = pick_pos(*pos) else { return res };
                res.pos = Some(p);
                res.user = Some(self.w.positions[p].owner);
                let ix = self.w.ix_close_position(p);
                let o = self.w.exec(&ix);
                if o.ok() {
                    self.w.positions[p].open = false;
                }
                res.did = if o.ok() { Did::Ok } else { Did::Rejected(o.code().unwrap()) };
                res.outcome = Some(o);
                return res;
            }
            Op::AdvanceClock(dt) => {
                self.w.advance_clock(*dt as i64);
                res.did = Did::Ok;
                return res;
            }
            Op::SetTransferFee { second, bp, max } => {
                let pl = &self.w.pools[self.pool];
                let m = if *second { pl.mint_b.clone() } else { pl.mint_a.clone() };
                if m.transfer_fee.is_some() && self.w.set_transfer_fee(&m.key, (*bp).min(10_000), *max) {
                    self.w.refresh_transfer_fees();
                    res.did = Did::Ok;
                }
                return res;
            }
            Op::Skewed { op, .. } | Op::Supplemented { op, .. } => return self.exec_inner(op),
            Op::AdvanceEpoch(n) => {
                let pl = &self.w.pools[self.pool];
                if pl.mint_a.transfer_fee.is_some() || pl.mint_b.transfer_fee.is_some() {
                    self.w.advance_epoch(*n as u64);
                    res.did = Did::Ok;
                }
                return res;
            }
            Op::CollectReward { pos, index, v2 } => {
                let Some(p) = pick_pos(*pos) else { return res };
                let nrew = self.w.pools[self.pool].rewards.len();
                if nrew == 0 {
                    return res;
                }
                let idx = *index as usize % nrew;
                res.pos = Some(p);
                res.user = Some(self.w.positions[p].owner);
                let rmi = self.w.pools[self.pool].rewards[idx].mint.clone();
                let dest = self.w.user_token_existing(self.w.positions[p].owner, &rmi.key);
                self.w.ix_collect_reward(p, idx as u8, dest, *v2 || rmi.program != TOKEN)
            }
            Op::CollectRewardFrom { pos, index, v2, from } => {
                let Some(p) = pick_pos(*pos) else { return res };
                let pl = self.w.pools[self.pool].clone();
                let nrew = pl.rewards.len();
                if nrew == 0 {
                    return res;
                }
                let idx = *index as usize % nrew;
                let own = pl.rewards[idx].vault;
                let other = match from % 4 {
                    0 | 1 => pl.rewards[(idx + 1 + *from as usize % 2) % nrew].vault,
                    2 => pl.vault_a,
                    _ => pl.vault_b,
                };
                if other == own {
                    return res;
                }
                res.pos = Some(p);
                res.user = Some(self.w.positions[p].owner);
                let rmi = pl.rewards[idx].mint.clone();
                let dest = self.w.user_token_existing(self.w.positions[p].owner, &rmi.key);
                let mut ix = self.w.ix_collect_reward(p, idx as u8, dest, *v2 || rmi.program != TOKEN);
                for m in ix.accounts.iter_mut() {
                    if m.pubkey == own {
                        m.pubkey = other;
                    }
                }
                ix
            }
            Op::SetEmissions { index, emissions_x64 } => {
                let nrew = self.w.pools[self.pool].rewards.len();
                if nrew == 0 {
                    return res;
                }
                let idx = *index as usize % nrew;
                self.w.ix_set_reward_emissions(self.pool, idx as u8, *emissions_x64, idx % 2 == 1 || self.w.pools[self.pool].rewards[idx].mint.program != TOKEN)
            }
            Op::SetEmissionsNearVault { index, delta } => {
                let nrew = self.w.pools[self.pool].rewards.len();
                if nrew == 0 {
                    return res;
                }
                let idx = *index as usize % nrew;
                let vault = self.w.balance(&self.w.pools[self.pool].rewards[idx].vault);
                // largest rate whose one-day emission floor(86400*e/2^64) still fits the vault
                let e_max = (((b(vault as u128) + 1u32) << 64u32) - 1u32) / 86400u32;
                let e = if *delta >= 0 { e_max + (*delta as u32) } else { e_max.checked_sub(&b((-*delta) as u128)).unwrap_or_default() };
                let e: u128 = e.try_into().unwrap_or(u128::MAX);
                self.w.ix_set_reward_emissions(self.pool, idx as u8, e, idx % 2 == 0 || self.w.pools[self.pool].rewards[idx].mint.program != TOKEN)
            }
            Op::FundRewardVault { index, amount } => {
                let nrew = self.w.pools[self.pool].rewards.len();
                if nrew == 0 {
                    return res;
                }
                let idx = *index as usize % nrew;
                let r = self.w.pools[self.pool].rewards[idx].clone();
                let cur = self.w.balance(&r.vault);
                let amt = (*amount).min((1u64 << 62).saturating_sub(cur));
                if amt > 0 {
                    self.w.mint_to(&r.mint, &r.vault, amt);
                }
                res.did = Did::Ok;
                return res;
            }
        };
        let swap_pre = res.swap.as_ref().map(|_| {
            let u = res.user.unwrap();
            let pl = &self.w.pools[self.pool];
            (self.w.balance(&self.w.user_token_existing(u, &pl.mint_a.key)), self.w.balance(&self.w.user_token_existing(u, &pl.mint_b.key)))
        });
        let o = self.w.exec(&ix);
        res.did = if o.ok() { Did::Ok } else { Did::Rejected(o.code().unwrap()) };
        if let (true, Some((a0, b0)), Some(sp)) = (o.ok(), swap_pre, res.swap.as_ref()) {
            let u = res.user.unwrap();
            let pl = &self.w.pools[self.pool];
            let (a1, b1) = (self.w.balance(&self.w.user_token_existing(u, &pl.mint_a.key)), self.w.balance(&self.w.user_token_existing(u, &pl.mint_b.key)));
            let (tin, tout) = if sp.a_to_b { (a0.saturating_sub(a1), b1.saturating_sub(b0)) } else { (b0.saturating_sub(b1), a1.saturating_sub(a0)) };
            self.last_swap = Some((u, sp.a_to_b, tin, tout));
        }
        res.outcome = Some(o);
        res
    }
}

// ---------------------------------------------------------------------------------------------------
// generators

/// tick spacings (below the full-range-only threshold) whose first or last usable tick sits in the first or last slot of its tick
/// array: the alignments on which array-boundary arithmetic at the ends of the tick range differs from the common spacings
pub fn edge_aligned_spacings() -> &'static Vec<u16> {
    static L: std::sync::OnceLock<Vec<u16>> = std::sync::OnceLock::new();
    L.get_or_init(|| {
        (1u16..32768)
            .filter(|ts| {
                let t = *ts as i32;
                let slot = |tick: i32| (tick - array_start(tick, *ts)) / t;
                let (last, first) = (MAX_TICK / t * t, MIN_TICK / t * t);
                [slot(last), slot(first)].iter().any(|s| *s == 0 || *s == 87)
            })
            .collect()
    })
}

pub fn spec_strategy(with_rewards: bool, wrap_bias: bool) -> BoxedStrategy<WorldSpec> {
    let spacing = prop_oneof![
        8 => prop::sample::select(vec![1u16, 2, 8, 64, 128]),
        4 => Just(64u16),
        2 => Just(256u16),
        2 => prop::sample::select(vec![32768u16, 32896]),
        // any spacing a fee tier can carry, and the edge-aligned ones
        1 => 1u16..=600,
        1 => prop::sample::select(edge_aligned_spacings().clone()),
    ];
    // start ticks: around zero, anywhere, and inside the outermost arrays of the tick range (resolved against the spacing below)
    let start = prop_oneof![
        12 => -30000i32..30000,
        4 => gen::any_tick(),
        2 => Just(0i32),
        1 => (any::<bool>(), 0i32..176).prop_map(|(top, k)| if top { i32::MAX - k } else { i32::MIN + k }),
    ];
    let growth = move || -> BoxedStrategy<u128> {
        if wrap_bias {
            prop_oneof![
                2 => Just(0u128),
                3 => gen::bits_u128(80).prop_map(|d| u128::MAX - d),
                2 => any::<u128>(),
            ]
            .boxed()
        } else {
            prop_oneof![6 => Just(0u128), 1 => gen::bits_u128(80).prop_map(|d| u128::MAX - d), 1 => any::<u128>()].boxed()
        }
    };
    let rewards = if with_rewards {
        prop::collection::vec(
            (prop_oneof![1 => Just(0u128), 6 => gen::bits_u128(90), 1 => gen::bits_u128(128)], prop_oneof![1 => Just(0u64), 4 => gen::bits_u64(62)], prop_oneof![5 => Just(0u8), 1 => Just(1u8), 2 => Just(2u8), 2 => Just(3u8)], tf_strategy())
                .prop_map(|(e, f, mint_kind, fee)| RewardSpec { emissions_x64: e, vault_fund: f, mint_kind, fee: if mint_kind >= 2 { fee } else { None }, same_mint_as_first: e % 5 == 0 }),
            1..=3,
        )
        .boxed()
    } else {
        Just(vec![]).boxed()
    };
    (
        spacing,
        start,
        -1i8..=1,
        gen::fee_rate(60000).prop_map(|r| r as u16),
        prop_oneof![1 => Just(0u16), 1 => Just(2500u16), 1 => Just(300u16), 2 => 0u16..=2500],
        prop_oneof![1 => Just(0u64), 1 => Just(u64::MAX), 2 => any::<u64>()],
        2u8..=3,
        1u8..=2,
        growth(),
        growth(),
        rewards,
        prop_oneof![3 => Just(0u8), 1 => 1u8..=255],
    )
        .prop_map(|(tick_spacing, start_tick, off, fee_rate, protocol_fee_rate, dynamic_mask, n_lps, n_traders, growth_a0, growth_b0, rewards, rg)| WorldSpec {
            tick_spacing,
            // the markers i32::MAX - k / i32::MIN + k mean: k usable ticks inside the top / bottom end of the tick range
            start_tick: if start_tick > MAX_TICK {
                MAX_TICK / tick_spacing as i32 * tick_spacing as i32 - (i32::MAX - start_tick).saturating_mul(tick_spacing as i32).min(MAX_TICK)
            } else if start_tick < MIN_TICK {
                MIN_TICK / tick_spacing as i32 * tick_spacing as i32 + (start_tick - i32::MIN).saturating_mul(tick_spacing as i32).min(MAX_TICK)
            } else {
                start_tick
            },
            start_price_offset: off,
            fee_rate,
            protocol_fee_rate,
            dynamic_mask,
            n_lps,
            n_traders,
            growth_a0,
            growth_b0,
            rewards,
            reward_growth0_hi: rg,
            mint_kind: 0,
            tf1: None,
            tf2: None,
            tf1_next: None,
            tf2_next: None,
            epoch_advance: 0,
            hook1: false,
            hook2: false,
            precreate_arrays: 0,
            adaptive: None,
            trade_enable_delay: None,
        })
        .boxed()
}

pub fn range_strategy() -> BoxedStrategy<RangeSel> {
    prop_oneof![
        // narrow ranges around the start price on a coarse grid: shared, nested and adjacent bounds are frequent
        8 => (-6i32..=6, 1i32..=8).prop_map(|(lo, w)| RangeSel::Rel { lo, hi: lo + w }),
        // wider, reaching neighbouring arrays (88 slots per array)
        4 => (-200i32..=200, 1i32..=200).prop_map(|(lo, w)| RangeSel::Rel { lo, hi: lo + w }),
        // very wide
        1 => (-5000i32..=5000, 1i32..=5000).prop_map(|(lo, w)| RangeSel::Rel { lo, hi: lo + w }),
        1 => Just(RangeSel::Full),
        // arbitrary explicit ticks (mostly invalid: exercised for rejection)
        1 => (MIN_TICK - 10..=MAX_TICK + 10, MIN_TICK - 10..=MAX_TICK + 10).prop_map(|(lo, hi)| RangeSel::Abs { lo, hi }),
    ]
    .boxed()
}

pub fn liquidity_strategy() -> BoxedStrategy<u128> {
    prop_oneof![
        12 => (20u32..=72, any::<u128>()).prop_map(|(bits, r)| (r >> (128 - bits)) | (1u128 << (bits - 1))),
        4 => gen::bits_u128(110),
        2 => 1u128..1000,
        1 => gen::structured_u128(100),
        // all low 64 (32) bits zero: what survives a careless narrowing of the amount is zero
        1 => (1u128..16, prop_oneof![Just(64u32), Just(64u32), Just(32u32), Just(96u32)]).prop_map(|(k, sh)| k << sh),
    ]
    .boxed()
}

pub fn limit_strategy() -> BoxedStrategy<LimitSel> {
    prop_oneof![
        4 => Just(LimitSel::None),
        3 => (0u8..4).prop_map(LimitSel::InitTick),
        2 => (0u16..20).prop_map(LimitSel::UsableTick),
        2 => gen::bits_u128(90).prop_map(LimitSel::Offset),
        1 => Just(LimitSel::Bound),
    ]
    .boxed()
}

pub fn swap_amount_strategy() -> BoxedStrategy<u64> {
    prop_oneof![
        12 => (1u32..=60, any::<u64>()).prop_map(|(bits, r)| (r >> (64 - bits)) | (1u64 << (bits - 1))),
        2 => 0u64..100,
        2 => gen::bits_u64(64),
        1 => gen::structured_u128(64).prop_map(|v| v as u64),
        1 => (0u64..3).prop_map(|d| u64::MAX - d),
    ]
    .boxed()
}

pub fn swap_op() -> BoxedStrategy<Op> {
    (0u8..2, any::<bool>(), any::<bool>(), swap_amount_strategy(), limit_strategy(), any::<bool>())
        .prop_map(|(trader, a_to_b, exact_in, amount, limit, v2)| Op::Swap { trader, a_to_b, exact_in, amount, limit, v2 })
        .boxed()
}

pub fn swap_exact_op() -> BoxedStrategy<Op> {
    let target = prop_oneof![4 => (0u8..2).prop_map(LimitSel::InitTick), 2 => (0u16..3).prop_map(LimitSel::UsableTick), 1 => gen::bits_u128(70).prop_map(LimitSel::Offset)];
    (0u8..2, any::<bool>(), target, -2i8..=2, any::<bool>(), any::<bool>(), prop_oneof![2 => Just(false), 1 => Just(true)])
        .prop_map(|(trader, a_to_b, target, delta, with_limit, v2, exact_out)| Op::SwapExact { trader, a_to_b, target, delta, with_limit, v2, exact_out })
        .boxed()
}

pub fn swap_back_op() -> BoxedStrategy<Op> {
    (0u8..2, any::<bool>(), -2i8..=2, any::<bool>()).prop_map(|(trader, exact_in, delta, v2)| Op::SwapBack { trader, exact_in, delta, v2 }).boxed()
}

/// a closed run of swaps by trader 0: related sizes, back and forth
pub fn swap_run_strategy() -> BoxedStrategy<Vec<Op>> {
    (swap_amount_strategy(), prop::collection::vec((1u64..=16, -2i64..=2, any::<bool>(), any::<bool>(), 0u8..4, any::<bool>()), 3..=12))
        .prop_map(|(base, v)| {
            let mut ops = vec![];
            for (k, d, a_to_b, exact_in, mode, v2) in v {
                if mode == 0 || ops.is_empty() {
                    let amount = ((base as u128 * k as u128 / 8) as i128 + d as i128).clamp(0, u64::MAX as i128) as u64;
                    ops.push(Op::Swap { trader: 0, a_to_b, exact_in, amount, limit: LimitSel::None, v2 });
                } else {
                    ops.push(Op::SwapBack { trader: 0, exact_in, delta: d as i8, v2 });
                }
            }
            ops
        })
        .boxed()
}

pub fn kind_strategy() -> BoxedStrategy<PosKind> {
    prop_oneof![3 => Just(PosKind::Plain), 2 => Just(PosKind::TokenExt), 1 => Just(PosKind::TokenExtMeta), 1 => Just(PosKind::Metadata)].boxed()
}

/// the op mix of C01-style histories
pub fn op_strategy(with_rewards: bool) -> BoxedStrategy<Op> {
    let inc_variant = prop_oneof![
        2 => Just(IncVariant::V1),
        2 => Just(IncVariant::V2),
        1 => (gen::bits_u64(60), gen::bits_u64(60)).prop_map(|(max_a, max_b)| IncVariant::ByAmounts { max_a, max_b }),
        1 => (any::<bool>(), 0u8..AMOUNT_TARGETS.len() as u8, any::<u32>(), any::<bool>()).prop_map(|(token_a, target, frac, v2)| IncVariant::ForAmount { token_a, target, frac, v2 }),
    ];
    let dec = prop_oneof![2 => Just(DecSel::All), 1 => any::<bool>().prop_map(DecSel::NetZero), 3 => any::<u16>().prop_map(DecSel::Frac), 1 => gen::bits_u128(100).prop_map(DecSel::Exact),
        // amounts that do not fit the signed 128-bit delta (2^128 - k reads as +k when negated carelessly)
        1 => prop_oneof![(0u128..4).prop_map(|k| u128::MAX - k), gen::bits_u128(100).prop_map(|k| u128::MAX - k), gen::bits_u128(127).prop_map(|x| x | (1u128 << 127))].prop_map(DecSel::Exact)];
    let base = prop_oneof![
        10 => (0u8..3, kind_strategy(), range_strategy()).prop_map(|(lp, kind, range)| Op::Open { lp, kind, range }),
        14 => (any::<u16>(), liquidity_strategy(), inc_variant).prop_map(|(pos, liquidity, variant)| Op::Increase { pos, liquidity, variant }),
        8 => (any::<u16>(), dec, any::<bool>()).prop_map(|(pos, amount, v2)| Op::Decrease { pos, amount, v2 }),
        3 => (any::<u16>(), range_strategy(), liquidity_strategy()).prop_map(|(pos, range, liquidity)| Op::Reposition { pos, range, liquidity }),
        26 => swap_op(),
        6 => swap_back_op(),
        4 => swap_exact_op(),
        2 => (any::<u16>(), any::<bool>(), any::<bool>()).prop_map(|(which, dynamic, idempotent)| Op::ReinitArray { which, dynamic, idempotent }),
        5 => any::<u16>().prop_map(|pos| Op::UpdateFees { pos }),
        5 => (any::<u16>(), any::<bool>()).prop_map(|(pos, v2)| Op::CollectFees { pos, v2 }),
        3 => any::<bool>().prop_map(|v2| Op::CollectProtocolFees { v2 }),
        1 => gen::fee_rate(60001).prop_map(|r| Op::SetFeeRate(r as u16)),
        1 => (0u16..=2501).prop_map(Op::SetProtocolFeeRate),
        2 => any::<u16>().prop_map(|pos| Op::Close { pos }),
        // vacuous unless the pool's mints carry transfer fees
        1 => (any::<bool>(), prop::sample::select(vec![0u16, 1, 100, 1000, 5000, 10000]), prop_oneof![1 => Just(0u64), 2 => crate::gen::bits_u64(40), 1 => Just(u64::MAX)]).prop_map(|(second, bp, max)| Op::SetTransferFee { second, bp, max }),
        1 => (0u8..=2).prop_map(Op::AdvanceEpoch),
    ];
    // one liquidity / fee-update op in twelve names a wrong tick array of the same pool
    let base = (base, 0u8..12, 0u8..3, prop_oneof![Just(-1i8), Just(1i8), Just(2i8), Just(-2i8)])
        .prop_map(|(op, k, which, offset)| if k == 0 && matches!(op, Op::Increase { .. } | Op::Decrease { .. } | Op::UpdateFees { .. } | Op::Reposition { .. }) { Op::Skewed { which, offset, op: Box::new(op) } } else { op });
    // one swap in eight travels as swap_v2 with supplemental tick arrays
    let base = (base, 0u8..8, 1u8..=3, any::<u16>())
        .prop_map(|(op, k, n, seed)| if k == 0 && matches!(op, Op::Swap { .. } | Op::SwapBack { .. } | Op::SwapExact { .. }) { Op::Supplemented { n, seed, op: Box::new(op) } } else { op });
    if with_rewards {
        prop_oneof![
            70 => base,
            14 => prop_oneof![6 => 0i32..100, 6 => 0i32..100_000, 3 => 0i32..10_000_000, 1 => -100i32..0].prop_map(Op::AdvanceClock),
            6 => (any::<u16>(), 0u8..3, any::<bool>()).prop_map(|(pos, index, v2)| Op::CollectReward { pos, index, v2 }),
            2 => (any::<u16>(), 0u8..3, any::<bool>(), 0u8..4).prop_map(|(pos, index, v2, from)| Op::CollectRewardFrom { pos, index, v2, from }),
            4 => (0u8..3, prop_oneof![1 => Just(0u128), 5 => gen::bits_u128(90), 1 => gen::bits_u128(128)]).prop_map(|(index, emissions_x64)| Op::SetEmissions { index, emissions_x64 }),
            2 => (0u8..3, gen::bits_u64(62)).prop_map(|(index, amount)| Op::FundRewardVault { index, amount }),
            3 => (0u8..3, -2i8..=2).prop_map(|(index, delta)| Op::SetEmissionsNearVault { index, delta }),
        ]
        .boxed()
    } else {
        base.boxed()
    }
}

/// prelude + closed swap runs only (C01 no-extraction clause)
pub fn swap_run_history_strategy() -> BoxedStrategy<HistoryCase> {
    let prelude = prop::collection::vec(
        (0u8..3, kind_strategy(), range_strategy(), liquidity_strategy()).prop_map(|(lp, kind, range, liquidity)| {
            vec![Op::Open { lp, kind, range }, Op::Increase { pos: u16::MAX, liquidity, variant: IncVariant::V1 }]
        }),
        1..=5,
    )
    .prop_map(|v| v.into_iter().flatten().collect::<Vec<Op>>());
    (with_adaptive(spec_strategy(false, false), 5), prelude, swap_run_strategy())
        .prop_map(|(spec, mut pre, ops)| {
            pre.extend(ops);
            HistoryCase { spec, ops: pre }
        })
        .boxed()
}

/// C01-style history: a liquidity prelude (so that swaps have something to trade against), then mixed ops
pub fn history_strategy(with_rewards: bool, wrap_bias: bool, max_ops: usize) -> BoxedStrategy<HistoryCase> {
    let prelude = prop::collection::vec(
        (0u8..3, kind_strategy(), range_strategy(), liquidity_strategy()).prop_map(|(lp, kind, range, liquidity)| {
            vec![Op::Open { lp, kind, range }, Op::Increase { pos: u16::MAX, liquidity, variant: IncVariant::V1 }]
        }),
        2..=5,
    )
    .prop_map(|v| v.into_iter().flatten().collect::<Vec<Op>>());
    (with_adaptive(spec_strategy(with_rewards, wrap_bias), 5), prelude, prop::collection::vec(op_strategy(with_rewards), 6..=max_ops))
        .prop_map(|(spec, mut pre, ops)| {
            pre.extend(ops);
            HistoryCase { spec, ops: pre }
        })
        .boxed()
}

/// Token-2022 transfer-fee schedule (basis points, maximum fee) for fee-mint pools
pub fn tf_strategy() -> BoxedStrategy<Option<(u16, u64)>> {
    prop_oneof![
        1 => Just(None),
        6 => (prop::sample::select(vec![0u16, 1, 100, 250, 5000, 9999, 10000]), prop_oneof![1 => Just(0u64), 2 => 1u64..5000, 2 => crate::gen::bits_u64(40), 1 => Just(u64::MAX)]).prop_map(Some),
        2 => (0u16..=10000, crate::gen::bits_u64(64)).prop_map(Some),
    ]
    .boxed()
}


/// turn a history into one over Token-2022 transfer-fee mints: current schedules, optionally a scheduled change that is
/// still pending (epoch_advance 0 / 1) or already in force (>= 2) when the pool is used; four in seven also carry transfer hooks
/// (executed by the runtime's native hook programs) on one or both mints
pub fn with_fee_mints(h: BoxedStrategy<HistoryCase>) -> BoxedStrategy<HistoryCase> {
    (h, tf_strategy(), tf_strategy(), prop_oneof![2 => Just(None), 3 => tf_strategy()], prop_oneof![2 => Just(None), 3 => tf_strategy()], prop_oneof![3 => Just(0u8), 2 => Just(1u8), 2 => Just(2u8), 1 => Just(3u8)], prop_oneof![3 => Just((false, false)), 1 => Just((true, false)), 1 => Just((false, true)), 2 => Just((true, true))])
        .prop_map(|(mut h, tf1, tf2, n1, n2, adv, (hook1, hook2))| {
            h.spec.hook1 = hook1;
            h.spec.hook2 = hook2;
            h.spec.mint_kind = 3;
            h.spec.tf1 = tf1;
            h.spec.tf2 = tf2;
            h.spec.tf1_next = n1;
            h.spec.tf2_next = n2;
            h.spec.epoch_advance = adv;
            h
        })
        .boxed()
}

/// valid adaptive-fee constants for a tick spacing (all fields varied within the published rules)
pub fn adaptive_constants(ts: u16) -> BoxedStrategy<crate::world2::AfConstants> {
    let divisors: Vec<u16> = (1..=ts.min(256)).filter(|d| ts % d == 0).collect();
    (1u16..=60, 1u16..=600, 0u16..10_000, prop_oneof![1 => Just(0u32), 6 => 1u32..100_000], any::<u32>(), prop::sample::select(divisors), 1u32..=65_535)
        .prop_map(move |(filter_period, extra, reduction_factor, adaptive_fee_control_factor, macc, tick_group_size, major)| {
            let cap = (u32::MAX as u64 / tick_group_size as u64).min(3_000_000) as u32;
            crate::world2::AfConstants {
                filter_period,
                decay_period: filter_period + extra,
                reduction_factor,
                adaptive_fee_control_factor,
                max_volatility_accumulator: macc % (cap + 1),
                tick_group_size,
                major_swap_threshold_ticks: (1 + major % ((ts as u32 * 88).min(65_535))) as u16,
            }
        })
        .boxed()
}

/// every constant over its whole valid range (any divisor as group size, accumulator maxima up to u32::MAX / group size)
pub fn all_valid_constants(ts: u16) -> BoxedStrategy<crate::world2::AfConstants> {
    let mut divisors: Vec<u16> = vec![];
    let mut d = 1u32;
    while d * d <= ts as u32 {
        if ts as u32 % d == 0 {
            divisors.push(d as u16);
            divisors.push((ts as u32 / d) as u16);
        }
        d += 1;
    }
    divisors.sort();
    divisors.dedup();
    (
        prop_oneof![3 => 1u16..=60, 1 => 1u16..=65_534],
        any::<u16>(),
        0u16..10_000,
        prop_oneof![1 => Just(0u32), 6 => 1u32..100_000, 1 => Just(99_999u32)],
        (any::<u32>(), 0u8..4),
        prop::sample::select(divisors),
        any::<u32>(),
    )
        .prop_map(move |(filter_period, extra, reduction_factor, adaptive_fee_control_factor, (macc, macc_kind), tick_group_size, major)| {
            let cap = (u32::MAX as u64 / tick_group_size as u64) as u32;
            let max_volatility_accumulator = match macc_kind {
                0 => macc % (cap.min(3_000_000) + 1),
                1 => cap - macc % (cap / 16 + 1),
                _ => macc % cap.saturating_add(1).max(1),
            };
            let decay_period = (filter_period as u32 + 1 + extra as u32 % (65_535 - filter_period as u32)).min(65_535) as u16;
            crate::world2::AfConstants {
                filter_period,
                decay_period,
                reduction_factor,
                adaptive_fee_control_factor,
                max_volatility_accumulator,
                tick_group_size,
                major_swap_threshold_ticks: (1 + major % ((ts as u32 * 88).min(65_535))) as u16,
            }
        })
        .boxed()
}


/// turn a fraction of generated specs into adaptive-fee pools
pub fn with_adaptive(spec: BoxedStrategy<WorldSpec>, one_in: u32) -> BoxedStrategy<WorldSpec> {
    spec.prop_flat_map(move |s| {
        let ts = s.tick_spacing;
        (Just(s), prop_oneof![(one_in - 1) * 4 => Just(None), 3 => adaptive_constants(ts).prop_map(Some), 1 => all_valid_constants(ts).prop_map(Some)])
    })
    .prop_map(|(mut s, k)| {
        s.adaptive = k;
        s
    })
    .boxed()
}
