//! Byte-level entry points for the coverage-guided tier (cargo-fuzz targets in /verif/harness/fuzz call these).
//! Each decodes the input with `arbitrary::Unstructured` into the case type of a proptest sub-check and runs the
//! SAME oracle.  On a failure the case is written as a JSON replay file and the target panics (libFuzzer then also
//! keeps the raw input as its artifact).
use crate::checks::{c02, c12, c13, c16, c19, c20};
use crate::model::*;
use crate::runner::Local;
use arbitrary::Unstructured;
use serde::Serialize;

fn fail<C: Serialize>(id: &str, sub: &str, case: &C, msg: String) -> ! {
    let body = serde_json::json!({"property": id, "sub": sub, "message": msg, "case": case});
    let text = serde_json::to_string_pretty(&body).unwrap();
    let dir = crate::driver::verif_root().join("replays");
    let _ = std::fs::create_dir_all(&dir);
    let p = dir.join(format!("{id}-{sub}-fuzz-{:016x}.json", crate::runner::fnv(text.as_bytes())));
    let _ = std::fs::write(&p, &text);
    eprintln!("FUZZ-VIOLATION property={id} replay={}", p.display());
    panic!("{id}/{sub}: {msg}");
}

fn price(u: &mut Unstructured) -> arbitrary::Result<u128> {
    let k: u8 = u.arbitrary()?;
    Ok(match k % 4 {
        0 => {
            let t = u.int_in_range(MIN_TICK..=MAX_TICK)?;
            let d = u.int_in_range(-2i32..=2)?;
            ((whirlpool::math::sqrt_price_from_tick_index(t) as i128 + d as i128).max(MIN_SQRT_PRICE as i128) as u128).min(MAX_SQRT_PRICE)
        }
        1 => MIN_SQRT_PRICE + u.int_in_range(0u8..=2)? as u128,
        2 => MAX_SQRT_PRICE - u.int_in_range(0u8..=2)? as u128,
        _ => MIN_SQRT_PRICE + u.arbitrary::<u128>()? % (MAX_SQRT_PRICE - MIN_SQRT_PRICE + 1),
    })
}

fn bits128(u: &mut Unstructured, max: u32) -> arbitrary::Result<u128> {
    let b = u.int_in_range(0..=max)?;
    let r: u128 = u.arbitrary()?;
    Ok(if b == 0 { 0 } else { (r >> (128 - b)) | (1u128 << (b - 1)) })
}

pub fn decode_swapstep(data: &[u8]) -> Option<c02::StepCase> {
    let mut u = Unstructured::new(data);
    (|| -> arbitrary::Result<c02::StepCase> {
        let p_cur = price(&mut u)?;
        let p_target = price(&mut u)?;
        let flag: bool = u.arbitrary()?;
        Ok(c02::StepCase {
            amount: u.arbitrary()?,
            fee_rate: u.int_in_range(0u32..=100_000)?,
            liquidity: bits128(&mut u, 128)?,
            p_cur,
            p_target,
            exact_in: u.arbitrary()?,
            a_to_b: if p_cur == p_target { flag } else { p_target < p_cur },
        })
    })()
    .ok()
}

pub fn swapstep(data: &[u8]) {
    let Some(c) = decode_swapstep(data) else { return };
    let mut l = Local::default();
    if let Err(m) = c02::check_step(&c, &mut l) {
        fail("C02", "step", &c, m);
    }
}

/// C20 math_functions: SDK vs program on the shared token / price math
pub fn sdkmath(data: &[u8]) {
    let mut u = Unstructured::new(data);
    let Ok(c) = (|| -> arbitrary::Result<c20::MathCase> {
        let p0 = price(&mut u)?;
        let p1 = price(&mut u)?;
        Ok(c20::MathCase {
            p0,
            p1,
            liquidity: bits128(&mut u, 128)?,
            amount: u.arbitrary()?,
            flag: u.arbitrary()?,
            lower: u.int_in_range(MIN_TICK..=MAX_TICK)?,
            upper: u.int_in_range(MIN_TICK..=MAX_TICK)?,
        })
    })() else {
        return;
    };
    let mut l = Local::default();
    if let Err(m) = c20::check_math(&c, &mut l) {
        fail("C20", "math_functions", &c, m);
    }
}

fn tickval(u: &mut Unstructured) -> arbitrary::Result<c13::TickVal> {
    Ok(c13::TickVal { net: u.arbitrary()?, gross: u.arbitrary::<u128>()? | 1, fa: u.arbitrary()?, fb: u.arbitrary()?, r: u.arbitrary()? })
}

pub fn dyntick(data: &[u8]) {
    let mut u = Unstructured::new(data);
    let Ok(c) = (|| -> arbitrary::Result<c13::ArrCase> {
        let ts = *u.choose(&[1u16, 2, 64, 128, 32768])?;
        let n = 88 * ts as i32;
        let array_no = u.int_in_range(MIN_TICK.div_euclid(n)..=MAX_TICK.div_euclid(n))?;
        let mut ops = vec![];
        let nops = u.int_in_range(1u8..=100)?;
        for _ in 0..nops {
            let slot = u.int_in_range(-2i16..=90)?;
            let skew = u.int_in_range(-1i8..=1)?;
            ops.push(match u.int_in_range(0u8..=3)? {
                0 => c13::ArrOp::Set { slot, skew, val: tickval(&mut u)? },
                1 => c13::ArrOp::Deinit { slot, skew },
                2 => c13::ArrOp::Get { slot, skew },
                _ => c13::ArrOp::NextInit { slot, skew, a_to_b: u.arbitrary()? },
            });
        }
        // trailing bytes: optional start from a (nearly) full array
        let prefill = if u.arbitrary::<u8>()? % 4 == 1 {
            let n = u.int_in_range(0u8..=3)?;
            let mut missing = vec![];
            for _ in 0..n {
                missing.push(u.int_in_range(0i16..=87)?);
            }
            Some(c13::Prefill { missing, seed: u.arbitrary()? })
        } else {
            None
        };
        // further trailing bytes: regular stretches (fill / drain / cycle)
        let mut macros = vec![];
        for _ in 0..u.int_in_range(0u8..=2).unwrap_or(0) {
            let seed: u8 = u.arbitrary().unwrap_or(0);
            let slot = u.int_in_range(0i16..=87).unwrap_or(0);
            macros.push(match u.int_in_range(0u8..=2).unwrap_or(0) {
                0 => c13::Macro::FillAll { seed, skip: vec![slot] },
                1 => c13::Macro::DrainAll { seed, keep: if seed % 2 == 0 { vec![] } else { vec![slot] } },
                _ => c13::Macro::Cycle { slot, times: u.int_in_range(1u8..=100).unwrap_or(1) },
            });
        }
        Ok(c13::ArrCase { tick_spacing: ts, array_no, ops, prefill, macros })
    })() else {
        return;
    };
    let mut l = Local::default();
    if let Err(m) = c13::check_case(&c, &mut l) {
        fail("C13", "random_sequences", &c, m);
    }
}

pub fn pinodiff(data: &[u8]) {
    let mut u = Unstructured::new(data);
    let Ok(c) = (|| -> arbitrary::Result<c12::DiffCase> {
        let ts = *u.choose(&[1u16, 2, 64, 128, 32768])?;
        let n = 88 * ts as i32;
        let tv = |u: &mut Unstructured| -> arbitrary::Result<c13::TickVal> {
            let gross = bits128(u, 100)?.max(1);
            let netm = bits128(u, 100)?.min(gross);
            Ok(c13::TickVal { net: if u.arbitrary()? { -(netm as i128) } else { netm as i128 }, gross, fa: u.arbitrary()?, fb: u.arbitrary()?, r: u.arbitrary()? })
        };
        let rw = |u: &mut Unstructured| -> arbitrary::Result<c12::RewardGen> {
            let init: bool = u.arbitrary()?;
            Ok(if init { c12::RewardGen { initialized: true, emissions: bits128(u, 110)?, growth: u.arbitrary()? } } else { c12::RewardGen { initialized: false, emissions: 0, growth: 0 } })
        };
        let two_arrays: bool = u.arbitrary()?;
        let (mut lower_slot, mut upper_slot) = (u.int_in_range(0u8..=87)?, u.int_in_range(0u8..=87)?);
        if !two_arrays {
            if lower_slot == upper_slot {
                upper_slot = (lower_slot + 1) % 88;
            }
            if lower_slot > upper_slot {
                std::mem::swap(&mut lower_slot, &mut upper_slot);
            }
        }
        let last_updated = u.int_in_range(1_600_000_000u64..=1_800_000_000)?;
        let mut other = vec![];
        for _ in 0..u.int_in_range(0u8..=3)? {
            other.push((u.int_in_range(0u8..=87)?, tv(&mut u)?));
        }
        Ok(c12::DiffCase {
            tick_spacing: ts,
            array_no: u.int_in_range(MIN_TICK.div_euclid(n)..=MAX_TICK.div_euclid(n))?,
            two_arrays,
            lower_dynamic: u.arbitrary()?,
            upper_dynamic: u.arbitrary()?,
            lower_slot,
            upper_slot,
            lower_tick: if u.arbitrary()? { Some(tv(&mut u)?) } else { None },
            upper_tick: if u.arbitrary()? { Some(tv(&mut u)?) } else { None },
            other_ticks: other,
            pool_liquidity: bits128(&mut u, 128)?,
            current_slot: u.int_in_range(-2i16..=180)?,
            current_skew: u.int_in_range(-1i8..=1)?,
            fee_growth_a: u.arbitrary()?,
            fee_growth_b: u.arbitrary()?,
            rewards: [rw(&mut u)?, rw(&mut u)?, rw(&mut u)?],
            last_updated,
            timestamp: last_updated.saturating_add(u.int_in_range(0u64..=100_000_000)?).saturating_sub(u.int_in_range(0u64..=3)?),
            pos_liquidity: bits128(&mut u, 128)?,
            cp_a: u.arbitrary()?,
            cp_b: u.arbitrary()?,
            owed_a: u.arbitrary()?,
            owed_b: u.arbitrary()?,
            pos_rewards: u.arbitrary()?,
            liquidity_delta: u.arbitrary()?,
            fill: if u.int_in_range(0u8..=9).unwrap_or(1) == 0 { u.int_in_range(1u8..=3).unwrap_or(1) } else { 0 },
        })
    })() else {
        return;
    };
    let mut l = Local::default();
    if let Err(m) = c12::check_case(&c, &mut l) {
        fail("C12", "modify_liquidity", &c, m);
    }
}

pub fn tlvfee(data: &[u8]) {
    let mut u = Unstructured::new(data);
    let Ok(c) = (|| -> arbitrary::Result<c16::FeeFnCase> {
        let sched = |u: &mut Unstructured| -> arbitrary::Result<c16::FeeSched> { Ok(c16::FeeSched { epoch: u.int_in_range(0u64..=200)?, max: u.arbitrary()?, bp: u.int_in_range(0u16..=10_000)? }) };
        let types = [18u16, 10, 3, 12, 25, 26, 6, 20, 14];
        let mut seen = std::collections::BTreeSet::new();
        let mut pick = |u: &mut Unstructured| -> arbitrary::Result<Vec<u16>> {
            let mut v = vec![];
            for _ in 0..u.int_in_range(0u8..=2)? {
                let t = *u.choose(&types)?;
                if seen.insert(t) {
                    v.push(t);
                }
            }
            Ok(v)
        };
        let before = pick(&mut u)?;
        let after = pick(&mut u)?;
        Ok(c16::FeeFnCase { older: sched(&mut u)?, newer: sched(&mut u)?, clock_epoch: u.int_in_range(0u64..=200)?, amount: u.arbitrary()?, before, after, has_fee_config: u.int_in_range(0u8..=9)? != 0 })
    })() else {
        return;
    };
    let mut l = Local::default();
    if let Err(m) = c16::check_fn(&c, &mut l) {
        if !m.starts_with("harness:") {
            fail("C16", "fee_functions", &c, m);
        }
    }
}

pub fn mintadmit(data: &[u8]) {
    let mut u = Unstructured::new(data);
    let Ok(c) = (|| -> arbitrary::Result<c19::MintCase> {
        let mut extensions = vec![];
        let mut seen = std::collections::BTreeSet::new();
        for _ in 0..u.int_in_range(0u8..=4)? {
            let ty: u16 = if u.int_in_range(0u8..=7)? == 0 { u.arbitrary()? } else { u.int_in_range(1u16..=30)? };
            if seen.insert(ty) {
                extensions.push(c19::ExtSpec { ty, len: if u.int_in_range(0u8..=7)? == 0 { Some(u.int_in_range(0u16..=200)?) } else { None }, fill: u.arbitrary()? });
            }
        }
        Ok(c19::MintCase {
            token2022: u.int_in_range(0u8..=9)? != 0,
            native_2022: u.int_in_range(0u8..=30)? == 0,
            freeze_authority: u.arbitrary()?,
            extensions,
            default_state: u.int_in_range(0u8..=2)?,
            truncate: if u.int_in_range(0u8..=9)? == 0 { u.int_in_range(1u8..=40)? } else { 0 },
            badge: u.arbitrary()?,
            foreign: if u.int_in_range(0u8..=3)? == 0 { u.int_in_range(1u8..=3)? } else { 0 },
            own_mint_reward: u.int_in_range(0u8..=2).unwrap_or(0),
            offered_to: u.int_in_range(0u8..=2)?,
            partner_badge: u.int_in_range(0u8..=2).unwrap_or(0) == 0,
            key_first_byte: u.arbitrary().unwrap_or(0),
        })
    })() else {
        return;
    };
    let mut l = Local::default();
    if let Err(m) = c19::check_mint(&c, &mut l) {
        if !m.starts_with("harness:") {
            fail("C19", "mints", &c, m);
        }
    }
}
