//! nsvm: minimal native Solana runtime (account store + BPF-loader input serialization + CPI dispatch
//! to the real SPL processors).  See DESIGN.md §2.1.
#![allow(dead_code)]
use solana_program::{
    account_info::AccountInfo,
    clock::Clock,
    entrypoint::ProgramResult,
    instruction::{AccountMeta, Instruction},
    program_error::ProgramError,
    pubkey::Pubkey,
    rent::Rent,
    system_program,
};
use std::{
    cell::RefCell,
    collections::BTreeMap,
    rc::Rc,
};

pub const MAX_PERMITTED_DATA_INCREASE: usize = 10240;

extern "C" {
    // the program's real entrypoint (programs/whirlpool/src/entrypoint.rs)
    fn entrypoint(input: *mut u8) -> u64;
}

#[derive(Clone, Debug, PartialEq, Eq)]
pub struct Acct {
    pub lamports: u64,
    pub data: Vec<u8>,
    pub owner: Pubkey,
    pub executable: bool,
}

#[derive(Default, Clone)]
pub struct Bank {
    pub accounts: BTreeMap<Pubkey, Acct>,
    pub clock: Clock,
}

thread_local! {
    static CTX: RefCell<Ctx> = RefCell::new(Ctx::default());
}

#[derive(Default)]
struct Ctx {
    clock: Clock,
    program_stack: Vec<Pubkey>,
    /// account keys of the instruction executing at each level of the invoke stack
    account_stack: Vec<Vec<Pubkey>>,
    /// per invoke level: the accounts that level handed to a CPI (their changes are verified at the callee's level)
    nested_stack: Vec<std::collections::BTreeSet<Pubkey>>,
    logs: Vec<String>,
    events: Vec<Vec<u8>>,
    cpi_error: Option<ProgramError>,
    return_data: Option<(Pubkey, Vec<u8>)>,
}

struct Stubs;
impl solana_program::program_stubs::SyscallStubs for Stubs {
    fn sol_log(&self, message: &str) {
        CTX.with(|c| c.borrow_mut().logs.push(message.to_string()));
    }
    fn sol_log_data(&self, fields: &[&[u8]]) {
        CTX.with(|c| {
            let mut c = c.borrow_mut();
            for f in fields {
                c.events.push(f.to_vec());
            }
        });
    }
    fn sol_invoke_signed(
        &self,
        instruction: &Instruction,
        account_infos: &[AccountInfo],
        signers_seeds: &[&[&[u8]]],
    ) -> ProgramResult {
        cpi(instruction, account_infos, signers_seeds)
    }
    fn sol_get_clock_sysvar(&self, var_addr: *mut u8) -> u64 {
        CTX.with(|c| unsafe { *(var_addr as *mut Clock) = c.borrow().clock.clone() });
        0
    }
    fn sol_get_rent_sysvar(&self, var_addr: *mut u8) -> u64 {
        unsafe { *(var_addr as *mut Rent) = Rent::default() };
        0
    }
    fn sol_get_stack_height(&self) -> u64 {
        CTX.with(|c| c.borrow().program_stack.len() as u64)
    }
    fn sol_set_return_data(&self, data: &[u8]) {
        verif_sol_set_return_data(data)
    }
    fn sol_get_return_data(&self) -> Option<(Pubkey, Vec<u8>)> {
        verif_sol_get_return_data()
    }
}

#[no_mangle]
pub fn verif_sol_set_return_data(data: &[u8]) {
    CTX.with(|c| {
        let mut c = c.borrow_mut();
        let p = *c.program_stack.last().unwrap();
        c.return_data = Some((p, data.to_vec()));
    });
}
#[no_mangle]
pub fn verif_sol_get_return_data() -> Option<(Pubkey, Vec<u8>)> {
    CTX.with(|c| c.borrow().return_data.clone())
}
#[no_mangle]
pub fn verif_sol_log(message: &str) {
    CTX.with(|c| c.borrow_mut().logs.push(message.to_string()));
}

pub fn install() {
    static ONCE: std::sync::Once = std::sync::Once::new();
    ONCE.call_once(|| {
        solana_program::program_stubs::set_syscall_stubs(Box::new(Stubs));
        let prev = std::panic::take_hook();
        std::panic::set_hook(Box::new(move |info| {
            if IN_ENTRYPOINT.with(|f| f.get()) {
                // A panic inside the program's `extern "C" fn entrypoint` cannot unwind out of it (the
                // process would abort).  On-chain a panic is a failed instruction, so: report it to the
                // worker that owns the bank and retire this executor thread for good.
                let msg = if let Some(s) = info.payload().downcast_ref::<&str>() {
                    s.to_string()
                } else if let Some(s) = info.payload().downcast_ref::<String>() {
                    s.clone()
                } else {
                    "panic".to_string()
                };
                let loc = info.location().map(|l| format!(" at {}:{}", l.file(), l.line())).unwrap_or_default();
                REPLY_TX.with(|tx| {
                    if let Some(tx) = tx.borrow().as_ref() {
                        let _ = tx.send(Reply::Panicked(format!("{msg}{loc}")));
                    }
                });
                loop {
                    std::thread::park();
                }
            }
            if QUIET_PANICS.with(|f| f.get()) {
                let msg = if let Some(s) = info.payload().downcast_ref::<&str>() {
                    s.to_string()
                } else if let Some(s) = info.payload().downcast_ref::<String>() {
                    s.clone()
                } else {
                    "panic".to_string()
                };
                let loc = info.location().map(|l| format!(" at {}:{}", l.file(), l.line())).unwrap_or_default();
                LAST_PANIC.with(|p| *p.borrow_mut() = format!("{msg}{loc}"));
                return;
            }
            prev(info)
        }));
    });
}

thread_local! {
    static IN_ENTRYPOINT: std::cell::Cell<bool> = const { std::cell::Cell::new(false) };
    static QUIET_PANICS: std::cell::Cell<bool> = const { std::cell::Cell::new(false) };
    static LAST_PANIC: RefCell<String> = const { RefCell::new(String::new()) };
    static REPLY_TX: RefCell<Option<std::sync::mpsc::Sender<Reply>>> = const { RefCell::new(None) };
    static EXECUTOR: RefCell<Option<Executor>> = const { RefCell::new(None) };
}

/// Call program code directly (outside the entrypoint) and turn a panic into an error value carrying the message and
/// location: on-chain a panic aborts the transaction, i.e. the call failed.
pub fn try_call<T>(f: impl FnOnce() -> T) -> Result<T, String> {
    install();
    let was = QUIET_PANICS.with(|q| q.replace(true));
    let r = std::panic::catch_unwind(std::panic::AssertUnwindSafe(f));
    QUIET_PANICS.with(|q| q.set(was));
    r.map_err(|_| LAST_PANIC.with(|p| format!("panic: {}", p.borrow())))
}

/// silence the default panic message on this thread (used around code whose panics are expected and caught)
pub fn quiet_panics(on: bool) {
    QUIET_PANICS.with(|f| f.set(on));
}

struct Job {
    ptr: usize,
    clock: Clock,
    program_id: Pubkey,
    /// keys of the instruction's accounts (a CPI can only target a program that is among the caller's instruction accounts)
    account_keys: Vec<Pubkey>,
}
enum Reply {
    Done { ret: u64, logs: Vec<String>, events: Vec<Vec<u8>>, cpi_error: Option<ProgramError>, steps: Vec<whirlpool::verif_trace::StepTrace>, cpi_touched: std::collections::BTreeSet<Pubkey> },
    Panicked(String),
}
struct Executor {
    job_tx: std::sync::mpsc::Sender<Job>,
    reply_rx: std::sync::mpsc::Receiver<Reply>,
}

fn spawn_executor() -> Executor {
    let (job_tx, job_rx) = std::sync::mpsc::channel::<Job>();
    let (reply_tx, reply_rx) = std::sync::mpsc::channel::<Reply>();
    std::thread::Builder::new()
        .name("nsvm-exec".into())
        .stack_size(32 << 20)
        .spawn(move || {
            REPLY_TX.with(|tx| *tx.borrow_mut() = Some(reply_tx.clone()));
            while let Ok(job) = job_rx.recv() {
                CTX.with(|c| {
                    let mut c = c.borrow_mut();
                    c.clock = job.clock.clone();
                    c.program_stack = vec![job.program_id];
                    c.account_stack = vec![job.account_keys.clone()];
                    c.nested_stack = vec![Default::default()];
                    c.logs.clear();
                    c.events.clear();
                    c.cpi_error = None;
                    c.return_data = None;
                });
                let _ = whirlpool::verif_trace::take();
                IN_ENTRYPOINT.with(|f| f.set(true));
                let ret = unsafe { entrypoint(job.ptr as *mut u8) };
                IN_ENTRYPOINT.with(|f| f.set(false));
                let steps = whirlpool::verif_trace::take();
                let (logs, events, cpi_error, cpi_touched) = CTX.with(|c| {
                    let mut c = c.borrow_mut();
                    let touched = c.nested_stack.first().cloned().unwrap_or_default();
                    (std::mem::take(&mut c.logs), std::mem::take(&mut c.events), c.cpi_error.take(), touched)
                });
                if reply_tx.send(Reply::Done { ret, logs, events, cpi_error, steps, cpi_touched }).is_err() {
                    break;
                }
            }
        })
        .expect("spawn executor");
    Executor { job_tx, reply_rx }
}

/// number of program panics seen by this process (each retires one executor thread)
pub static PANICS: std::sync::atomic::AtomicU64 = std::sync::atomic::AtomicU64::new(0);
/// retired executor threads a process may accumulate (about four memory mappings each: stack, guard, signal stack, its guard; vm.max_map_count is 65530)
pub const PANIC_BUDGET: u64 = 10_000;

fn run_entrypoint(ptr: *mut u8, clock: &Clock, program_id: Pubkey, account_keys: Vec<Pubkey>) -> Reply {
    EXECUTOR.with(|e| {
        let mut e = e.borrow_mut();
        if e.is_none() {
            *e = Some(spawn_executor());
        }
        let ex = e.as_ref().unwrap();
        ex.job_tx.send(Job { ptr: ptr as usize, clock: clock.clone(), program_id, account_keys }).expect("executor alive");
        let reply = ex.reply_rx.recv().expect("executor reply");
        if let Reply::Panicked(m) = &reply {
            // that executor thread is parked forever inside the panic hook; start a fresh one next time
            let n = PANICS.fetch_add(1, std::sync::atomic::Ordering::Relaxed);
            // development aid: VERIF_DEBUG_PANICS=1 prints the first program panics of the process
            if n < 40 && std::env::var("VERIF_DEBUG_PANICS").is_ok() {
                eprintln!("program panic #{n}: {m}");
            }
            *e = None;
        }
        reply
    })
}

// ---- shims' extern hooks -------------------------------------------------------------------
#[no_mangle]
pub fn verif_sol_invoke_signed(
    instruction: &Instruction,
    account_infos: &[AccountInfo],
    signers_seeds: &[&[&[u8]]],
) -> ProgramResult {
    cpi(instruction, account_infos, signers_seeds)
}

#[repr(C)]
struct PinoAccount {
    key: *const Pubkey,
    lamports: *const u64,
    data_len: u64,
    data: *const u8,
    owner: *const Pubkey,
    rent_epoch: u64,
    is_signer: bool,
    is_writable: bool,
    executable: bool,
}
#[repr(C)]
struct PinoSeed {
    seed: *const u8,
    len: u64,
}
#[repr(C)]
struct PinoSigner {
    seeds: *const PinoSeed,
    len: u64,
}

#[no_mangle]
pub fn verif_pino_invoke_signed(
    instruction: &pinocchio::instruction::Instruction,
    accounts: &[pinocchio::instruction::Account],
    signers_seeds: &[pinocchio::instruction::Signer],
) {
    let ix = Instruction {
        program_id: Pubkey::new_from_array(*instruction.program_id),
        accounts: instruction
            .accounts
            .iter()
            .map(|m| AccountMeta {
                pubkey: Pubkey::new_from_array(*m.pubkey),
                is_signer: m.is_signer,
                is_writable: m.is_writable,
            })
            .collect(),
        data: instruction.data.to_vec(),
    };
    assert_eq!(std::mem::size_of::<PinoAccount>(), std::mem::size_of::<pinocchio::instruction::Account>());
    let raw: &[PinoAccount] = unsafe { std::mem::transmute(accounts) };
    let infos: Vec<AccountInfo> = raw
        .iter()
        .map(|a| unsafe {
            AccountInfo {
                key: &*a.key,
                lamports: Rc::new(RefCell::new(&mut *(a.lamports as *mut u64))),
                data: Rc::new(RefCell::new(std::slice::from_raw_parts_mut(
                    a.data as *mut u8,
                    a.data_len as usize,
                ))),
                owner: &*a.owner,
                rent_epoch: a.rent_epoch,
                is_signer: a.is_signer,
                is_writable: a.is_writable,
                executable: a.executable,
            }
        })
        .collect();
    let rs: &[PinoSigner] = unsafe { std::mem::transmute(signers_seeds) };
    let seeds_owned: Vec<Vec<&[u8]>> = rs
        .iter()
        .map(|s| unsafe {
            std::slice::from_raw_parts(s.seeds, s.len as usize)
                .iter()
                .map(|sd| std::slice::from_raw_parts(sd.seed, sd.len as usize))
                .collect()
        })
        .collect();
    let seeds_ref: Vec<&[&[u8]]> = seeds_owned.iter().map(|v| v.as_slice()).collect();
    if let Err(e) = cpi(&ix, &infos, &seeds_ref) {
        // On-chain a failed CPI aborts the whole instruction inside the VM.  Here the failure is latched and the
        // instruction is failed (all its effects discarded) when the entrypoint returns; whatever the program
        // does after this point cannot be observed.
        CTX.with(|c| {
            let mut c = c.borrow_mut();
            if c.cpi_error.is_none() {
                c.cpi_error = Some(e);
            }
        });
    }
}

#[no_mangle]
pub fn verif_pino_get_sysvar(name: &str, var_addr: *mut u8) -> u64 {
    match name {
        "sol_get_clock_sysvar" => {
            CTX.with(|c| unsafe { *(var_addr as *mut Clock) = c.borrow().clock.clone() });
            0
        }
        "sol_get_rent_sysvar" => {
            unsafe { *(var_addr as *mut Rent) = Rent::default() };
            0
        }
        _ => 1,
    }
}
#[no_mangle]
pub fn verif_pino_log(message: &[u8]) {
    CTX.with(|c| c.borrow_mut().logs.push(String::from_utf8_lossy(message).to_string()));
}
#[no_mangle]
pub fn verif_pino_log_data(data: &[&[u8]]) {
    CTX.with(|c| {
        let mut c = c.borrow_mut();
        for f in data {
            c.events.push(f.to_vec());
        }
    });
}

// ---- CPI ------------------------------------------------------------------------------------
fn cpi(ix: &Instruction, infos: &[AccountInfo], signers_seeds: &[&[&[u8]]]) -> ProgramResult {
    let caller = CTX.with(|c| *c.borrow().program_stack.last().expect("no caller"));
    let mut pda_signers = vec![];
    for seeds in signers_seeds {
        let k = Pubkey::create_program_address(seeds, &caller)
            .map_err(|_| ProgramError::InvalidSeeds)?;
        pda_signers.push(k);
    }
    // the runtime resolves the callee among the accounts of the CALLER's instruction: a program that was not passed to the caller
    // cannot be invoked by it (InstructionError::MissingAccount, "Unknown program")
    let known = CTX.with(|c| c.borrow().account_stack.last().map(|a| a.contains(&ix.program_id)).unwrap_or(true));
    if !known {
        return Err(ProgramError::Custom(0x4d49_5353)); // "MISS"
    }
    let mut callee_infos: Vec<AccountInfo> = Vec::with_capacity(ix.accounts.len());
    for m in &ix.accounts {
        let info = infos
            .iter()
            .find(|i| *i.key == m.pubkey)
            .ok_or(ProgramError::NotEnoughAccountKeys)?;
        if m.is_signer && !(info.is_signer || pda_signers.contains(&m.pubkey)) {
            return Err(ProgramError::MissingRequiredSignature); // PrivilegeEscalation
        }
        if m.is_writable && !info.is_writable {
            return Err(ProgramError::Immutable); // PrivilegeEscalation
        }
        let mut ci = info.clone();
        // the runtime merges the privileges of duplicate instruction accounts
        ci.is_signer = ix.accounts.iter().any(|o| o.pubkey == m.pubkey && o.is_signer);
        ci.is_writable = ix.accounts.iter().any(|o| o.pubkey == m.pubkey && o.is_writable);
        callee_infos.push(ci);
    }
    // what the callee sees on entry (the runtime's pre-accounts)
    let mut pre: Vec<(Pubkey, Pubkey, u64, Vec<u8>)> = vec![];
    for ci in &callee_infos {
        if !pre.iter().any(|p| p.0 == *ci.key) {
            pre.push((*ci.key, *ci.owner, ci.lamports(), ci.data.borrow().to_vec()));
        }
    }
    CTX.with(|c| {
        let mut c = c.borrow_mut();
        c.program_stack.push(ix.program_id);
        c.account_stack.push(ix.accounts.iter().map(|m| m.pubkey).collect());
        c.nested_stack.push(Default::default());
        c.return_data = None;
    });
    let mut r = dispatch(&ix.program_id, &callee_infos, &ix.data);
    let inner = CTX.with(|c| {
        let mut c = c.borrow_mut();
        c.program_stack.pop();
        c.account_stack.pop();
        let inner = c.nested_stack.pop().unwrap_or_default();
        if let Some(parent) = c.nested_stack.last_mut() {
            parent.extend(ix.accounts.iter().map(|m| m.pubkey));
            parent.extend(inner.iter().copied());
        }
        inner
    });
    // the runtime's post-execution rule for the callee's OWN changes: only the owner of an account may change its data or debit its
    // lamports (InstructionError::ExternalAccountDataModified / ExternalAccountLamportSpend).  Accounts the callee handed on to a deeper
    // CPI were verified at that level.
    if r.is_ok() {
        for (k, owner, lamports, data) in &pre {
            if inner.contains(k) {
                continue;
            }
            let Some(ci) = callee_infos.iter().find(|ci| ci.key == k) else { continue };
            if *owner != ix.program_id {
                if *ci.data.borrow() != data.as_slice() {
                    r = Err(ProgramError::Custom(ERR_EXTERNAL_DATA_MODIFIED));
                    break;
                }
                if ci.lamports() < *lamports {
                    r = Err(ProgramError::Custom(ERR_EXTERNAL_LAMPORT_SPEND));
                    break;
                }
            }
        }
    }
    r
}

/// InstructionError::ExternalAccountDataModified / ExternalAccountLamportSpend as custom codes ("EXDM" / "EXLS")
pub const ERR_EXTERNAL_DATA_MODIFIED: u32 = 0x4558_444d;
pub const ERR_EXTERNAL_LAMPORT_SPEND: u32 = 0x4558_4c53;

static METADATA_PROGRAM: std::sync::OnceLock<Pubkey> = std::sync::OnceLock::new();

/// The legacy Memo v1 deployment (a real program that does what the memo program does, under another id), and an "obliging" program
/// that accepts every instruction: stand-ins for a program account the caller substitutes for an expected program.  An instruction that
/// names them instead of the expected program must be refused by the whirlpool program itself - the CPI would not stop it.
pub fn memo_v1_program() -> Pubkey {
    static K: std::sync::OnceLock<Pubkey> = std::sync::OnceLock::new();
    *K.get_or_init(|| std::str::FromStr::from_str("Memo1UhkJRfHyvLMcVucJwxXeuD728EqVDDwQDxFMNo").unwrap())
}
pub fn obliging_program() -> Pubkey {
    let mut b = [0x0bu8; 32];
    b[0] = 0x0b;
    b[31] = 0xee;
    Pubkey::new_from_array(b)
}

/// Two transfer-hook programs (Token-2022 `TransferHook` extension) executed natively: they accept `Execute` when the source and the
/// destination are Token-2022 accounts flagged as `transferring` (what a canonical hook asserts) and need no extra accounts.
pub fn hook_program(n: u8) -> Pubkey {
    let mut b = [0x5au8; 32];
    b[0] = 0x0b;
    b[31] = n;
    Pubkey::new_from_array(b)
}
/// number of `Execute` calls the native hook programs accepted in this process (instructions run on executor threads)
pub static HOOK_CALLS: std::sync::atomic::AtomicU64 = std::sync::atomic::AtomicU64::new(0);
fn hook_process(infos: &[AccountInfo], data: &[u8]) -> ProgramResult {
    use spl_token_2022::extension::{transfer_hook::TransferHookAccount, BaseStateWithExtensions, StateWithExtensions};
    // spl-transfer-hook-interface:execute
    const EXECUTE: [u8; 8] = [105, 37, 101, 197, 75, 251, 102, 26];
    if data.len() != 16 || data[..8] != EXECUTE || infos.len() < 4 {
        return Err(ProgramError::InvalidInstructionData);
    }
    for i in [0usize, 2] {
        let d = infos[i].try_borrow_data()?;
        let acc = StateWithExtensions::<spl_token_2022::state::Account>::unpack(&d)?;
        let ext = acc.get_extension::<TransferHookAccount>()?;
        if !bool::from(ext.transferring) {
            return Err(ProgramError::Custom(0x7dc8_3500));
        }
    }
    HOOK_CALLS.fetch_add(1, std::sync::atomic::Ordering::Relaxed);
    Ok(())
}

fn dispatch(program_id: &Pubkey, infos: &[AccountInfo], data: &[u8]) -> ProgramResult {
    if *program_id == system_program::ID {
        system(infos, data)
    } else if *program_id == spl_token::ID {
        spl_token::processor::Processor::process(program_id, infos, data)
    } else if *program_id == spl_token_2022::ID {
        spl_token_2022::processor::Processor::process(program_id, infos, data)
    } else if *program_id == spl_associated_token_account::ID {
        spl_associated_token_account::processor::process_instruction(program_id, infos, data)
    } else if *program_id == spl_memo::ID {
        spl_memo::processor::process_instruction(program_id, infos, data)
    } else if *program_id == memo_v1_program() {
        // same behaviour as the memo program: valid UTF-8, every account a signer
        std::str::from_utf8(data).map_err(|_| ProgramError::InvalidInstructionData)?;
        if infos.iter().any(|a| !a.is_signer) {
            return Err(ProgramError::MissingRequiredSignature);
        }
        Ok(())
    } else if *program_id == obliging_program() {
        Ok(())
    } else if *program_id == hook_program(1) || *program_id == hook_program(2) {
        hook_process(infos, data)
    } else if *program_id == *METADATA_PROGRAM.get_or_init(|| std::str::FromStr::from_str("metaqbxxUerdq28cj1RbAWkYQm3ybzjb6a8bt518x1s").unwrap()) {
        // Metaplex token-metadata has no processor crate in the cache: its CPI (only reached from the
        // `*_with_metadata` instructions) is accepted without effect.  Nothing is asserted about metadata accounts.
        Ok(())
    } else {
        Err(ProgramError::IncorrectProgramId)
    }
}

fn system(infos: &[AccountInfo], data: &[u8]) -> ProgramResult {
    use solana_program::system_instruction::SystemInstruction as SI;
    let ix: SI = bincode::deserialize(data).map_err(|_| ProgramError::InvalidInstructionData)?;
    match ix {
        SI::CreateAccount { lamports, space, owner } => {
            let (from, to) = (&infos[0], &infos[1]);
            if !from.is_signer || !to.is_signer {
                return Err(ProgramError::MissingRequiredSignature);
            }
            if to.lamports() != 0 || !to.data_is_empty() || *to.owner != system_program::ID {
                return Err(ProgramError::AccountAlreadyInitialized);
            }
            transfer_lamports(from, to, lamports)?;
            #[allow(deprecated)]
            to.realloc(space as usize, true)?;
            to.assign(&owner);
            Ok(())
        }
        SI::Transfer { lamports } => {
            let (from, to) = (&infos[0], &infos[1]);
            if !from.is_signer {
                return Err(ProgramError::MissingRequiredSignature);
            }
            if !from.data_is_empty() || *from.owner != system_program::ID {
                return Err(ProgramError::InvalidArgument);
            }
            transfer_lamports(from, to, lamports)
        }
        SI::Allocate { space } => {
            let a = &infos[0];
            if !a.is_signer {
                return Err(ProgramError::MissingRequiredSignature);
            }
            if !a.data_is_empty() || *a.owner != system_program::ID {
                return Err(ProgramError::AccountAlreadyInitialized);
            }
            #[allow(deprecated)]
            a.realloc(space as usize, true)
        }
        SI::Assign { owner } => {
            let a = &infos[0];
            if !a.is_signer {
                return Err(ProgramError::MissingRequiredSignature);
            }
            a.assign(&owner);
            Ok(())
        }
        _ => Err(ProgramError::InvalidInstructionData),
    }
}

fn transfer_lamports(from: &AccountInfo, to: &AccountInfo, lamports: u64) -> ProgramResult {
    if from.key == to.key {
        return Ok(());
    }
    let mut f = from.try_borrow_mut_lamports()?;
    let mut t = to.try_borrow_mut_lamports()?;
    **f = f.checked_sub(lamports).ok_or(ProgramError::InsufficientFunds)?;
    **t = t.checked_add(lamports).ok_or(ProgramError::ArithmeticOverflow)?;
    Ok(())
}

// ---- top-level instruction processing -------------------------------------------------------
#[derive(Debug)]
pub struct Outcome {
    pub result: Result<(), u64>,
    pub logs: Vec<String>,
    pub events: Vec<Vec<u8>>,
    /// H2 swap-loop trace of this instruction (empty for non-swap instructions)
    pub steps: Vec<whirlpool::verif_trace::StepTrace>,
}

impl Outcome {
    pub fn ok(&self) -> bool {
        self.result.is_ok()
    }
    pub fn code(&self) -> Option<u64> {
        self.result.err()
    }
}

/// distinct result codes for runtime-rule breaches detected after execution
pub const ERR_PANIC: u64 = u64::MAX;
pub const ERR_READONLY_MODIFIED: u64 = u64::MAX - 1;
pub const ERR_LAMPORTS_UNBALANCED: u64 = u64::MAX - 2;
/// the program changed the data / debited the lamports of an account it does not own
pub const ERR_EXTERNAL_MODIFIED: u64 = u64::MAX - 5;

impl Bank {
    pub fn get(&self, k: &Pubkey) -> Acct {
        self.accounts.get(k).cloned().unwrap_or(Acct {
            lamports: 0,
            data: vec![],
            owner: system_program::ID,
            executable: false,
        })
    }
    pub fn set(&mut self, k: Pubkey, a: Acct) {
        self.accounts.insert(k, a);
    }

    /// Executes one top-level whirlpool instruction atomically (state is committed only on success).
    pub fn process(&mut self, ix: &Instruction) -> Outcome {
        install();
        assert_eq!(ix.program_id, whirlpool::ID);
        // serialize
        let mut buf: Vec<u8> = Vec::new();
        let mut offsets: Vec<Option<usize>> = vec![]; // start offset of non-dup account record
        buf.extend_from_slice(&(ix.accounts.len() as u64).to_le_bytes());
        let mut metas: Vec<AccountMeta> = vec![];
        for (i, m) in ix.accounts.iter().enumerate() {
            if let Some(j) = ix.accounts[..i].iter().position(|p| p.pubkey == m.pubkey) {
                buf.push(j as u8);
                buf.extend_from_slice(&[0u8; 7]);
                offsets.push(None);
                // privileges of duplicates are merged by the real runtime
                metas[j].is_signer |= m.is_signer;
                metas[j].is_writable |= m.is_writable;
                metas.push(m.clone());
                continue;
            }
            metas.push(m.clone());
            let a = self.get(&m.pubkey);
            offsets.push(Some(buf.len()));
            buf.push(0xff);
            buf.push(m.is_signer as u8);
            buf.push(m.is_writable as u8);
            buf.push(a.executable as u8);
            buf.extend_from_slice(&[0u8; 4]);
            buf.extend_from_slice(m.pubkey.as_ref());
            buf.extend_from_slice(a.owner.as_ref());
            buf.extend_from_slice(&a.lamports.to_le_bytes());
            buf.extend_from_slice(&(a.data.len() as u64).to_le_bytes());
            buf.extend_from_slice(&a.data);
            buf.extend(std::iter::repeat(0u8).take(MAX_PERMITTED_DATA_INCREASE));
            while buf.len() % 8 != 0 {
                buf.push(0);
            }
            buf.extend_from_slice(&0u64.to_le_bytes()); // rent epoch
        }
        // fix merged privileges (second pass)
        for (i, off) in offsets.iter().enumerate() {
            if let Some(o) = off {
                buf[o + 1] = metas[i].is_signer as u8;
                buf[o + 2] = metas[i].is_writable as u8;
            }
        }
        buf.extend_from_slice(&(ix.data.len() as u64).to_le_bytes());
        buf.extend_from_slice(&ix.data);
        buf.extend_from_slice(ix.program_id.as_ref());
        // 8-aligned backing store
        let mut backing: Vec<u64> = vec![0u64; buf.len() / 8 + 2];
        let ptr = backing.as_mut_ptr() as *mut u8;
        unsafe { std::ptr::copy_nonoverlapping(buf.as_ptr(), ptr, buf.len()) };

        let mut cpi_touched: std::collections::BTreeSet<Pubkey> = Default::default();
        let (mut result, logs, events, steps) = match run_entrypoint(ptr, &self.clock, ix.program_id, ix.accounts.iter().map(|m| m.pubkey).collect()) {
            Reply::Done { ret, logs, events, cpi_error, steps, cpi_touched: t } => {
                cpi_touched = t;
                let result = if let Some(e) = cpi_error {
                    Err(u64::from(e))
                } else if ret == 0 {
                    Ok(())
                } else {
                    Err(ret)
                };
                (result, logs, events, steps)
            }
            Reply::Panicked(msg) => (Err(ERR_PANIC), vec![format!("program panicked: {msg}")], vec![], vec![]),
        };
        if result.is_ok() {
            // read back, apply the runtime's post-execution rules, then commit
            let mut updates: Vec<(Pubkey, Acct)> = vec![];
            let mut lamports_before: u128 = 0;
            let mut lamports_after: u128 = 0;
            for (i, off) in offsets.iter().enumerate() {
                let Some(o) = off else { continue };
                let m = &metas[i];
                unsafe {
                    let p = ptr.add(*o);
                    let owner = Pubkey::new_from_array(*(p.add(8 + 32) as *const [u8; 32]));
                    let lamports = *(p.add(8 + 64) as *const u64);
                    let dlen = *(p.add(8 + 72) as *const u64) as usize;
                    let data = std::slice::from_raw_parts(p.add(8 + 80), dlen).to_vec();
                    let before = self.get(&m.pubkey);
                    lamports_before += before.lamports as u128;
                    lamports_after += lamports as u128;
                    let after = Acct { lamports, data, owner, executable: before.executable };
                    if after != before {
                        if !m.is_writable {
                            result = Err(ERR_READONLY_MODIFIED);
                        }
                        // the program's OWN changes (accounts it never handed to a CPI): only to accounts it owns
                        if before.owner != ix.program_id && !cpi_touched.contains(&m.pubkey) && (after.data != before.data || after.lamports < before.lamports || after.owner != before.owner) {
                            result = Err(ERR_EXTERNAL_MODIFIED);
                        }
                        updates.push((m.pubkey, after));
                    }
                }
            }
            if lamports_before != lamports_after && result.is_ok() {
                result = Err(ERR_LAMPORTS_UNBALANCED);
            }
            if result.is_ok() {
                for (k, after) in updates {
                    if after.lamports == 0 {
                        // an account left without lamports is purged at the end of the transaction
                        self.accounts.remove(&k);
                    } else {
                        self.accounts.insert(k, after);
                    }
                }
            }
        }
        Outcome { result, logs, events, steps }
    }
}

impl Bank {
    /// Executes a top-level instruction of one of the natively linked helper programs (token, token-2022, ...).
    pub fn process_native(&mut self, ix: &Instruction) -> Result<(), ProgramError> {
        install();
        // serialize each distinct account into its own small BPF-style buffer via the whirlpool serializer is
        // overkill for the probe: build AccountInfos over owned copies and write back on success.
        let mut keys: Vec<Pubkey> = vec![];
        for m in &ix.accounts { if !keys.contains(&m.pubkey) { keys.push(m.pubkey); } }
        let mut store: Vec<(Pubkey, Pubkey, u64, Vec<u8>)> = keys.iter().map(|k| { let a = self.get(k); let mut d = a.data.clone(); d.reserve(0); (*k, a.owner, a.lamports, d) }).collect();
        // give every data buffer realloc slack with a fake length prefix region
        let mut bufs: Vec<Vec<u8>> = store.iter().map(|(_, _, _, d)| { let mut b = vec![0u8; 16 + d.len() + MAX_PERMITTED_DATA_INCREASE]; b[8..16].copy_from_slice(&(d.len() as u64).to_le_bytes()); b[16..16 + d.len()].copy_from_slice(d); b }).collect();
        let res;
        {
            let mut infos: Vec<AccountInfo> = vec![];
            let store_ptr = store.as_mut_ptr();
            for (i, b) in bufs.iter_mut().enumerate() {
                let (k, o, l, d) = unsafe { &mut *store_ptr.add(i) };
                let len = d.len();
                let data: &mut [u8] = unsafe { std::slice::from_raw_parts_mut(b.as_mut_ptr().add(16), len) };
                let signer = ix.accounts.iter().any(|m| m.pubkey == *k && m.is_signer);
                let writable = ix.accounts.iter().any(|m| m.pubkey == *k && m.is_writable);
                infos.push(AccountInfo { key: k, lamports: Rc::new(RefCell::new(l)), data: Rc::new(RefCell::new(data)), owner: o, rent_epoch: 0, is_signer: signer, is_writable: writable, executable: false });
            }
            let ordered: Vec<AccountInfo> = ix.accounts.iter().map(|m| infos.iter().find(|i| *i.key == m.pubkey).unwrap().clone()).collect();
            CTX.with(|c| { let mut c = c.borrow_mut(); c.clock = self.clock.clone(); c.program_stack = vec![ix.program_id]; c.account_stack = vec![ix.accounts.iter().map(|m| m.pubkey).collect()]; c.nested_stack = vec![Default::default()]; });
            res = dispatch(&ix.program_id, &ordered, &ix.data);
            if res.is_ok() {
                for inf in &infos {
                    let before = self.get(inf.key);
                    let a = Acct { lamports: inf.lamports(), data: inf.data.borrow().to_vec(), owner: *inf.owner, executable: before.executable };
                    if a != before {
                        self.accounts.insert(*inf.key, a);
                    }
                }
            }
        }
        res
    }
}

/// set the clock seen by `Clock::get()` on the calling thread (function-level checks)
pub fn set_thread_clock(clock: &Clock) {
    install();
    CTX.with(|c| c.borrow_mut().clock = clock.clone());
}

/// Build a one-account BPF-loader input buffer and hand the resulting Pinocchio `AccountInfo` to `f`.
pub fn with_pino_account<R>(key: &Pubkey, owner: &Pubkey, lamports: u64, data: &[u8], f: impl FnOnce(&pinocchio::account_info::AccountInfo) -> R) -> R {
    let mut buf: Vec<u8> = Vec::new();
    buf.extend_from_slice(&1u64.to_le_bytes());
    buf.push(0xff);
    buf.push(0);
    buf.push(1);
    buf.push(0);
    buf.extend_from_slice(&[0u8; 4]);
    buf.extend_from_slice(key.as_ref());
    buf.extend_from_slice(owner.as_ref());
    buf.extend_from_slice(&lamports.to_le_bytes());
    buf.extend_from_slice(&(data.len() as u64).to_le_bytes());
    buf.extend_from_slice(data);
    buf.extend(std::iter::repeat(0u8).take(MAX_PERMITTED_DATA_INCREASE));
    while buf.len() % 8 != 0 {
        buf.push(0);
    }
    buf.extend_from_slice(&0u64.to_le_bytes());
    buf.extend_from_slice(&0u64.to_le_bytes()); // instruction data length
    buf.extend_from_slice(whirlpool::ID.as_ref());
    let mut backing: Vec<u64> = vec![0u64; buf.len() / 8 + 2];
    let ptr = backing.as_mut_ptr() as *mut u8;
    unsafe { std::ptr::copy_nonoverlapping(buf.as_ptr(), ptr, buf.len()) };
    const UNINIT: core::mem::MaybeUninit<pinocchio::account_info::AccountInfo> = core::mem::MaybeUninit::<pinocchio::account_info::AccountInfo>::uninit();
    let mut accounts = [UNINIT; 4];
    let (_pid, count, _data) = unsafe { pinocchio::entrypoint::deserialize::<4>(ptr, &mut accounts) };
    assert_eq!(count, 1);
    let infos: &[pinocchio::account_info::AccountInfo] = unsafe { core::slice::from_raw_parts(accounts.as_ptr() as _, count) };
    f(&infos[0])
}
