//! Independent byte-level decoders of the program's accounts (offsets re-derived from the published
//! layouts; none of the program's (de)serializers is used here).
use solana_program::pubkey::Pubkey;

fn u16_at(d: &[u8], o: usize) -> u16 {
    u16::from_le_bytes(d[o..o + 2].try_into().unwrap())
}
fn u32_at(d: &[u8], o: usize) -> u32 {
    u32::from_le_bytes(d[o..o + 4].try_into().unwrap())
}
fn i32_at(d: &[u8], o: usize) -> i32 {
    i32::from_le_bytes(d[o..o + 4].try_into().unwrap())
}
fn u64_at(d: &[u8], o: usize) -> u64 {
    u64::from_le_bytes(d[o..o + 8].try_into().unwrap())
}
fn u128_at(d: &[u8], o: usize) -> u128 {
    u128::from_le_bytes(d[o..o + 16].try_into().unwrap())
}
fn i128_at(d: &[u8], o: usize) -> i128 {
    i128::from_le_bytes(d[o..o + 16].try_into().unwrap())
}
fn key_at(d: &[u8], o: usize) -> Pubkey {
    Pubkey::new_from_array(d[o..o + 32].try_into().unwrap())
}

#[derive(Clone, Debug, PartialEq, Eq, Default)]
pub struct RewardD {
    pub mint: Pubkey,
    pub vault: Pubkey,
    pub extension: [u8; 32],
    pub emissions_per_second_x64: u128,
    pub growth_global_x64: u128,
}
impl RewardD {
    pub fn initialized(&self) -> bool {
        self.mint != Pubkey::default()
    }
}

#[derive(Clone, Debug, PartialEq, Eq, Default)]
pub struct WhirlpoolD {
    pub config: Pubkey,
    pub bump: u8,
    pub tick_spacing: u16,
    pub fee_tier_index: u16,
    pub fee_rate: u16,
    pub protocol_fee_rate: u16,
    pub liquidity: u128,
    pub sqrt_price: u128,
    pub tick_current_index: i32,
    pub protocol_fee_owed_a: u64,
    pub protocol_fee_owed_b: u64,
    pub token_mint_a: Pubkey,
    pub token_vault_a: Pubkey,
    pub fee_growth_global_a: u128,
    pub token_mint_b: Pubkey,
    pub token_vault_b: Pubkey,
    pub fee_growth_global_b: u128,
    pub reward_last_updated_timestamp: u64,
    pub rewards: [RewardD; 3],
}

pub const WHIRLPOOL_LEN: usize = 653;
pub const POSITION_LEN: usize = 216;
pub const FIXED_TICK_ARRAY_LEN: usize = 9988;
pub const DYN_TICK_ARRAY_MIN_LEN: usize = 148;
pub const OFF_FEE_GROWTH_GLOBAL_A: usize = 165;
pub const OFF_FEE_GROWTH_GLOBAL_B: usize = 245;
pub const OFF_REWARD_INFOS: usize = 269;

pub fn whirlpool(d: &[u8]) -> Option<WhirlpoolD> {
    if d.len() != WHIRLPOOL_LEN {
        return None;
    }
    let mut rewards: [RewardD; 3] = Default::default();
    for (i, r) in rewards.iter_mut().enumerate() {
        let o = OFF_REWARD_INFOS + 128 * i;
        *r = RewardD {
            mint: key_at(d, o),
            vault: key_at(d, o + 32),
            extension: d[o + 64..o + 96].try_into().unwrap(),
            emissions_per_second_x64: u128_at(d, o + 96),
            growth_global_x64: u128_at(d, o + 112),
        };
    }
    Some(WhirlpoolD {
        config: key_at(d, 8),
        bump: d[40],
        tick_spacing: u16_at(d, 41),
        fee_tier_index: u16_at(d, 43),
        fee_rate: u16_at(d, 45),
        protocol_fee_rate: u16_at(d, 47),
        liquidity: u128_at(d, 49),
        sqrt_price: u128_at(d, 65),
        tick_current_index: i32_at(d, 81),
        protocol_fee_owed_a: u64_at(d, 85),
        protocol_fee_owed_b: u64_at(d, 93),
        token_mint_a: key_at(d, 101),
        token_vault_a: key_at(d, 133),
        fee_growth_global_a: u128_at(d, 165),
        token_mint_b: key_at(d, 181),
        token_vault_b: key_at(d, 213),
        fee_growth_global_b: u128_at(d, 245),
        reward_last_updated_timestamp: u64_at(d, 261),
        rewards,
    })
}

#[derive(Clone, Debug, PartialEq, Eq, Default)]
pub struct PositionD {
    pub whirlpool: Pubkey,
    pub position_mint: Pubkey,
    pub liquidity: u128,
    pub tick_lower_index: i32,
    pub tick_upper_index: i32,
    pub fee_growth_checkpoint_a: u128,
    pub fee_owed_a: u64,
    pub fee_growth_checkpoint_b: u128,
    pub fee_owed_b: u64,
    pub reward_checkpoint: [u128; 3],
    pub reward_owed: [u64; 3],
}

pub fn position(d: &[u8]) -> Option<PositionD> {
    if d.len() != POSITION_LEN {
        return None;
    }
    let mut p = PositionD {
        whirlpool: key_at(d, 8),
        position_mint: key_at(d, 40),
        liquidity: u128_at(d, 72),
        tick_lower_index: i32_at(d, 88),
        tick_upper_index: i32_at(d, 92),
        fee_growth_checkpoint_a: u128_at(d, 96),
        fee_owed_a: u64_at(d, 112),
        fee_growth_checkpoint_b: u128_at(d, 120),
        fee_owed_b: u64_at(d, 136),
        ..Default::default()
    };
    for i in 0..3 {
        p.reward_checkpoint[i] = u128_at(d, 144 + 24 * i);
        p.reward_owed[i] = u64_at(d, 160 + 24 * i);
    }
    Some(p)
}

#[derive(Clone, Debug, PartialEq, Eq, Default)]
pub struct TickD {
    pub initialized: bool,
    pub liquidity_net: i128,
    pub liquidity_gross: u128,
    pub fee_growth_outside_a: u128,
    pub fee_growth_outside_b: u128,
    pub reward_growths_outside: [u128; 3],
}

fn tick_data(d: &[u8], o: usize) -> TickD {
    TickD {
        initialized: true,
        liquidity_net: i128_at(d, o),
        liquidity_gross: u128_at(d, o + 16),
        fee_growth_outside_a: u128_at(d, o + 32),
        fee_growth_outside_b: u128_at(d, o + 48),
        reward_growths_outside: [u128_at(d, o + 64), u128_at(d, o + 80), u128_at(d, o + 96)],
    }
}

#[derive(Clone, Debug, PartialEq, Eq)]
pub struct TickArrayD {
    pub dynamic: bool,
    pub start_tick_index: i32,
    pub whirlpool: Pubkey,
    pub ticks: Vec<TickD>, // 88
    /// dynamic only
    pub bitmap: u128,
    /// dynamic only: bytes actually used by the encoding
    pub used_len: usize,
}

/// Decodes either encoding.  `Err` describes a malformed encoding.
pub fn tick_array(d: &[u8]) -> Result<TickArrayD, String> {
    if d.len() == FIXED_TICK_ARRAY_LEN {
        let mut ticks = Vec::with_capacity(88);
        for i in 0..88 {
            let o = 12 + 113 * i;
            let flag = d[o];
            if flag > 1 {
                return Err(format!("fixed array slot {i}: initialized byte {flag}"));
            }
            let mut t = tick_data(d, o + 1);
            t.initialized = flag == 1;
            ticks.push(t);
        }
        return Ok(TickArrayD { dynamic: false, start_tick_index: i32_at(d, 8), whirlpool: key_at(d, 9956), ticks, bitmap: 0, used_len: d.len() });
    }
    if d.len() < DYN_TICK_ARRAY_MIN_LEN {
        return Err(format!("tick array account of {} bytes", d.len()));
    }
    let bitmap = u128_at(d, 44);
    let mut o = 60;
    let mut ticks = Vec::with_capacity(88);
    for i in 0..88 {
        if o >= d.len() {
            return Err(format!("dynamic array truncated at slot {i}"));
        }
        match d[o] {
            0 => {
                ticks.push(TickD::default());
                o += 1;
            }
            1 => {
                if o + 113 > d.len() {
                    return Err(format!("dynamic array truncated inside slot {i}"));
                }
                ticks.push(tick_data(d, o + 1));
                o += 113;
            }
            x => return Err(format!("dynamic array slot {i}: tag {x}")),
        }
    }
    Ok(TickArrayD { dynamic: true, start_tick_index: i32_at(d, 8), whirlpool: key_at(d, 12), ticks, bitmap, used_len: o })
}

#[derive(Clone, Debug, PartialEq, Eq, Default)]
pub struct AfConstantsD {
    pub filter_period: u16,
    pub decay_period: u16,
    pub reduction_factor: u16,
    pub adaptive_fee_control_factor: u32,
    pub max_volatility_accumulator: u32,
    pub tick_group_size: u16,
    pub major_swap_threshold_ticks: u16,
}
#[derive(Clone, Debug, PartialEq, Eq, Default)]
pub struct AfVariablesD {
    pub last_reference_update_timestamp: u64,
    pub last_major_swap_timestamp: u64,
    pub volatility_reference: u32,
    pub tick_group_index_reference: i32,
    pub volatility_accumulator: u32,
}
#[derive(Clone, Debug, PartialEq, Eq, Default)]
pub struct OracleD {
    pub whirlpool: Pubkey,
    pub trade_enable_timestamp: u64,
    pub constants: AfConstantsD,
    pub variables: AfVariablesD,
}

pub fn af_constants(d: &[u8], o: usize) -> AfConstantsD {
    AfConstantsD {
        filter_period: u16_at(d, o),
        decay_period: u16_at(d, o + 2),
        reduction_factor: u16_at(d, o + 4),
        adaptive_fee_control_factor: u32_at(d, o + 6),
        max_volatility_accumulator: u32_at(d, o + 10),
        tick_group_size: u16_at(d, o + 14),
        major_swap_threshold_ticks: u16_at(d, o + 16),
    }
}

/// Oracle: 8 disc | 32 whirlpool | 8 trade_enable | constants (2+2+2+4+4+2+2+16 = 34) | variables (8+8+4+4+4+16 = 44) | 128 reserved
pub fn oracle(d: &[u8]) -> Option<OracleD> {
    if d.len() != 8 + 32 + 8 + 34 + 44 + 128 {
        return None;
    }
    let c = 48;
    let v = c + 34;
    Some(OracleD {
        whirlpool: key_at(d, 8),
        trade_enable_timestamp: u64_at(d, 40),
        constants: af_constants(d, c),
        variables: AfVariablesD {
            last_reference_update_timestamp: u64_at(d, v),
            last_major_swap_timestamp: u64_at(d, v + 8),
            volatility_reference: u32_at(d, v + 16),
            tick_group_index_reference: i32_at(d, v + 20),
            volatility_accumulator: u32_at(d, v + 24),
        },
    })
}

/// token account amount (SPL Token and Token-2022 share the base layout)
pub fn token_amount(d: &[u8]) -> Option<u64> {
    if d.len() < 165 {
        return None;
    }
    Some(u64_at(d, 64))
}
pub fn token_mint_of(d: &[u8]) -> Option<Pubkey> {
    (d.len() >= 165).then(|| key_at(d, 0))
}
pub fn token_owner_of(d: &[u8]) -> Option<Pubkey> {
    (d.len() >= 165).then(|| key_at(d, 32))
}
/// token account state byte: 0 uninitialized, 1 initialized, 2 frozen
pub fn token_state(d: &[u8]) -> Option<u8> {
    (d.len() >= 165).then(|| d[108])
}
/// mint: supply and whether a mint authority remains
pub fn mint_supply(d: &[u8]) -> Option<(u64, bool)> {
    if d.len() < 82 {
        return None;
    }
    Some((u64_at(d, 36), u32_at(d, 0) != 0))
}

/// Token-2022 token account: withheld transfer fees (TransferFeeAmount extension, TLV type 2), if present
pub fn withheld_amount(d: &[u8]) -> Option<u64> {
    if d.len() <= 166 || d[165] != 2 {
        return None;
    }
    let tlv = &d[166..];
    let mut c = 0usize;
    while c + 4 <= tlv.len() {
        let ty = u16::from_le_bytes([tlv[c], tlv[c + 1]]);
        let len = u16::from_le_bytes([tlv[c + 2], tlv[c + 3]]) as usize;
        if ty == 0 {
            return None;
        }
        if c + 4 + len > tlv.len() {
            return None;
        }
        if ty == 2 && len == 8 {
            return Some(u64_at(tlv, c + 4));
        }
        c += 4 + len;
    }
    None
}
