//! A "rich" world holding every kind of object the privileged / fund-moving instructions act on, and the
//! catalog of those instructions with a valid baseline call each (used by C04, C15 and parts of C18/C19).
use crate::world::*;
use crate::world2::AfConstants;
use serde::{Deserialize, Serialize};
use solana_program::{instruction::Instruction, pubkey::Pubkey};
use whirlpool::math::sqrt_price_from_tick_index;

#[derive(Clone, Debug, Serialize, Deserialize, Hash, PartialEq, Eq)]
pub struct RichSpec {
    pub tick_spacing: u16,
    pub start_tick: i32,
    pub fee_rate: u16,
    pub protocol_fee_rate: u16,
    pub dynamic_mask: u8,
    pub liquidity_bits: u8,
    pub swap_bits: u8,
    /// pool one uses Token-2022 (extension-free) mints for the non-shared token
    pub t22: bool,
}

#[derive(Clone)]
pub struct Rich {
    pub w: World,
    pub spec: RichSpec,
    pub cfg: usize,
    pub cfg2: usize,
    pub owner: usize,
    pub attacker: usize,
    pub trader: usize,
    pub payer: Pubkey,
    /// static pools: p0 = (X, Y); p1 shares a mint with p0
    pub p0: usize,
    pub p1: usize,
    /// adaptive-fee pool over p0's mints
    pub pa: usize,
    /// adaptive pool with another tick spacing, on a tier without delegated fee authority
    pub pa2: usize,
    pub af_index: u16,
    pub af_pool_authority: Pubkey,
    pub af_delegate: Pubkey,
    pub pos_plain: usize,
    pub pos_te: usize,
    pub pos_locked: usize,
    pub pos_plain_empty: usize,
    pub pos_te_empty: usize,
    pub pos_other_pool: usize,
    pub pos_other_pool_empty: usize,
    pub pos_other_pool_empty_te: usize,
    pub pos_adaptive: usize,
    pub pos_bundled: usize,
    pub bundle: usize,
    pub bundle_empty: usize,
    pub badge_mint: MintInfo,
    pub spare_mint: MintInfo,
    /// accounts of the "sibling universe": objects of the same kinds as the victim's whose every authority is the attacker
    /// (a config of the attacker's own with extension, badge, fee tier, adaptive tier, static and adaptive pool with a reward;
    /// and, inside the victim's config, a second adaptive fee tier of the same tick spacing whose delegated / pool authority
    /// is the attacker, with a pool in it)
    pub sibling: std::collections::BTreeSet<Pubkey>,
    pub cfg_att: usize,
    /// the attacker's own positions in pool p0 (plain SPL token / Token-2022 position token) and own bundle with one open
    /// bundled position: "a token of the right kind, but of another position"
    pub att_pos_plain: usize,
    pub att_pos_te: usize,
    pub att_bundle: usize,
    /// (pool, mint, token account): funded token accounts of the pool's mints (and reward mints) whose authority is the pool itself
    /// but which are not its vaults — anybody can create such an account
    pub stray: Vec<(usize, Pubkey, Pubkey)>,
    /// a pool with non-zero control flags (positions must be non-transferable)
    pub p_flagged: usize,
    /// a pool over two Token-2022 mints with different transfer-hook programs, and the owner's position in it
    pub p_hook: usize,
    pub pos_hook: usize,
}

fn dynamic(spec: &RichSpec, n: u8) -> bool {
    (spec.dynamic_mask >> (n % 8)) & 1 == 1
}

fn pm_price(ts2: u16, start_tick: i32) -> u128 {
    let t = start_tick / ts2 as i32 * ts2 as i32;
    sqrt_price_from_tick_index(t) + 1
}

impl Rich {
    /// `None` when the generated parameters do not admit the world (a setup instruction was refused)
    pub fn try_build(spec: &RichSpec) -> Option<Rich> {
        crate::rt::quiet_panics(true);
        let r = std::panic::catch_unwind(|| Rich::build(spec)).ok();
        crate::rt::quiet_panics(false);
        r
    }

    pub fn build(spec: &RichSpec) -> Rich {
        let mut w = World::new(1_700_000_000);
        // position / bundle mint keys are arbitrary key pairs: here they all start with a valid SPL Multisig header (m, n, 1), the
        // precondition for an attacker to craft a token-program-owned account of another type over them (C04 forged-proof mutants)
        let n = 6 + (spec.dynamic_mask % 6);
        w.mint_header = Some([1 + (spec.swap_bits % n), n, 1]);
        let ts = spec.tick_spacing;
        let tsi = ts as i32;
        let cfg = w.init_config(spec.protocol_fee_rate.min(2500));
        let cfg2 = w.init_config(100);
        w.init_config_extension(cfg);
        let ix = w.ix_init_fee_tier(cfg, ts, spec.fee_rate.min(60000));
        w.must("fee tier", &ix);
        let ix = w.ix_init_fee_tier(cfg2, ts, 3000);
        w.must("fee tier cfg2", &ix);
        let payer = w.new_signer();
        // mints
        let mx = w.create_spl_mint();
        let my = if spec.t22 { w.create_t22_mint(None) } else { w.create_spl_mint() };
        let mz = w.create_spl_mint();
        let spare_mint = w.create_spl_mint();
        let badge_mint = w.create_spl_mint();
        let start_tick = spec.start_tick.clamp(-20_000, 20_000) / tsi * tsi;
        let price = sqrt_price_from_tick_index(start_tick) + 1;
        let p0 = w.init_pool(cfg, &mx, &my, ts, price).expect("pool 0");
        let p1 = w.init_pool(cfg, &mx, &mz, ts, price).expect("pool 1");
        // adaptive tier + pool
        let af_index = 1024 + ts;
        let af_pool_authority = w.new_signer();
        let af_delegate = w.new_signer();
        let ix = w.ix_init_adaptive_fee_tier(cfg, af_index, ts, af_pool_authority, af_delegate, spec.fee_rate.min(60000), &AfConstants::sane(ts));
        w.must("adaptive tier", &ix);
        let pa = w.init_pool_adaptive(cfg, &mx, &my, af_index, ts, af_pool_authority, price, None).expect("adaptive pool");
        // a second adaptive pool with ANOTHER tick spacing on a permission-less tier that has no delegated fee authority: its initialised
        // Oracle is "another pool's oracle" for every oracle slot, and its constants are valid for its own spacing only
        let ts2: u16 = if ts <= 8192 { ts * 2 } else { ts / 2 };
        let af_index2 = 3000 + ts2;
        let ix = w.ix_init_adaptive_fee_tier(cfg, af_index2, ts2, Pubkey::default(), Pubkey::default(), 777, &AfConstants::sane(ts2));
        w.must("second adaptive tier", &ix);
        let anyone = w.new_signer();
        let pa2 = w.init_pool_adaptive(cfg, &mx, &mz, af_index2, ts2, anyone, pm_price(ts2, start_tick), None).expect("second adaptive pool");
        // users
        let owner = w.add_user();
        let attacker = w.add_user();
        let trader = w.add_user();
        let mut all_mints = vec![mx.clone(), my.clone(), mz.clone(), spare_mint.clone()];
        // rewards: two per static pool, one on the adaptive pool
        let (r0, r1) = (w.create_spl_mint(), w.create_spl_mint());
        all_mints.push(r0.clone());
        all_mints.push(r1.clone());
        for u in [owner, attacker, trader] {
            for m in &all_mints {
                w.user_token(u, m, 1 << 58);
            }
        }
        for p in [p0, p1, pa] {
            // pool p1 pays its second reward in one of its own tokens (X, the mint it shares with p0): its reward vault is then a
            // token account of a pool mint, owned by the pool, that is not the pool's vault
            let second = if p == p1 { &mx } else { &r1 };
            for (i, rm) in [&r0, second].iter().enumerate() {
                let idx = w.init_reward(p, rm, i == 1).expect("init reward");
                let vault = w.pools[p].rewards[idx].vault;
                w.mint_to(rm, &vault, 1 << 50);
                let mut ix = w.ix_set_reward_emissions(p, idx as u8, 1u128 << 70, i == 1);
                ix.accounts[1].is_signer = true;
                w.must("emissions", &ix);
            }
        }
        // tick arrays around the price (three each side)
        let n = 88 * tsi;
        let base = array_start(start_tick, ts);
        for (pi, p) in [p0, p1, pa].iter().enumerate() {
            for k in -2i32..=2 {
                let s = base + k * n;
                if s < array_start(crate::model::MIN_TICK, ts) || s > crate::model::MAX_TICK {
                    continue;
                }
                let ix = w.ix_init_tick_array(*p, s, dynamic(spec, (pi as i32 * 5 + k + 2) as u8));
                w.must("tick array", &ix);
            }
        }
        let liq: u128 = 1u128 << spec.liquidity_bits.clamp(20, 50);
        let (lo, hi) = (start_tick - 20 * tsi, start_tick + 20 * tsi);
        let open_liq = |w: &mut World, pool: usize, kind: PosKind, lo: i32, hi: i32, liq: u128| -> usize {
            let p = w.open_position(pool, owner, lo, hi, kind).expect("open");
            if liq > 0 {
                let ix = w.ix_increase(p, liq, u64::MAX, u64::MAX, true);
                w.must("increase", &ix);
            }
            p
        };
        let pos_plain = open_liq(&mut w, p0, PosKind::Plain, lo, hi, liq);
        let pos_te = open_liq(&mut w, p0, PosKind::TokenExt, lo - 3 * tsi, hi + 2 * tsi, liq);
        let pos_locked = open_liq(&mut w, p0, PosKind::TokenExtMeta, lo, hi + 5 * tsi, liq);
        let ix = w.ix_lock_position(pos_locked, whirlpool::state::LockType::Permanent);
        w.must("lock", &ix);
        {
            // the receiver's token account for the locked position's mint (needed by transfer_locked_position)
            let recv = w.users[trader].key;
            let mint = w.positions[pos_locked].mint;
            let create = spl_associated_token_account::instruction::create_associated_token_account(&recv, &recv, &mint, &TOKEN22);
            w.bank.process_native(&create).expect("receiver ATA");
        }
        let pos_plain_empty = open_liq(&mut w, p0, PosKind::Plain, lo, hi, 0);
        let pos_te_empty = open_liq(&mut w, p0, PosKind::TokenExt, lo, hi, 0);
        let pos_other_pool = open_liq(&mut w, p1, PosKind::Plain, lo, hi, liq);
        // the same owner's EMPTY positions in the other pool: nothing is withdrawn from them, so a check that lives next to the withdrawal never runs
        let pos_other_pool_empty = open_liq(&mut w, p1, PosKind::Plain, lo, hi, 0);
        let pos_other_pool_empty_te = open_liq(&mut w, p1, PosKind::TokenExt, lo, hi, 0);
        let pos_adaptive = open_liq(&mut w, pa, PosKind::Plain, lo, hi, liq);
        // bundles
        let bundle = w.init_bundle(owner).expect("bundle");
        let (ix, info) = w.prep_open_bundled(bundle, 3, p0, lo, hi);
        w.must("open bundled", &ix);
        w.positions.push(info);
        let pos_bundled = w.positions.len() - 1;
        let bundle_empty = w.init_bundle_kind(owner, true).expect("bundle 2 (with metadata)");
        // badge for badge_mint under cfg (the feature is switched on by the admin first)
        let ix = w.ix_set_config_feature_flag(cfg, whirlpool::state::ConfigFeatureFlag::TokenBadge(true));
        w.must("feature flag", &ix);
        let ix = w.ix_init_token_badge(cfg, &badge_mint.key);
        w.must("token badge", &ix);
        // a pool whose control flags are set: its Token-2022 mint carries a badge with RequireNonTransferablePosition
        let nt_mint = w.create_t22_mint(None);
        let ix = w.ix_init_token_badge(cfg, &nt_mint.key);
        w.must("token badge (non-transferable positions)", &ix);
        let ix = w.ix_set_token_badge_attribute(cfg, &nt_mint.key, whirlpool::state::TokenBadgeAttribute::RequireNonTransferablePosition(true));
        w.must("badge attribute", &ix);
        let p_flagged = w.init_pool(cfg, &nt_mint, &mx, ts, price).expect("flagged pool");
        for u in [owner, attacker, trader] {
            w.user_token(u, &nt_mint, 1 << 58);
        }
        // a pool over two Token-2022 mints with DIFFERENT transfer-hook programs (badge-gated), a position with liquidity, a reward
        // paid in the first of them
        let hx = w.create_t22_mint_hooked(None, Some(crate::rt::hook_program(1)));
        let hy = w.create_t22_mint_hooked(Some((100, 5000)), Some(crate::rt::hook_program(2)));
        for m in [&hx, &hy] {
            let ix = w.ix_init_token_badge(cfg, &m.key);
            w.must("token badge (hook mint)", &ix);
            for u in [owner, attacker, trader] {
                w.user_token(u, m, 1 << 58);
            }
        }
        let p_hook = w.init_pool(cfg, &hx, &hy, ts, price).expect("hook pool");
        for k in -1i32..=1 {
            let ix = w.ix_init_tick_array(p_hook, base + k * n, k == 0 && dynamic(spec, 7));
            w.must("tick array (hook pool)", &ix);
        }
        let pos_hook = open_liq(&mut w, p_hook, PosKind::TokenExt, lo, hi, liq);
        {
            let idx = w.init_reward(p_hook, &hx, true).expect("hook reward");
            let vault = w.pools[p_hook].rewards[idx].vault;
            w.mint_to(&hx, &vault, 1 << 50);
            let mut ix = w.ix_set_reward_emissions(p_hook, idx as u8, 1u128 << 70, true);
            ix.accounts[1].is_signer = true;
            w.must("emissions (hook pool)", &ix);
        }
        // trades so that fees / rewards / protocol fees are owed
        w.advance_clock(1000);
        {
            let amt: u64 = (1u64 << spec.swap_bits.clamp(8, 40)).min((liq >> 11) as u64).max(16);
            for a_to_b in [true, false] {
                let sp = SwapParams { amount: amt, threshold: 0, sqrt_price_limit: 0, exact_in: true, a_to_b };
                let ix = w.ix_swap_v2(p_hook, trader, &sp);
                let _ = w.exec(&ix);
            }
            let ix = w.ix_update_fees(pos_hook);
            w.must("update fees (hook pool)", &ix);
        }
        // small enough to keep the price inside the positions' range (the catalog's baseline calls need liquidity in range)
        let amt: u64 = (1u64 << spec.swap_bits.clamp(8, 40)).min((liq >> 11) as u64).max(16);
        for p in [p0, p1, pa] {
            for a_to_b in [true, false] {
                let sp = SwapParams { amount: amt, threshold: 0, sqrt_price_limit: 0, exact_in: true, a_to_b };
                let ix = w.ix_swap_v2(p, trader, &sp);
                let _ = w.exec(&ix);
            }
        }
        w.advance_clock(1000);
        for p in [pos_plain, pos_te, pos_locked, pos_other_pool, pos_adaptive] {
            let ix = w.ix_update_fees(p);
            w.must("update fees", &ix);
        }
        // ---- sibling universe (built last: nothing above depends on it)
        let before: std::collections::BTreeSet<Pubkey> = w.bank.accounts.keys().cloned().collect();
        let att = w.users[attacker].key;
        let cfg_att = w.init_config(100);
        let ix = w.ix_set_collect_protocol_fees_authority(cfg_att, att);
        w.must("sibling: collect authority", &ix);
        w.configs[cfg_att].collect_protocol_fees_authority = att;
        let ix = w.ix_set_reward_emissions_super_authority(cfg_att, att);
        w.must("sibling: super authority", &ix);
        w.configs[cfg_att].reward_emissions_super_authority = att;
        let ix = w.ix_set_fee_authority(cfg_att, att);
        w.must("sibling: fee authority", &ix);
        w.configs[cfg_att].fee_authority = att;
        w.init_config_extension(cfg_att);
        let ix = w.ix_init_fee_tier(cfg_att, ts, 3000);
        w.must("sibling: fee tier", &ix);
        let ix = w.ix_set_config_feature_flag(cfg_att, whirlpool::state::ConfigFeatureFlag::TokenBadge(true));
        w.must("sibling: feature flag", &ix);
        let ix = w.ix_init_token_badge(cfg_att, &badge_mint.key);
        w.must("sibling: token badge", &ix);
        let ix = w.ix_init_adaptive_fee_tier(cfg_att, af_index, ts, att, att, 3000, &AfConstants::sane(ts));
        w.must("sibling: adaptive tier", &ix);
        let p_att = w.init_pool(cfg_att, &mx, &my, ts, price).expect("sibling pool");
        let pa_att = w.init_pool_adaptive(cfg_att, &mx, &my, af_index, ts, att, price, None).expect("sibling adaptive pool");
        for p in [p_att, pa_att] {
            let _ = w.init_reward(p, &r0, false).expect("sibling reward");
        }
        // inside the victim's config: a second adaptive tier with the same tick spacing, handed to another party
        let ix = w.ix_init_adaptive_fee_tier(cfg, af_index + 1, ts, att, att, 3000, &AfConstants::sane(ts));
        w.must("sibling adaptive tier in the victim's config", &ix);
        let _ = w.init_pool_adaptive(cfg, &mx, &mz, af_index + 1, ts, att, price, None).expect("pool in the sibling tier");
        let att_pos_plain = w.open_position(p0, attacker, lo, hi, PosKind::Plain).expect("attacker position");
        let ix = w.ix_increase(att_pos_plain, liq, u64::MAX, u64::MAX, true);
        w.must("attacker increase", &ix);
        let att_pos_te = w.open_position(p0, attacker, lo, hi, PosKind::TokenExt).expect("attacker position (token extensions)");
        let ix = w.ix_increase(att_pos_te, liq, u64::MAX, u64::MAX, true);
        w.must("attacker increase (te)", &ix);
        let att_bundle = w.init_bundle(attacker).expect("attacker bundle");
        let (ix, info) = w.prep_open_bundled(att_bundle, 5, p0, lo, hi);
        w.must("attacker open bundled", &ix);
        w.positions.push(info);
        let sibling: std::collections::BTreeSet<Pubkey> = w.bank.accounts.keys().filter(|k| !before.contains(k)).cloned().collect();
        // stray token accounts: right mint, authority = the pool, funded, but not the pool's vault
        let mut stray = vec![];
        for p in [p0, p1, pa] {
            let pk = w.pools[p].key;
            let mut mints = vec![w.pools[p].mint_a.clone(), w.pools[p].mint_b.clone()];
            for rw in w.pools[p].rewards.clone() {
                if !mints.iter().any(|m| m.key == rw.mint.key) {
                    mints.push(rw.mint);
                }
            }
            for m in mints {
                let t = w.create_token_account(&m, &pk, 1 << 45);
                stray.push((p, m.key, t));
            }
        }
        Rich {
            p_hook,
            pos_hook,
            p_flagged,
            stray,
            sibling,
            cfg_att,
            att_pos_plain,
            att_pos_te,
            att_bundle,
            w,
            spec: spec.clone(),
            cfg,
            cfg2,
            owner,
            attacker,
            trader,
            payer,
            p0,
            p1,
            pa,
            pa2,
            af_index,
            af_pool_authority,
            af_delegate,
            pos_plain,
            pos_te,
            pos_locked,
            pos_plain_empty,
            pos_te_empty,
            pos_other_pool,
            pos_other_pool_empty,
            pos_other_pool_empty_te,
            pos_adaptive,
            pos_bundled,
            bundle,
            bundle_empty,
            badge_mint,
            spare_mint,
        }
    }
}

#[derive(Clone, Debug, PartialEq, Eq)]
pub enum Class {
    /// instruction gated by the holder of a position token (position index)
    Position(usize),
    /// gated by the holder of a bundle token (bundle index)
    Bundle(usize),
    /// gated by an authority recorded on-chain
    Setting,
}

#[derive(Clone, Debug, PartialEq, Eq, Hash)]
pub enum SlotKind {
    Whirlpool,
    VaultA,
    VaultB,
    OwnerTokenA,
    OwnerTokenB,
    MintA,
    MintB,
    TickArray,
    Position,
    PositionToken,
    Oracle,
    RewardVault,
    RewardOwnerToken,
    RewardMint,
    TokenProgram,
    MemoProgram,
    SystemProgram,
    Config,
}

#[derive(Clone)]
pub struct Entry {
    pub name: &'static str,
    pub class: Class,
    pub ix: Instruction,
    pub auth_idx: usize,
    /// pool whose objects the instruction names (for C15 substitutes)
    pub pool: Option<usize>,
    pub fund_moving: bool,
    /// (account index, kind, pool the account belongs to)
    pub slots: Vec<(usize, SlotKind, usize)>,
}

fn e(name: &'static str, class: Class, ix: Instruction, auth_idx: usize) -> Entry {
    Entry { name, class, ix, auth_idx, pool: None, fund_moving: false, slots: vec![] }
}

impl Entry {
    fn fm(mut self, pool: usize, slots: &[(usize, SlotKind)]) -> Entry {
        self.fund_moving = true;
        self.pool = Some(pool);
        self.slots = slots.iter().map(|(i, k)| (*i, k.clone(), pool)).collect();
        self
    }
}

pub fn catalog(r: &Rich) -> Vec<Entry> {
    use SlotKind::*;
    let w = &r.w;
    let ts = r.spec.tick_spacing as i32;
    let mut v: Vec<Entry> = vec![];
    let owner_key = w.users[r.owner].key;
    // ---------------- position class ----------------
    let ml_v1: &[(usize, SlotKind)] =
        &[(0, Whirlpool), (1, TokenProgram), (3, Position), (4, PositionToken), (5, OwnerTokenA), (6, OwnerTokenB), (7, VaultA), (8, VaultB), (9, TickArray), (10, TickArray)];
    let ml_v2: &[(usize, SlotKind)] = &[
        (0, Whirlpool),
        (1, TokenProgram),
        (2, TokenProgram),
        (3, MemoProgram),
        (5, Position),
        (6, PositionToken),
        (7, MintA),
        (8, MintB),
        (9, OwnerTokenA),
        (10, OwnerTokenB),
        (11, VaultA),
        (12, VaultB),
        (13, TickArray),
        (14, TickArray),
    ];
    let t22_pool = r.spec.t22;
    if !t22_pool {
        v.push(e("increase_liquidity", Class::Position(r.pos_plain), w.ix_increase(r.pos_plain, 1000, u64::MAX, u64::MAX, false), 2).fm(r.p0, ml_v1));
        v.push(e("decrease_liquidity", Class::Position(r.pos_plain), w.ix_decrease(r.pos_plain, 1000, 0, 0, false), 2).fm(r.p0, ml_v1));
    }
    v.push(e("increase_liquidity_v2", Class::Position(r.pos_te), w.ix_increase(r.pos_te, 1000, u64::MAX, u64::MAX, true), 4).fm(r.p0, ml_v2));
    v.push(e("decrease_liquidity_v2", Class::Position(r.pos_plain), w.ix_decrease(r.pos_plain, 1000, 0, 0, true), 4).fm(r.p0, ml_v2));
    v.push(e("increase_liquidity_v2(locked)", Class::Position(r.pos_locked), w.ix_increase(r.pos_locked, 1000, u64::MAX, u64::MAX, true), 4).fm(r.p0, ml_v2));
    v.push(
        e(
            "increase_liquidity_by_token_amounts_v2",
            Class::Position(r.pos_plain),
            w.ix_increase_by_amounts(r.pos_plain, 1 << 30, 1 << 30, crate::model::MIN_SQRT_PRICE, crate::model::MAX_SQRT_PRICE),
            4,
        )
        .fm(r.p0, ml_v2),
    );
    for (name, pe) in [("reposition_liquidity_v2(empty position)", r.pos_te_empty), ("reposition_liquidity_v2(empty plain position)", r.pos_plain_empty)] {
        // nothing is withdrawn from an empty position: the authority check must not hide behind the withdrawal
        let p = &w.positions[pe];
        v.push(e(name, Class::Position(pe), w.ix_reposition(pe, p.lower - ts, p.upper + ts, 5000, 0, 0, u64::MAX, u64::MAX), 4));
    }
    {
        let p = &w.positions[r.pos_te];
        v.push(
            e("reposition_liquidity_v2", Class::Position(r.pos_te), w.ix_reposition(r.pos_te, p.lower - ts, p.upper + ts, 5000, 0, 0, u64::MAX, u64::MAX), 4).fm(
                r.p0,
                &[
                    (0, Whirlpool),
                    (1, TokenProgram),
                    (2, TokenProgram),
                    (3, MemoProgram),
                    (6, Position),
                    (7, PositionToken),
                    (8, MintA),
                    (9, MintB),
                    (10, OwnerTokenA),
                    (11, OwnerTokenB),
                    (12, VaultA),
                    (13, VaultB),
                    (14, TickArray),
                    (15, TickArray),
                    (16, TickArray),
                    (17, TickArray),
                    (18, SystemProgram),
                ],
            ),
        );
    }
    if !t22_pool {
        v.push(
            e("collect_fees", Class::Position(r.pos_plain), w.ix_collect_fees(r.pos_plain, false), 1)
                .fm(r.p0, &[(0, Whirlpool), (2, Position), (3, PositionToken), (4, OwnerTokenA), (5, VaultA), (6, OwnerTokenB), (7, VaultB), (8, TokenProgram)]),
        );
    }
    v.push(e("collect_fees_v2", Class::Position(r.pos_te), w.ix_collect_fees(r.pos_te, true), 1).fm(
        r.p0,
        &[(0, Whirlpool), (2, Position), (3, PositionToken), (4, MintA), (5, MintB), (6, OwnerTokenA), (7, VaultA), (8, OwnerTokenB), (9, VaultB), (10, TokenProgram), (11, TokenProgram), (12, MemoProgram)],
    ));
    {
        let rm = w.pools[r.p0].rewards[0].mint.key;
        let dest = w.user_token_existing(r.owner, &rm);
        v.push(
            e("collect_reward", Class::Position(r.pos_plain), w.ix_collect_reward(r.pos_plain, 0, dest, false), 1)
                .fm(r.p0, &[(0, Whirlpool), (2, Position), (3, PositionToken), (4, RewardOwnerToken), (5, RewardVault), (6, TokenProgram)]),
        );
        let rm1 = w.pools[r.p0].rewards[1].mint.key;
        let dest1 = w.user_token_existing(r.owner, &rm1);
        v.push(
            e("collect_reward_v2", Class::Position(r.pos_locked), w.ix_collect_reward(r.pos_locked, 1, dest1, true), 1)
                .fm(r.p0, &[(0, Whirlpool), (2, Position), (3, PositionToken), (4, RewardOwnerToken), (5, RewardMint), (6, RewardVault), (7, TokenProgram), (8, MemoProgram)]),
        );
    }
    v.push(e("close_position", Class::Position(r.pos_plain_empty), w.ix_close_position(r.pos_plain_empty), 0));
    v.push(e("close_position_with_token_extensions", Class::Position(r.pos_te_empty), w.ix_close_position(r.pos_te_empty), 0));
    {
        let p = &w.positions[r.pos_plain_empty];
        v.push(e("reset_position_range", Class::Position(r.pos_plain_empty), w.ix_reset_range(r.pos_plain_empty, p.lower - ts, p.upper + ts), 1));
    }
    v.push(e("lock_position", Class::Position(r.pos_te), w.ix_lock_position(r.pos_te, whirlpool::state::LockType::Permanent), 1));
    {
        // transfer the locked position to the attacker-independent third party (trader)
        let p = &w.positions[r.pos_locked];
        let recv = w.users[r.trader].key;
        let dest = ata_of(&recv, &p.mint, &TOKEN22);
        v.push(e("transfer_locked_position", Class::Position(r.pos_locked), w.ix_transfer_locked(r.pos_locked, recv, dest), 0));
    }
    // ---------------- bundle class ----------------
    {
        let lo = w.positions[r.pos_plain].lower;
        let hi = w.positions[r.pos_plain].upper;
        v.push(e("open_bundled_position", Class::Bundle(r.bundle), w.prep_open_bundled(r.bundle, 7, r.p0, lo, hi).0, 3));
        v.push(e("close_bundled_position", Class::Bundle(r.bundle), w.ix_close_position(r.pos_bundled), 3));
        v.push(e("delete_position_bundle", Class::Bundle(r.bundle_empty), w.ix_delete_bundle(r.bundle_empty), 3));
        // a bundled position is a position: liquidity ops are gated by the bundle token
        v.push(e("increase_liquidity_v2(bundled)", Class::Bundle(r.bundle), w.ix_increase(r.pos_bundled, 1000, u64::MAX, u64::MAX, true), 4));
    }
    // ---------------- settings class ----------------
    let newk = w.users[r.trader].key;
    let treasury_a = w.user_token_existing(r.trader, &w.pools[r.p0].mint_a.key);
    let treasury_b = w.user_token_existing(r.trader, &w.pools[r.p0].mint_b.key);
    if !t22_pool {
        v.push(
            e("collect_protocol_fees", Class::Setting, w.ix_collect_protocol_fees(r.p0, treasury_a, treasury_b, false), 2)
                .fm(r.p0, &[(0, Config), (1, Whirlpool), (3, VaultA), (4, VaultB), (5, OwnerTokenA), (6, OwnerTokenB), (7, TokenProgram)]),
        );
    }
    v.push(e("collect_protocol_fees_v2", Class::Setting, w.ix_collect_protocol_fees(r.p0, treasury_a, treasury_b, true), 2).fm(
        r.p0,
        &[(0, Config), (1, Whirlpool), (3, MintA), (4, MintB), (5, VaultA), (6, VaultB), (7, OwnerTokenA), (8, OwnerTokenB), (9, TokenProgram), (10, TokenProgram), (11, MemoProgram)],
    ));
    v.push(e("set_fee_rate", Class::Setting, w.ix_set_fee_rate(r.p0, 1234), 2));
    v.push(e("set_protocol_fee_rate", Class::Setting, w.ix_set_protocol_fee_rate(r.p0, 123), 2));
    v.push(e("set_default_fee_rate", Class::Setting, w.ix_set_default_fee_rate(r.cfg, r.spec.tick_spacing, 777), 2));
    v.push(e("set_default_protocol_fee_rate", Class::Setting, w.ix_set_default_protocol_fee_rate(r.cfg, 77), 1));
    v.push(e("set_fee_authority", Class::Setting, w.ix_set_fee_authority(r.cfg, newk), 1));
    v.push(e("set_collect_protocol_fees_authority", Class::Setting, w.ix_set_collect_protocol_fees_authority(r.cfg, newk), 1));
    v.push(e("set_reward_emissions_super_authority", Class::Setting, w.ix_set_reward_emissions_super_authority(r.cfg, newk), 1));
    v.push(e("set_reward_authority", Class::Setting, w.ix_set_reward_authority(r.p0, 0, newk), 1));
    v.push(e("set_reward_authority_by_super_authority", Class::Setting, w.ix_set_reward_authority_by_super(r.p0, 0, newk), 2));
    v.push(e("set_reward_emissions", Class::Setting, w.ix_set_reward_emissions(r.p0, 0, 1u128 << 60, false), 1).fm(r.p0, &[(0, Whirlpool), (2, RewardVault)]));
    v.push(e("set_reward_emissions_v2", Class::Setting, w.ix_set_reward_emissions(r.p0, 1, 1u128 << 60, true), 1).fm(r.p0, &[(0, Whirlpool), (2, RewardVault)]));
    {
        // a third reward on p1 (two exist)
        let vault = Pubkey::new_unique();
        let mut ix = w.ix_init_reward(r.p1, 2, &r.spare_mint, vault, false);
        ix.accounts[4].is_signer = true;
        v.push(e("initialize_reward", Class::Setting, ix, 0));
        let mut ix = w.ix_init_reward(r.p1, 2, &r.spare_mint, vault, true);
        ix.accounts[5].is_signer = true;
        v.push(e("initialize_reward_v2", Class::Setting, ix, 0));
    }
    v.push(e("initialize_fee_tier", Class::Setting, w.ix_init_fee_tier(r.cfg, r.spec.tick_spacing.wrapping_add(3).max(1), 500), 3));
    v.push(e(
        "initialize_adaptive_fee_tier",
        Class::Setting,
        w.ix_init_adaptive_fee_tier(r.cfg, 2000 + r.spec.tick_spacing, r.spec.tick_spacing, Pubkey::default(), Pubkey::default(), 500, &AfConstants::sane(r.spec.tick_spacing)),
        3,
    ));
    {
        let config = Pubkey::new_unique();
        let mut ix = ixb(
            whirlpool::accounts::InitializeConfig { config, funder: w.admin, system_program: SYS },
            whirlpool::instruction::InitializeConfig { fee_authority: newk, collect_protocol_fees_authority: newk, reward_emissions_super_authority: newk, default_protocol_fee_rate: 100 },
        );
        ix.accounts[0].is_signer = true;
        v.push(e("initialize_config", Class::Setting, ix, 1));
    }
    v.push(e("set_config_feature_flag", Class::Setting, w.ix_set_config_feature_flag(r.cfg, whirlpool::state::ConfigFeatureFlag::TokenBadge(true)), 1));
    {
        let c2 = &w.configs[r.cfg2];
        v.push(e(
            "initialize_config_extension",
            Class::Setting,
            ixb(
                whirlpool::accounts::InitializeConfigExtension { config: c2.key, config_extension: config_extension_pda(&c2.key), funder: w.admin, fee_authority: c2.fee_authority, system_program: SYS },
                whirlpool::instruction::InitializeConfigExtension {},
            ),
            3,
        ));
    }
    v.push(e("set_config_extension_authority", Class::Setting, w.ix_set_config_extension_authority(r.cfg, newk), 2));
    v.push(e("set_token_badge_authority", Class::Setting, w.ix_set_token_badge_authority(r.cfg, newk), 2));
    v.push(e("initialize_token_badge", Class::Setting, w.ix_init_token_badge(r.cfg, &r.spare_mint.key), 2));
    v.push(e("delete_token_badge", Class::Setting, w.ix_delete_token_badge(r.cfg, &r.badge_mint.key), 2));
    v.push(e("set_token_badge_attribute", Class::Setting, w.ix_set_token_badge_attribute(r.cfg, &r.badge_mint.key, whirlpool::state::TokenBadgeAttribute::RequireNonTransferablePosition(true)), 2));
    v.push(e("set_default_base_fee_rate", Class::Setting, w.ix_set_default_base_fee_rate(r.cfg, r.af_index, 999), 2));
    v.push(e("set_delegated_fee_authority", Class::Setting, w.ix_set_delegated_fee_authority(r.cfg, r.af_index, newk), 2));
    v.push(e("set_initialize_pool_authority", Class::Setting, w.ix_set_initialize_pool_authority(r.cfg, r.af_index, newk), 2));
    {
        let mut k = AfConstants::sane(r.spec.tick_spacing);
        k.filter_period += 1;
        v.push(e("set_preset_adaptive_fee_constants", Class::Setting, w.ix_set_preset_adaptive_fee_constants(r.cfg, r.af_index, &k), 2));
    }
    // accounts: whirlpool, adaptive_fee_tier, delegated_fee_authority / whirlpool, whirlpools_config, oracle, fee_authority
    v.push(e("set_fee_rate_by_delegated_fee_authority", Class::Setting, w.ix_set_fee_rate_by_delegate(r.pa, r.af_delegate, 4321), 2).fm(r.pa, &[(0, Whirlpool)]));
    v.push(e("set_adaptive_fee_constants", Class::Setting, w.ix_set_adaptive_fee_constants(r.pa, Some(31), None, None, None, None, None, None), 3).fm(r.pa, &[(0, Whirlpool), (2, Oracle)]));
    // the same on the pool with the other tick spacing (group size 1 is valid for every pool)
    v.push(
        e("set_adaptive_fee_constants(other spacing)", Class::Setting, w.ix_set_adaptive_fee_constants(r.pa2, None, None, None, None, None, Some(1), None), 3)
            .fm(r.pa2, &[(0, Whirlpool), (2, Oracle)]),
    );
    {
        // permissioned adaptive pool creation over (mint X, spare mint)
        let m1 = w.pools[r.p0].mint_a.clone();
        let (ma, mb) = if m1.key < r.spare_mint.key { (m1, r.spare_mint.clone()) } else { (r.spare_mint.clone(), m1) };
        let (va, vb) = (Pubkey::new_unique(), Pubkey::new_unique());
        let mut ix = w.ix_init_pool_adaptive(r.cfg, &ma, &mb, va, vb, r.af_index, r.af_pool_authority, 1u128 << 64, None);
        v.push(e("initialize_pool_with_adaptive_fee", Class::Setting, {
            for m in ix.accounts.iter_mut() {
                if m.pubkey == va || m.pubkey == vb {
                    m.is_signer = true;
                }
            }
            ix
        }, 6));
    }
    // ---------------- fund-moving instructions without a privileged authority (C15 only) ----------------
    let sp = SwapParams { amount: 5000, threshold: 0, sqrt_price_limit: 0, exact_in: true, a_to_b: true };
    if !t22_pool {
        v.push(
            Entry { name: "swap", class: Class::Setting, ix: w.ix_swap(r.p0, r.trader, &sp), auth_idx: usize::MAX, pool: None, fund_moving: false, slots: vec![] }
                .fm(r.p0, &[(0, TokenProgram), (2, Whirlpool), (3, OwnerTokenA), (4, VaultA), (5, OwnerTokenB), (6, VaultB), (7, TickArray), (8, TickArray), (9, TickArray), (10, Oracle)]),
        );
    }
    v.push(
        Entry { name: "swap_v2", class: Class::Setting, ix: w.ix_swap_v2(r.p0, r.trader, &sp), auth_idx: usize::MAX, pool: None, fund_moving: false, slots: vec![] }.fm(
            r.p0,
            &[(0, TokenProgram), (1, TokenProgram), (2, MemoProgram), (4, Whirlpool), (5, MintA), (6, MintB), (7, OwnerTokenA), (8, VaultA), (9, OwnerTokenB), (10, VaultB), (11, TickArray), (12, TickArray), (13, TickArray), (14, Oracle)],
        ),
    );
    v.push(
        Entry { name: "swap_v2(adaptive)", class: Class::Setting, ix: w.ix_swap_v2(r.pa, r.trader, &sp), auth_idx: usize::MAX, pool: None, fund_moving: false, slots: vec![] }
            .fm(r.pa, &[(4, Whirlpool), (8, VaultA), (10, VaultB), (11, TickArray), (14, Oracle)]),
    );
    {
        // two-hop p0 -> p1 through the shared mint
        let shared = w.pools[r.p0].mint_a.key; // both static pools hold mint X
        let shared = if w.pools[r.p1].mint_a.key == shared || w.pools[r.p1].mint_b.key == shared { shared } else { w.pools[r.p0].mint_b.key };
        let a_to_b_one = w.pools[r.p0].mint_b.key == shared;
        let a_to_b_two = w.pools[r.p1].mint_a.key == shared;
        let tp = TwoHopParams { amount: ((1u128 << r.spec.liquidity_bits.clamp(20, 50)) >> 12).max(2000) as u64, threshold: 0, exact_in: true, a_to_b_one, a_to_b_two, limit_one: 0, limit_two: 0 };
        if !t22_pool {
            let ix = w.ix_two_hop(r.p0, r.p1, r.trader, &tp, false);
            let mut ent = Entry { name: "two_hop_swap", class: Class::Setting, ix, auth_idx: usize::MAX, pool: Some(r.p0), fund_moving: true, slots: vec![] };
            ent.slots = vec![
                (0, TokenProgram, r.p0),
                (2, Whirlpool, r.p0),
                (3, Whirlpool, r.p1),
                (4, OwnerTokenA, r.p0),
                (5, VaultA, r.p0),
                (6, OwnerTokenB, r.p0),
                (7, VaultB, r.p0),
                (8, OwnerTokenA, r.p1),
                (9, VaultA, r.p1),
                (10, OwnerTokenB, r.p1),
                (11, VaultB, r.p1),
                (12, TickArray, r.p0),
                (13, TickArray, r.p0),
                (14, TickArray, r.p0),
                (15, TickArray, r.p1),
                (16, TickArray, r.p1),
                (17, TickArray, r.p1),
                (18, Oracle, r.p0),
                (19, Oracle, r.p1),
            ];
            v.push(ent);
        }
        let ix = w.ix_two_hop(r.p0, r.p1, r.trader, &tp, true);
        let mut ent = Entry { name: "two_hop_swap_v2", class: Class::Setting, ix, auth_idx: usize::MAX, pool: Some(r.p0), fund_moving: true, slots: vec![] };
        // vault slots of the v2 layout are direction dependent: tag them by the vault actually named
        let mut slots = vec![(0, Whirlpool, r.p0), (1, Whirlpool, r.p1), (5, TokenProgram, r.p0), (6, TokenProgram, r.p0), (7, TokenProgram, r.p1), (23, MemoProgram, r.p0)];
        for (i, pool) in [(9usize, r.p0), (10, r.p0), (11, r.p1), (12, r.p1)] {
            let k = ent.ix.accounts[i].pubkey;
            let kind = if k == w.pools[pool].vault_a { VaultA } else { VaultB };
            slots.push((i, kind, pool));
        }
        for i in 15..18 {
            slots.push((i, TickArray, r.p0));
        }
        for i in 18..21 {
            slots.push((i, TickArray, r.p1));
        }
        slots.push((21, Oracle, r.p0));
        slots.push((22, Oracle, r.p1));
        ent.slots = slots;
        v.push(ent);
    }
    let _ = owner_key;
    v
}

/// the same instruction as built for `owner`, but issued by `actor`: the actor's key replaces the owner's and the
/// actor's own token accounts (same mints) replace the owner's.  Position / bundle token accounts are not touched.
pub fn substitute_actor(w: &World, ix: &Instruction, owner: usize, actor: usize) -> Instruction {
    let mut out = ix.clone();
    let (ok, ak) = (w.users[owner].key, w.users[actor].key);
    for m in out.accounts.iter_mut() {
        if m.pubkey == ok {
            m.pubkey = ak;
        } else if let Some((mint, _)) = w.users[owner].tokens.iter().find(|(_, t)| *t == m.pubkey) {
            if let Some((_, t2)) = w.users[actor].tokens.iter().find(|(mm, _)| mm == mint) {
                m.pubkey = *t2;
            }
        }
    }
    out
}
