//! Check driver: replay tier, sub-checks, known findings, evidence, exit codes.
use crate::runner::*;
use serde_json::{json, Value};
use std::path::{Path, PathBuf};
use std::time::{Duration, Instant};

extern "C" {
    fn dup(fd: i32) -> i32;
    fn dup2(oldfd: i32, newfd: i32) -> i32;
}
static OUT: std::sync::OnceLock<std::sync::Mutex<std::fs::File>> = std::sync::OnceLock::new();

/// Some dependency code prints to stdout off-chain (e.g. `Pubkey::log`).  The driver keeps the real stdout for its
/// own report lines and points fd 1 at /dev/null for everything else.
pub fn capture_stdout() {
    use std::os::fd::{AsRawFd, FromRawFd};
    OUT.get_or_init(|| unsafe {
        let real = dup(1);
        let null = std::fs::OpenOptions::new().write(true).open("/dev/null").expect("/dev/null");
        dup2(null.as_raw_fd(), 1);
        std::sync::Mutex::new(std::fs::File::from_raw_fd(real))
    });
}
pub fn out(line: &str) {
    use std::io::Write;
    match OUT.get() {
        Some(f) => {
            let mut f = f.lock().unwrap();
            let _ = writeln!(f, "{line}");
            let _ = f.flush();
        }
        None => println!("{line}"),
    }
}
macro_rules! outln {
    ($($a:tt)*) => { crate::driver::out(&format!($($a)*)) };
}

pub fn verif_root() -> PathBuf {
    std::env::var("VERIF_ROOT").map(PathBuf::from).unwrap_or_else(|_| PathBuf::from("/verif"))
}

#[derive(Clone, Debug)]
pub struct KnownFinding {
    pub property: String,
    pub signature: String,
    pub what: String,
    pub status: String, // "known" | "fixed"
}

pub fn load_known() -> Vec<KnownFinding> {
    let p = verif_root().join("known_findings.json");
    let Ok(s) = std::fs::read_to_string(&p) else { return vec![] };
    let Ok(v) = serde_json::from_str::<Value>(&s) else { return vec![] };
    let mut out = vec![];
    for e in v["findings"].as_array().cloned().unwrap_or_default() {
        out.push(KnownFinding {
            property: e["property"].as_str().unwrap_or("").to_string(),
            signature: e["signature"].as_str().unwrap_or("").to_string(),
            what: e["what"].as_str().unwrap_or("").to_string(),
            status: e["status"].as_str().unwrap_or("known").to_string(),
        });
    }
    out
}

thread_local! {
    static KNOWN: std::cell::RefCell<Option<Vec<String>>> = const { std::cell::RefCell::new(None) };
}

/// true when `signature` is a listed (unrepaired) known finding of `property`
pub fn is_known(property: &str, signature: &str) -> bool {
    KNOWN.with(|k| {
        let mut k = k.borrow_mut();
        if k.is_none() {
            *k = Some(
                load_known().into_iter().filter(|f| f.status == "known").map(|f| format!("{}|{}", f.property, f.signature)).collect(),
            );
        }
        k.as_ref().unwrap().iter().any(|s| *s == format!("{property}|{signature}"))
    })
}

fn write_replay(id: &str, f: &Failure) -> PathBuf {
    let dir = verif_root().join("replays");
    let _ = std::fs::create_dir_all(&dir);
    let body = json!({"property": id, "sub": f.sub, "message": f.message, "case": f.case});
    let text = serde_json::to_string_pretty(&body).unwrap();
    let h = fnv(serde_json::to_string(&f.case).unwrap().as_bytes());
    let p = dir.join(format!("{id}-{}-{h:016x}.json", f.sub));
    let _ = std::fs::write(&p, text);
    p
}

fn replay_file(def: &CheckDef, path: &Path) -> Result<(), String> {
    let s = std::fs::read_to_string(path).map_err(|e| format!("cannot read {}: {e}", path.display()))?;
    let v: Value = serde_json::from_str(&s).map_err(|e| format!("bad json {}: {e}", path.display()))?;
    let subn = v["sub"].as_str().unwrap_or("");
    let sub = def.subs.iter().find(|s| s.name == subn).ok_or_else(|| format!("unknown sub-check {subn}"))?;
    (sub.replay)(&v["case"])
}

pub fn run_check(ctx: &Ctx, replay: Option<&str>, only: Option<&str>) -> i32 {
    capture_stdout();
    crate::rt::install();
    let Some(def) = crate::checks::all().into_iter().find(|d| d.id == ctx.id) else {
        eprintln!("unknown property id {}", ctx.id);
        return 2;
    };
    if let Some(path) = replay {
        return match replay_file(&def, Path::new(path)) {
            Ok(()) => {
                outln!("replay {path}: property {} holds on this case", def.id);
                0
            }
            Err(m) => {
                outln!("replay {path}: {m}");
                outln!("VIOLATION property={} replay={}", def.id, path);
                1
            }
        };
    }
    // watchdog: a hang is "inconclusive" (exit 2), never a violation
    let limit = std::env::var("VERIF_WATCHDOG_S").ok().and_then(|s| s.parse().ok()).unwrap_or(match ctx.tier {
        Tier::Quick => 900u64,
        Tier::Thorough => 6 * 3600,
    });
    {
        let id = def.id.to_string();
        std::thread::spawn(move || {
            std::thread::sleep(Duration::from_secs(limit));
            outln!("INCONCLUSIVE property={id}: watchdog after {limit}s");
            std::process::exit(2);
        });
    }
    let t0 = Instant::now();
    let mut violation: Option<PathBuf> = None;
    // 1. regression tier: saved replays of this property.  Files under replays/ are confirmed
    //    counter-examples of past (seeded or repaired) defects; they must pass on a correct tree.
    let mut replayed = 0u64;
    let dir = verif_root().join("regress").join(def.id);
    if let Ok(rd) = std::fs::read_dir(&dir) {
        let mut files: Vec<PathBuf> = rd.filter_map(|e| e.ok().map(|e| e.path())).filter(|p| p.extension().map_or(false, |e| e == "json")).collect();
        files.sort();
        for f in files {
            replayed += 1;
            if let Err(m) = replay_file(&def, &f) {
                outln!("regression case {} fails: {m}", f.display());
                violation.get_or_insert(f);
            }
        }
    }
    // 2. generated search
    let mut results = vec![];
    if violation.is_none() {
        for s in &def.subs {
            if let Some(o) = only {
                if o != s.name {
                    continue;
                }
            }
            let r = (s.run)(ctx);
            eprintln!(
                "[{}] {}: {} evaluations, {} distinct non-trivial, {:.1}s{}",
                def.id,
                r.name,
                r.evaluations,
                r.nontrivial.len(),
                r.wall_s,
                if r.failure.is_some() { "  ** FAILED **" } else { "" }
            );
            let failed = r.failure.clone();
            results.push(r);
            if let Some(f) = failed {
                outln!("violation in {}/{}: {}", def.id, f.sub, f.message);
                violation = Some(write_replay(def.id, &f));
                break;
            }
        }
    }
    // 3. known findings of this property
    let mut known_lines = vec![];
    for k in load_known() {
        if k.property == def.id && k.status == "known" {
            let hits: u64 = results.iter().map(|r| r.known.get(&k.signature).copied().unwrap_or(0)).sum();
            let line = format!("KNOWN-FINDING: property={} {} [{}] (seen {} times in this run)", def.id, k.what, k.signature, hits);
            outln!("{line}");
            known_lines.push(line);
        }
    }
    let wall = t0.elapsed().as_secs_f64();
    let mut ev = evidence_json(ctx, &def, &results, &known_lines, wall);
    ev["coverage"]["regression_cases_replayed"] = json!(replayed);
    if results.is_empty() {
        // keep the file schema-valid even when a regression case failed before the search started
        ev["coverage"]["evaluations"] = json!(replayed.max(1));
    }
    let edir = verif_root().join("evidence");
    let _ = std::fs::create_dir_all(&edir);
    if only.is_none() {
        let _ = std::fs::write(edir.join(format!("{}.json", def.id)), serde_json::to_string_pretty(&ev).unwrap());
    }
    match violation {
        Some(p) => {
            outln!("VIOLATION property={} replay={}", def.id, p.display());
            1
        }
        None => {
            outln!(
                "OK property={} tier={:?} seed={} evaluations={} distinct_nontrivial={} wall={:.1}s",
                def.id, ctx.tier, ctx.seed, ev["coverage"]["evaluations"], ev["coverage"]["distinct_nontrivial"], wall
            );
            0
        }
    }
}
