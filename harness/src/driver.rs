//! Check driver: replay tier, sub-checks, known findings, evidence, exit codes.
use crate::runner::*;
use serde_json::{json, Value};
use std::path::{Path, PathBuf};
use std::time::{Duration, Instant};

extern "C" {
    fn dup(fd: i32) -> i32;
    fn dup2(oldfd: i32, newfd: i32) -> i32;
}
static OUT: std::sync::OnceLock<std::sync::Mutex<std::fs::File>> = std::sync::OnceLock::new();

/// Some dependency code prints to stdout off-chain (e.g. `Pubkey::log`).  The driver keeps the real stdout for its
/// own report lines and points fd 1 at /dev/null for everything else.
pub fn capture_stdout() {
    use std::os::fd::{AsRawFd, FromRawFd};
    OUT.get_or_init(|| unsafe {
        let real = dup(1);
        let null = std::fs::OpenOptions::new().write(true).open("/dev/null").expect("/dev/null");
        dup2(null.as_raw_fd(), 1);
        std::sync::Mutex::new(std::fs::File::from_raw_fd(real))
    });
}
pub fn out(line: &str) {
    use std::io::Write;
    match OUT.get() {
        Some(f) => {
            let mut f = f.lock().unwrap();
            let _ = writeln!(f, "{line}");
            let _ = f.flush();
        }
        None => println!("{line}"),
    }
}
macro_rules! outln {
    ($($a:tt)*) => { crate::driver::out(&format!($($a)*)) };
}

pub fn verif_root() -> PathBuf {
    std::env::var("VERIF_ROOT").map(PathBuf::from).unwrap_or_else(|_| PathBuf::from("/verif"))
}

#[derive(Clone, Debug)]
pub struct KnownFinding {
    pub property: String,
    pub signature: String,
    pub what: String,
    pub status: String, // "known" | "fixed"
}

pub fn load_known() -> Vec<KnownFinding> {
    let p = verif_root().join("known_findings.json");
    let Ok(s) = std::fs::read_to_string(&p) else { return vec![] };
    let Ok(v) = serde_json::from_str::<Value>(&s) else { return vec![] };
    let mut out = vec![];
    for e in v["findings"].as_array().cloned().unwrap_or_default() {
        out.push(KnownFinding {
            property: e["property"].as_str().unwrap_or("").to_string(),
            signature: e["signature"].as_str().unwrap_or("").to_string(),
            what: e["what"].as_str().unwrap_or("").to_string(),
            status: e["status"].as_str().unwrap_or("known").to_string(),
        });
    }
    out
}

thread_local! {
    static KNOWN: std::cell::RefCell<Option<Vec<String>>> = const { std::cell::RefCell::new(None) };
}

/// true when `signature` is a listed (unrepaired) known finding of `property`
pub fn is_known(property: &str, signature: &str) -> bool {
    KNOWN.with(|k| {
        let mut k = k.borrow_mut();
        if k.is_none() {
            *k = Some(
                load_known().into_iter().filter(|f| f.status == "known").map(|f| format!("{}|{}", f.property, f.signature)).collect(),
            );
        }
        k.as_ref().unwrap().iter().any(|s| *s == format!("{property}|{signature}"))
    })
}

/// coverage-guided targets (thorough tier): property -> (cargo-fuzz target, sub-check whose oracle it runs, executions)
pub fn fuzz_targets(id: &str) -> Vec<(&'static str, &'static str, u64)> {
    match id {
        "C02" => vec![("swapstep", "step", 30_000_000)],
        "C12" => vec![("pinodiff", "modify_liquidity", 6_000_000)],
        "C13" => vec![("dyntick", "random_sequences", 600_000)],
        "C16" => vec![("tlvfee", "fee_functions", 10_000_000)],
        "C19" => vec![("mintadmit", "mints", 400_000)],
        "C20" => vec![("sdkmath", "math_functions", 24_000_000)],
        _ => vec![],
    }
}

pub enum FuzzOutcome {
    Clean { executions: u64, corpus: u64, features: u64, wall_s: f64 },
    Violation(PathBuf),
    Unavailable(String),
    /// a fuzzing job hit libFuzzer's own per-unit time or memory limit: the campaign is cut short, the oracle reported nothing
    Incomplete { why: String, executions: u64 },
}

/// One libFuzzer campaign with a fixed number of executions, split over `ctx.threads` jobs.
pub fn run_fuzz(ctx: &Ctx, target: &str, runs: u64) -> FuzzOutcome {
    let t0 = Instant::now();
    let root = verif_root();
    let fdir = root.join("harness").join("fuzz");
    let corpus = fdir.join("corpus").join(target);
    let seeds = fdir.join("seeds").join(target);
    let _ = std::fs::remove_dir_all(&corpus);
    let _ = std::fs::create_dir_all(&corpus);
    let _ = std::fs::create_dir_all(&seeds);
    let build = std::process::Command::new("cargo").args(["+nightly", "fuzz", "build", target]).current_dir(&fdir).env("CARGO_NET_OFFLINE", "true").output();
    match build {
        Ok(o) if o.status.success() => {}
        Ok(o) => return FuzzOutcome::Unavailable(format!("fuzz build failed: {}", String::from_utf8_lossy(&o.stderr).lines().rev().take(5).collect::<Vec<_>>().join(" | "))),
        Err(e) => return FuzzOutcome::Unavailable(format!("cannot run cargo fuzz: {e}")),
    }
    let scale = ((runs as f64) * ctx.scale) as u64;
    let jobs = ctx.threads.max(1) as u64;
    let per = (scale / jobs).max(1000);
    let seed = (ctx.seed % 1_000_000).max(1);
    let out = std::process::Command::new("cargo")
        .args(["+nightly", "fuzz", "run", target, corpus.to_str().unwrap(), seeds.to_str().unwrap(), "--"])
        .arg(format!("-runs={per}"))
        .arg(format!("-seed={seed}"))
        .arg(format!("-jobs={jobs}"))
        .arg(format!("-workers={jobs}"))
        .args(["-len_control=0", "-max_len=2048", "-print_final_stats=1", "-timeout=600", "-rss_limit_mb=4096"])
        .current_dir(&fdir)
        .env("CARGO_NET_OFFLINE", "true")
        .env("VERIF_ROOT", &root)
        .output();
    let out = match out {
        Ok(o) => o,
        Err(e) => return FuzzOutcome::Unavailable(format!("cannot run cargo fuzz: {e}")),
    };
    // libFuzzer writes one log per job (fuzz-<n>.log) in the working directory
    let mut text = String::from_utf8_lossy(&out.stderr).to_string();
    text.push_str(&String::from_utf8_lossy(&out.stdout));
    // with -jobs the parent echoes every job's log; count statistics from the per-job log files only
    let parent_text = std::mem::take(&mut text);
    if parent_text.contains("FUZZ-VIOLATION") {
        text.push_str(parent_text.lines().find(|l| l.contains("FUZZ-VIOLATION")).unwrap_or(""));
        text.push('\n');
    }
    let mut saw_job_log = false;
    if let Ok(rd) = std::fs::read_dir(&fdir) {
        for e in rd.flatten() {
            let n = e.file_name().to_string_lossy().to_string();
            if n.starts_with("fuzz-") && n.ends_with(".log") {
                if let Ok(t) = std::fs::read_to_string(e.path()) {
                    text.push_str(&t);
                    saw_job_log = true;
                }
                let _ = std::fs::remove_file(e.path());
            }
        }
    }
    if !saw_job_log {
        text.push_str(&parent_text);
    }
    if let Some(line) = text.lines().find(|l| l.contains("FUZZ-VIOLATION")) {
        if let Some(p) = line.split("replay=").nth(1) {
            return FuzzOutcome::Violation(PathBuf::from(p.trim()));
        }
    }
    if !out.status.success() && (text.contains("libFuzzer: timeout") || text.contains("libFuzzer: out-of-memory")) {
        let executions = text.lines().filter(|l| l.contains("stat::number_of_executed_units:")).filter_map(|l| l.split_whitespace().last().and_then(|x| x.parse::<u64>().ok())).sum();
        let why = text.lines().find(|l| l.contains("libFuzzer: timeout") || l.contains("libFuzzer: out-of-memory")).unwrap_or("").trim().to_string();
        return FuzzOutcome::Incomplete { why, executions };
    }
    if !out.status.success() {
        // a crash without an oracle message (sanitizer report, timeout, OOM): inconclusive for the property, reported as such
        let tail: Vec<&str> = text.lines().rev().take(12).collect();
        return FuzzOutcome::Unavailable(format!("fuzzer stopped abnormally: {}", tail.into_iter().rev().collect::<Vec<_>>().join(" | ")));
    }
    let num = |key: &str| -> u64 { text.lines().filter(|l| l.contains(key)).filter_map(|l| l.split_whitespace().last().and_then(|x| x.parse::<u64>().ok())).sum() };
    let executions = num("stat::number_of_executed_units:");
    let features = text.lines().filter(|l| l.contains(" ft: ")).filter_map(|l| l.split(" ft: ").nth(1).and_then(|x| x.split_whitespace().next()).and_then(|x| x.parse::<u64>().ok())).max().unwrap_or(0);
    let corpus_n = std::fs::read_dir(&corpus).map(|r| r.count() as u64).unwrap_or(0);
    FuzzOutcome::Clean { executions, corpus: corpus_n, features, wall_s: t0.elapsed().as_secs_f64() }
}

fn write_replay(id: &str, f: &Failure) -> PathBuf {
    let dir = verif_root().join("replays");
    let _ = std::fs::create_dir_all(&dir);
    let body = json!({"property": id, "sub": f.sub, "message": f.message, "case": f.case});
    let text = serde_json::to_string_pretty(&body).unwrap();
    let h = fnv(serde_json::to_string(&f.case).unwrap().as_bytes());
    let p = dir.join(format!("{id}-{}-{h:016x}.json", f.sub));
    let _ = std::fs::write(&p, text);
    p
}

fn replay_file(def: &CheckDef, path: &Path) -> Result<(), String> {
    let s = std::fs::read_to_string(path).map_err(|e| format!("cannot read {}: {e}", path.display()))?;
    let v: Value = serde_json::from_str(&s).map_err(|e| format!("bad json {}: {e}", path.display()))?;
    let subn = v["sub"].as_str().unwrap_or("");
    let sub = def.subs.iter().find(|s| s.name == subn).ok_or_else(|| format!("unknown sub-check {subn}"))?;
    (sub.replay)(&v["case"])
}

pub fn run_check(ctx: &Ctx, replay: Option<&str>, only: Option<&str>) -> i32 {
    capture_stdout();
    crate::rt::install();
    let Some(def) = crate::checks::all().into_iter().find(|d| d.id == ctx.id) else {
        eprintln!("unknown property id {}", ctx.id);
        return 2;
    };
    if let Some(path) = replay {
        return match replay_file(&def, Path::new(path)) {
            Ok(()) => {
                outln!("replay {path}: property {} holds on this case", def.id);
                0
            }
            Err(m) => {
                outln!("replay {path}: {m}");
                outln!("VIOLATION property={} replay={}", def.id, path);
                1
            }
        };
    }
    // watchdog: a hang is "inconclusive" (exit 2), never a violation
    let limit = std::env::var("VERIF_WATCHDOG_S").ok().and_then(|s| s.parse().ok()).unwrap_or(match ctx.tier {
        Tier::Quick => 900u64,
        Tier::Thorough => 6 * 3600,
    });
    {
        let id = def.id.to_string();
        std::thread::spawn(move || {
            std::thread::sleep(Duration::from_secs(limit));
            outln!("INCONCLUSIVE property={id}: watchdog after {limit}s");
            std::process::exit(2);
        });
    }
    let t0 = Instant::now();
    let mut violation: Option<PathBuf> = None;
    // 1. regression tier: saved replays of this property.  Files under replays/ are confirmed
    //    counter-examples of past (seeded or repaired) defects; they must pass on a correct tree.
    let mut replayed = 0u64;
    let dir = verif_root().join("regress").join(def.id);
    if let Ok(rd) = std::fs::read_dir(&dir) {
        let mut files: Vec<PathBuf> = rd.filter_map(|e| e.ok().map(|e| e.path())).filter(|p| p.extension().map_or(false, |e| e == "json")).collect();
        files.sort();
        for f in files {
            replayed += 1;
            if let Err(m) = replay_file(&def, &f) {
                outln!("regression case {} fails: {m}", f.display());
                violation.get_or_insert(f);
            }
        }
    }
    // 2. generated search
    let mut results = vec![];
    if violation.is_none() {
        for s in &def.subs {
            if let Some(o) = only {
                if o != s.name {
                    continue;
                }
            }
            let r = (s.run)(ctx);
            eprintln!(
                "[{}] {}: {} evaluations, {} distinct non-trivial, {:.1}s{}",
                def.id,
                r.name,
                r.evaluations,
                r.nontrivial.len(),
                r.wall_s,
                if r.failure.is_some() { "  ** FAILED **" } else { "" }
            );
            let failed = r.failure.clone();
            results.push(r);
            if let Some(f) = failed {
                outln!("violation in {}/{}: {}", def.id, f.sub, f.message);
                violation = Some(write_replay(def.id, &f));
                break;
            }
        }
    }
    // 2b. coverage-guided tier (thorough only): same oracles behind byte-level targets
    let mut fuzz_report = vec![];
    let mut inconclusive: Option<String> = None;
    if violation.is_none() && ctx.tier == Tier::Thorough && only.is_none() && std::env::var("VERIF_NO_FUZZ").is_err() {
        for (target, subn, runs) in fuzz_targets(def.id) {
            match run_fuzz(ctx, target, runs) {
                FuzzOutcome::Clean { executions, corpus, features, wall_s } => {
                    eprintln!("[{}] fuzz/{target}: {executions} executions, corpus {corpus}, {features} features, {wall_s:.0}s", def.id);
                    fuzz_report.push(json!({"target": target, "oracle_of_sub_check": subn, "executions": executions, "corpus_files": corpus, "features": features, "wall_s": wall_s.round()}));
                }
                FuzzOutcome::Violation(p) => {
                    outln!("violation found by fuzz target {target}");
                    violation = Some(p);
                    break;
                }
                FuzzOutcome::Incomplete { why, executions } => {
                    // a slow or memory-hungry unit under the sanitizer build says nothing about the property; the generated-input tier above
                    // has decided, the coverage-guided campaign is reported as cut short
                    eprintln!("[{}] fuzz/{target}: cut short after {executions} executions of the finished jobs ({why})", def.id);
                    fuzz_report.push(json!({"target": target, "oracle_of_sub_check": subn, "cut_short": why, "executions_of_finished_jobs": executions}));
                }
                FuzzOutcome::Unavailable(why) => {
                    eprintln!("[{}] fuzz/{target}: {why}", def.id);
                    fuzz_report.push(json!({"target": target, "unavailable": why}));
                    inconclusive = Some(why);
                }
            }
        }
    }
    // 2c. generator health: a run in which the program refuses what the generators build (worlds, baselines, ordinary operations)
    //     decides nothing; it is reported as inconclusive instead of OK.  Minimum rates come from /verif/health.json.
    if violation.is_none() && only.is_none() {
        if let Ok(txt) = std::fs::read_to_string(verif_root().join("health.json")) {
            if let Ok(hv) = serde_json::from_str::<serde_json::Value>(&txt) {
                for r in &results {
                    let Some(mins) = hv["min_per_10k"][def.id][r.name.as_str()].as_object() else { continue };
                    for (k, m) in mins {
                        let got = if k == "nontrivial_evaluations" { r.nontrivial_evaluations } else { r.counters.get(k.trim_start_matches("counter:")).copied().unwrap_or(0) };
                        let need = m.as_f64().unwrap_or(0.0) * r.evaluations as f64 / 10_000.0;
                        if (got as f64) < need && inconclusive.is_none() {
                            inconclusive = Some(format!("generator health: sub-check {} produced {k} = {got}, fewer than the minimum {need:.0} for {} evaluations (is the program refusing ordinary operations?)", r.name, r.evaluations));
                        }
                    }
                }
            }
        }
    }
    // 3. known findings of this property
    let mut known_lines = vec![];
    for k in load_known() {
        if k.property == def.id && k.status == "known" {
            let hits: u64 = results.iter().map(|r| r.known.get(&k.signature).copied().unwrap_or(0)).sum();
            let line = format!("KNOWN-FINDING: property={} {} [{}] (seen {} times in this run)", def.id, k.what, k.signature, hits);
            outln!("{line}");
            known_lines.push(line);
        }
    }
    let wall = t0.elapsed().as_secs_f64();
    let mut ev = evidence_json(ctx, &def, &results, &known_lines, wall);
    ev["coverage"]["regression_cases_replayed"] = json!(replayed);
    let hooks = crate::rt::HOOK_CALLS.load(std::sync::atomic::Ordering::Relaxed);
    if hooks > 0 {
        ev["coverage"]["transfer_hook_executions"] = json!(hooks);
    }
    if !fuzz_report.is_empty() {
        let fe: u64 = fuzz_report.iter().filter_map(|f| f["executions"].as_u64()).sum();
        ev["coverage"]["coverage_guided"] = json!(fuzz_report);
        ev["coverage"]["evaluations"] = json!(ev["coverage"]["evaluations"].as_u64().unwrap_or(0) + fe);
    }
    if results.is_empty() {
        // keep the file schema-valid even when a regression case failed before the search started
        ev["coverage"]["evaluations"] = json!(replayed.max(1));
    }
    let edir = verif_root().join("evidence");
    let _ = std::fs::create_dir_all(&edir);
    if let Some(o) = only {
        // partial runs never replace the property's evidence file; their counters go to an ignored side directory
        let pdir = edir.join("partial");
        let _ = std::fs::create_dir_all(&pdir);
        let _ = std::fs::write(pdir.join(format!("{}-{}.json", def.id, o)), serde_json::to_string_pretty(&ev).unwrap());
    } else {
        let _ = std::fs::write(edir.join(format!("{}.json", def.id)), serde_json::to_string_pretty(&ev).unwrap());
    }
    match violation {
        Some(p) => {
            outln!("VIOLATION property={} replay={}", def.id, p.display());
            1
        }
        None if inconclusive.is_some() => {
            outln!("INCONCLUSIVE property={}: {}; no violation was found in what did run", def.id, inconclusive.unwrap());
            2
        }
        None => {
            outln!(
                "OK property={} tier={:?} seed={} evaluations={} distinct_nontrivial={} wall={:.1}s",
                def.id, ctx.tier, ctx.seed, ev["coverage"]["evaluations"], ev["coverage"]["distinct_nontrivial"], wall
            );
            0
        }
    }
}
