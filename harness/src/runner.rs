//! Parallel proptest runner, counters, evidence and replay files.  See DESIGN.md §2.5.
use proptest::strategy::{BoxedStrategy, Strategy};
use proptest::test_runner::{Config, RngAlgorithm, TestCaseError, TestError, TestRng, TestRunner};
use serde::{de::DeserializeOwned, Serialize};
use serde_json::{json, Value};
use std::cell::RefCell;
use std::collections::{BTreeMap, BTreeSet};
use std::hash::{Hash, Hasher};
use std::sync::atomic::{AtomicBool, Ordering};
use std::time::Instant;

#[derive(Clone, Copy, PartialEq, Eq, Debug)]
pub enum Tier {
    Quick,
    Thorough,
}

#[derive(Clone, Debug)]
pub struct Ctx {
    pub id: String,
    pub tier: Tier,
    pub seed: u64,
    pub threads: usize,
    /// multiplies every case count (env VERIF_SCALE, default 1.0)
    pub scale: f64,
}

impl Ctx {
    /// number of cases for the tier
    pub fn cases(&self, quick: u64, thorough: u64) -> u64 {
        let n = match self.tier {
            Tier::Quick => quick,
            Tier::Thorough => thorough,
        };
        ((n as f64 * self.scale) as u64).max(self.threads as u64)
    }
}

pub fn fnv(bytes: &[u8]) -> u64 {
    let mut h: u64 = 0xcbf29ce484222325;
    for b in bytes {
        h ^= *b as u64;
        h = h.wrapping_mul(0x100000001b3);
    }
    h
}

pub fn hash_of<T: Hash>(t: &T) -> u64 {
    let mut h = Fnv(0xcbf29ce484222325);
    t.hash(&mut h);
    h.0
}
struct Fnv(u64);
impl Hasher for Fnv {
    fn finish(&self) -> u64 {
        self.0
    }
    fn write(&mut self, bytes: &[u8]) {
        for b in bytes {
            self.0 ^= *b as u64;
            self.0 = self.0.wrapping_mul(0x100000001b3);
        }
    }
}

/// Per-worker statistics (merged at the end; no cross-thread contention while running).
pub const NONTRIVIAL_CAP_PER_WORKER: usize = 2_000_000;

#[derive(Default)]
pub struct Local {
    pub evals: u64,
    pub nontrivial_evals: u64,
    pub counters: BTreeMap<String, u64>,
    pub nontrivial: BTreeSet<u64>,
    pub samples: Vec<Value>,
    pub known: BTreeMap<String, u64>,
    frozen: bool,
    pub max_samples: usize,
}

impl Local {
    pub fn count(&mut self, k: &str) {
        self.count_n(k, 1)
    }
    pub fn count_n(&mut self, k: &str, n: u64) {
        if self.frozen || n == 0 {
            return;
        }
        *self.counters.entry(k.to_string()).or_insert(0) += n;
    }
    /// register a distinct non-trivial case by its hash.  The set is capped per worker (memory); beyond the cap only
    /// the number of non-trivial evaluations keeps growing (`nontrivial_evaluations` in the evidence), so the reported
    /// distinct count is a lower bound.
    pub fn nontrivial(&mut self, h: u64) {
        if !self.frozen {
            self.nontrivial_evals += 1;
            if self.nontrivial.len() < NONTRIVIAL_CAP_PER_WORKER {
                self.nontrivial.insert(h);
            }
        }
    }
    pub fn sample(&mut self, f: impl FnOnce() -> Value) {
        if !self.frozen && self.samples.len() < self.max_samples {
            self.samples.push(f());
        }
    }
    /// an occurrence of a listed known finding (excluded from the search, counted)
    pub fn known_hit(&mut self, signature: &str) {
        if !self.frozen {
            *self.known.entry(signature.to_string()).or_insert(0) += 1;
        }
    }
    pub fn frozen(&self) -> bool {
        self.frozen
    }
}

#[derive(Clone, Debug)]
pub struct Failure {
    pub sub: String,
    pub case: Value,
    pub message: String,
}

pub struct SubResult {
    pub name: String,
    pub evaluations: u64,
    pub nontrivial_evaluations: u64,
    pub counters: BTreeMap<String, u64>,
    pub nontrivial: BTreeSet<u64>,
    pub samples: Vec<Value>,
    pub known: BTreeMap<String, u64>,
    pub failure: Option<Failure>,
    pub exhaustive: bool,
    pub wall_s: f64,
}

fn worker_seed(seed: u64, id: &str, sub: &str, w: usize) -> [u8; 32] {
    let mut out = [0u8; 32];
    let mut x = fnv(format!("{seed}|{id}|{sub}|{w}").as_bytes());
    for chunk in out.chunks_mut(8) {
        // splitmix64
        x = x.wrapping_add(0x9e3779b97f4a7c15);
        let mut z = x;
        z = (z ^ (z >> 30)).wrapping_mul(0xbf58476d1ce4e5b9);
        z = (z ^ (z >> 27)).wrapping_mul(0x94d049bb133111eb);
        z ^= z >> 31;
        chunk.copy_from_slice(&z.to_le_bytes());
    }
    out
}

/// Run `check` over `cases` generated values, split over the worker threads.  The first failing worker's
/// case is shrunk by proptest and returned; the other workers stop at their next case.
/// Safety net: a panic that escapes a check (in the code under test at a call site that does not expect one, or in the
/// harness) is reported as a failure of that case instead of killing the process.
pub fn guarded<C, F: Fn(&C, &mut Local) -> Result<(), String>>(check: &F, c: &C, l: &mut Local) -> Result<(), String> {
    match crate::rt::try_call(|| check(c, l)) {
        Ok(r) => r,
        Err(p) => Err(format!("the call under test did not return ({p})")),
    }
}

pub fn run_sub<C, F>(
    ctx: &Ctx,
    name: &str,
    cases: u64,
    strategy: impl Fn() -> BoxedStrategy<C> + Sync,
    check: F,
) -> SubResult
where
    C: std::fmt::Debug + Clone + Serialize + Send + 'static,
    F: Fn(&C, &mut Local) -> Result<(), String> + Sync,
{
    let t0 = Instant::now();
    let stop = AtomicBool::new(false);
    let threads = ctx.threads.max(1);
    let per = (cases + threads as u64 - 1) / threads as u64;
    let results: Vec<(Local, Option<(C, String)>)> = std::thread::scope(|s| {
        let mut hs = vec![];
        for w in 0..threads {
            let stop = &stop;
            let strategy = &strategy;
            let check = &check;
            let seed = worker_seed(ctx.seed, &ctx.id, name, w);
            hs.push(
                std::thread::Builder::new()
                    .stack_size(64 << 20)
                    .spawn_scoped(s, move || {
                        crate::rt::install();
                        let local = RefCell::new(Local { max_samples: 2, ..Local::default() });
                        let failing = std::cell::Cell::new(false);
                        let config = Config {
                            cases: per as u32,
                            failure_persistence: None,
                            max_shrink_iters: 4000,
                            max_shrink_time: 0,
                            max_global_rejects: 1 << 20,
                            max_local_rejects: 1 << 20,
                            verbose: 0,
                            ..Config::default()
                        };
                        let mut runner =
                            TestRunner::new_with_rng(config, TestRng::from_seed(RngAlgorithm::ChaCha, &seed));
                        let strat = strategy();
                        let r = runner.run(&strat, |c| {
                            if !failing.get() && stop.load(Ordering::Relaxed) {
                                return Ok(());
                            }
                            // every panic of the program retires one executor thread for good (it cannot unwind out of the program's
                            // `extern "C"` entrypoint); the process stops generating before the kernel's mapping limit ends it
                            if !failing.get() && crate::rt::PANICS.load(Ordering::Relaxed) > crate::rt::PANIC_BUDGET {
                                let mut l = local.borrow_mut();
                                if !l.counters.contains_key("stopped_early/program_panic_budget_of_the_process_spent") {
                                    l.count("stopped_early/program_panic_budget_of_the_process_spent");
                                }
                                return Ok(());
                            }
                            let mut l = local.borrow_mut();
                            if !l.frozen {
                                l.evals += 1;
                            }
                            match guarded(check, &c, &mut l) {
                                Ok(()) => Ok(()),
                                Err(m) => {
                                    l.frozen = true;
                                    failing.set(true);
                                    stop.store(true, Ordering::Relaxed);
                                    Err(TestCaseError::fail(m))
                                }
                            }
                        });
                        let fail = match r {
                            Ok(()) => None,
                            Err(TestError::Fail(reason, value)) => Some((value, reason.message().to_string())),
                            Err(TestError::Abort(reason)) => {
                                eprintln!("[{name}] worker {w}: generator aborted: {reason}");
                                None
                            }
                        };
                        (local.into_inner(), fail)
                    })
                    .unwrap(),
            );
        }
        hs.into_iter().map(|h| h.join().expect("worker panicked outside a case")).collect()
    });
    let mut out = SubResult {
        name: name.to_string(),
        evaluations: 0,
        nontrivial_evaluations: 0,
        counters: BTreeMap::new(),
        nontrivial: BTreeSet::new(),
        samples: vec![],
        known: BTreeMap::new(),
        failure: None,
        exhaustive: false,
        wall_s: 0.0,
    };
    for (l, f) in results {
        out.evaluations += l.evals;
        out.nontrivial_evaluations += l.nontrivial_evals;
        for (k, v) in l.counters {
            *out.counters.entry(k).or_insert(0) += v;
        }
        for (k, v) in l.known {
            *out.known.entry(k).or_insert(0) += v;
        }
        out.nontrivial.extend(l.nontrivial);
        if out.samples.len() < 5 {
            out.samples.extend(l.samples.into_iter().take(1));
        }
        if let (None, Some((c, m))) = (&out.failure, f) {
            // confirm through the plain closure (no proptest involved)
            let mut l2 = Local::default();
            let confirmed = guarded(&check, &c, &mut l2);
            let message = match confirmed {
                Err(m2) => m2,
                Ok(()) => format!("(not reproduced on re-execution) {m}"),
            };
            out.failure = Some(Failure { sub: name.to_string(), case: serde_json::to_value(&c).unwrap(), message });
        }
    }
    out.wall_s = t0.elapsed().as_secs_f64();
    out
}

/// An enumerated (exhaustive) part of a check: the caller iterates itself, in parallel chunks.
pub fn run_enum<F>(ctx: &Ctx, name: &str, n_items: u64, check: F) -> SubResult
where
    F: Fn(u64, &mut Local) -> Result<(), (Value, String)> + Sync,
{
    let t0 = Instant::now();
    let threads = ctx.threads.max(1) as u64;
    let stop = AtomicBool::new(false);
    let results: Vec<(Local, Option<(u64, Value, String)>)> = std::thread::scope(|s| {
        let mut hs = vec![];
        for w in 0..threads {
            let stop = &stop;
            let check = &check;
            hs.push(
                std::thread::Builder::new()
                    .stack_size(64 << 20)
                    .spawn_scoped(s, move || {
                        crate::rt::install();
                        let mut l = Local { max_samples: 1, ..Local::default() };
                        let lo = n_items * w / threads;
                        let hi = n_items * (w + 1) / threads;
                        let mut fail = None;
                        for i in lo..hi {
                            if stop.load(Ordering::Relaxed) {
                                break;
                            }
                            l.evals += 1;
                            let r = match crate::rt::try_call(|| check(i, &mut l)) {
                                Ok(r) => r,
                                Err(p) => Err((serde_json::json!({"index": i}), format!("the call under test did not return ({p})"))),
                            };
                            if let Err((c, m)) = r {
                                stop.store(true, Ordering::Relaxed);
                                fail = Some((i, c, m));
                                break;
                            }
                        }
                        (l, fail)
                    })
                    .unwrap(),
            );
        }
        hs.into_iter().map(|h| h.join().expect("worker panicked")).collect()
    });
    let mut out = SubResult {
        name: name.to_string(),
        evaluations: 0,
        nontrivial_evaluations: 0,
        counters: BTreeMap::new(),
        nontrivial: BTreeSet::new(),
        samples: vec![],
        known: BTreeMap::new(),
        failure: None,
        exhaustive: true,
        wall_s: 0.0,
    };
    let mut best: Option<(u64, Value, String)> = None;
    for (l, f) in results {
        out.evaluations += l.evals;
        out.nontrivial_evaluations += l.nontrivial_evals;
        for (k, v) in l.counters {
            *out.counters.entry(k).or_insert(0) += v;
        }
        for (k, v) in l.known {
            *out.known.entry(k).or_insert(0) += v;
        }
        out.nontrivial.extend(l.nontrivial);
        if out.samples.len() < 5 {
            out.samples.extend(l.samples.into_iter().take(1));
        }
        if let Some(f) = f {
            if best.as_ref().map_or(true, |b| f.0 < b.0) {
                best = Some(f);
            }
        }
    }
    if let Some((_, c, m)) = best {
        out.exhaustive = false;
        out.failure = Some(Failure { sub: name.to_string(), case: c, message: m });
    }
    out.wall_s = t0.elapsed().as_secs_f64();
    out
}

/// A registered sub-check: how to run it and how to replay a saved case of it.
pub struct Sub {
    pub name: &'static str,
    pub run: Box<dyn Fn(&Ctx) -> SubResult + Sync + Send>,
    pub replay: Box<dyn Fn(&Value) -> Result<(), String> + Sync + Send>,
}

/// Build a `Sub` from a strategy + closure over a serialisable case type.
pub fn sub<C, F>(
    name: &'static str,
    quick: u64,
    thorough: u64,
    strategy: impl Fn() -> BoxedStrategy<C> + Sync + Send + 'static,
    check: F,
) -> Sub
where
    C: std::fmt::Debug + Clone + Serialize + DeserializeOwned + Send + 'static,
    F: Fn(&C, &mut Local) -> Result<(), String> + Sync + Send + Clone + 'static,
{
    let check2 = check.clone();
    Sub {
        name,
        run: Box::new(move |ctx| run_sub(ctx, name, ctx.cases(quick, thorough), &strategy, &check)),
        replay: Box::new(move |v| {
            let c: C = serde_json::from_value(v.clone()).map_err(|e| format!("bad replay case: {e}"))?;
            let mut l = Local::default();
            guarded(&check2, &c, &mut l)
        }),
    }
}

pub struct CheckDef {
    pub id: &'static str,
    pub rule: &'static str,
    pub assumptions: Vec<&'static str>,
    pub subs: Vec<Sub>,
}

pub fn boxed<S: Strategy + 'static>(s: S) -> BoxedStrategy<S::Value> {
    s.boxed()
}

pub fn evidence_json(ctx: &Ctx, def: &CheckDef, results: &[SubResult], known_lines: &[String], wall_s: f64) -> Value {
    let evaluations: u64 = results.iter().map(|r| r.evaluations).sum();
    let mut nontrivial: BTreeSet<(usize, u64)> = BTreeSet::new();
    for (i, r) in results.iter().enumerate() {
        for h in &r.nontrivial {
            nontrivial.insert((i, *h));
        }
    }
    let mut samples = vec![];
    for r in results {
        for s in r.samples.iter().take(3) {
            samples.push(json!({"sub": r.name, "case": s}));
        }
    }
    let mut classes = serde_json::Map::new();
    let mut per_sub = serde_json::Map::new();
    for r in results {
        let mut m = serde_json::Map::new();
        for (k, v) in &r.counters {
            m.insert(k.clone(), json!(v));
        }
        classes.insert(r.name.clone(), Value::Object(m));
        per_sub.insert(
            r.name.clone(),
            json!({"evaluations": r.evaluations, "distinct_nontrivial": r.nontrivial.len(), "nontrivial_evaluations": r.nontrivial_evaluations,
                   "distinct_set_capped": r.nontrivial.len() as u64 >= NONTRIVIAL_CAP_PER_WORKER as u64, "exhaustive": r.exhaustive,
                   "wall_s": (r.wall_s * 1000.0).round() / 1000.0, "known_finding_hits": r.known}),
        );
    }
    let violations = results.iter().filter(|r| r.failure.is_some()).count();
    let all_exhaustive = !results.is_empty() && results.iter().all(|r| r.exhaustive);
    json!({
        "property_id": def.id,
        "tier": match ctx.tier { Tier::Quick => "quick", Tier::Thorough => "thorough" },
        "seed": ctx.seed,
        "level": "exploration",
        "coverage": {
            "evaluations": evaluations,
            "distinct_nontrivial": nontrivial.len(),
            "rule": def.rule,
            "samples": samples,
            "exhaustive": all_exhaustive,
            "sub_checks": per_sub,
            "classes": classes,
            "known_findings_reported": known_lines,
        },
        "assumptions": def.assumptions,
        "wall_s": (wall_s * 1000.0).round() / 1000.0,
        "violations": violations,
    })
}
