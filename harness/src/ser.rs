//! serde helpers: 128-bit integers as decimal strings (serde_json::Value cannot hold them).
pub mod u128s {
    use serde::{Deserialize, Deserializer, Serializer};
    pub fn serialize<S: Serializer>(v: &u128, s: S) -> Result<S::Ok, S::Error> {
        s.serialize_str(&v.to_string())
    }
    pub fn deserialize<'de, D: Deserializer<'de>>(d: D) -> Result<u128, D::Error> {
        let s = String::deserialize(d)?;
        s.parse().map_err(serde::de::Error::custom)
    }
}
pub mod i128s {
    use serde::{Deserialize, Deserializer, Serializer};
    pub fn serialize<S: Serializer>(v: &i128, s: S) -> Result<S::Ok, S::Error> {
        s.serialize_str(&v.to_string())
    }
    pub fn deserialize<'de, D: Deserializer<'de>>(d: D) -> Result<i128, D::Error> {
        let s = String::deserialize(d)?;
        s.parse().map_err(serde::de::Error::custom)
    }
}
pub mod hexbytes {
    use serde::{Deserialize, Deserializer, Serializer};
    pub fn serialize<S: Serializer>(v: &Vec<u8>, s: S) -> Result<S::Ok, S::Error> {
        let mut o = String::with_capacity(v.len() * 2);
        for b in v {
            o.push_str(&format!("{b:02x}"));
        }
        s.serialize_str(&o)
    }
    pub fn deserialize<'de, D: Deserializer<'de>>(d: D) -> Result<Vec<u8>, D::Error> {
        let s = String::deserialize(d)?;
        (0..s.len() / 2)
            .map(|i| u8::from_str_radix(&s[2 * i..2 * i + 2], 16).map_err(serde::de::Error::custom))
            .collect()
    }
}
