//! C13 — a dynamic tick array behaves exactly like a fixed one (Anchor and Pinocchio accessors).
use crate::decode::{self, TickD};
use crate::model::*;
use crate::runner::*;
use anchor_lang::Discriminator;
use proptest::prelude::*;
use serde::{Deserialize, Serialize};
use serde_json::json;
use solana_program::pubkey::Pubkey;
use std::collections::BTreeMap;
use whirlpool::pinocchio::verif_export::whirlpool::tick_array::{
    dynamic_tick_array::MemoryMappedDynamicTickArray, fixed_tick_array::MemoryMappedFixedTickArray, TickArray as PinoTickArray, TickUpdate as PinoTickUpdate,
};
use whirlpool::state::{DynamicTickArray, DynamicTickArrayLoader, FixedTickArray, TickArrayType, TickUpdate};

pub const DYN_BUF: usize = 10_004 + 256;

#[derive(Clone, Debug, Serialize, Deserialize, Hash, PartialEq, Eq)]
pub struct TickVal {
    #[serde(with = "crate::ser::i128s")]
    pub net: i128,
    #[serde(with = "crate::ser::u128s")]
    pub gross: u128,
    #[serde(with = "crate::ser::u128s")]
    pub fa: u128,
    #[serde(with = "crate::ser::u128s")]
    pub fb: u128,
    pub r: [u64; 3],
}

#[derive(Clone, Debug, Serialize, Deserialize, Hash, PartialEq, Eq)]
pub enum ArrOp {
    /// initialize or modify the tick at slot (tick index = start + slot*spacing + skew)
    Set { slot: i16, skew: i8, val: TickVal },
    Deinit { slot: i16, skew: i8 },
    Get { slot: i16, skew: i8 },
    NextInit { slot: i16, skew: i8, a_to_b: bool },
}

#[derive(Clone, Debug, Serialize, Deserialize, Hash)]
pub struct ArrCase {
    pub tick_spacing: u16,
    /// array number: start index = n * 88 * spacing
    pub array_no: i32,
    pub ops: Vec<ArrOp>,
    /// start from a (nearly) full array: every slot except these is initialized first, in the order given by `seed`
    #[serde(default)]
    pub prefill: Option<Prefill>,
    /// applied after the prefill and before `ops`
    #[serde(default)]
    pub macros: Vec<Macro>,
}

/// long regular stretches of a history (random sequences of <= 120 single ops never produce them): they are what moves bytes of
/// removed ticks through the slack behind the used part of a dynamic array's buffer
#[derive(Clone, Debug, Serialize, Deserialize, Hash)]
pub enum Macro {
    /// initialize every slot not yet initialized (order from `seed`), except `skip`
    FillAll { seed: u8, skip: Vec<i16> },
    /// de-initialize every initialized slot (order from `seed`), except `keep`
    DrainAll { seed: u8, keep: Vec<i16> },
    /// initialize and de-initialize one slot `times` times
    Cycle { slot: i16, times: u8 },
}

#[derive(Clone, Debug, Serialize, Deserialize, Hash)]
pub struct Prefill {
    pub missing: Vec<i16>,
    pub seed: u8,
}

pub struct Quad {
    pub spacing: u16,
    pub start: i32,
    pub af: Vec<u8>,
    pub ad: Vec<u8>,
    pub pf: Vec<u8>,
    pub pd: Vec<u8>,
    pub model: BTreeMap<usize, TickVal>,
}

const PANICKED: u64 = u64::MAX - 7;
/// a panic inside an accessor is a failed call (error code PANICKED)
fn nopanic(f: impl FnOnce() -> Result<(), u64>) -> Result<(), u64> {
    crate::rt::try_call(f).unwrap_or(Err(PANICKED))
}

fn anchor_code(e: anchor_lang::error::Error) -> u64 {
    let pe: solana_program::program_error::ProgramError = e.into();
    pe.into()
}

fn upd(v: Option<&TickVal>) -> (TickUpdate, PinoTickUpdate) {
    match v {
        None => (TickUpdate::default(), PinoTickUpdate::default()),
        Some(v) => {
            let r = [v.r[0] as u128 * 0x1_0000_0001, v.r[1] as u128, (v.r[2] as u128) << 64];
            (
                TickUpdate { initialized: true, liquidity_net: v.net, liquidity_gross: v.gross, fee_growth_outside_a: v.fa, fee_growth_outside_b: v.fb, reward_growths_outside: r },
                PinoTickUpdate { initialized: true, liquidity_net: v.net, liquidity_gross: v.gross, fee_growth_outside_a: v.fa, fee_growth_outside_b: v.fb, reward_growths_outside: r },
            )
        }
    }
}

fn tickd(v: &TickVal) -> TickD {
    TickD {
        initialized: true,
        liquidity_net: v.net,
        liquidity_gross: v.gross,
        fee_growth_outside_a: v.fa,
        fee_growth_outside_b: v.fb,
        reward_growths_outside: [v.r[0] as u128 * 0x1_0000_0001, v.r[1] as u128, (v.r[2] as u128) << 64],
    }
}

impl Quad {
    pub fn new(spacing: u16, start: i32) -> Quad {
        let pool = Pubkey::new_from_array([7u8; 32]);
        let mut fixed = vec![0u8; decode::FIXED_TICK_ARRAY_LEN];
        fixed[..8].copy_from_slice(FixedTickArray::DISCRIMINATOR);
        fixed[8..12].copy_from_slice(&start.to_le_bytes());
        fixed[9956..9988].copy_from_slice(pool.as_ref());
        let mut dynb = vec![0u8; DYN_BUF];
        dynb[..8].copy_from_slice(DynamicTickArray::DISCRIMINATOR);
        dynb[8..12].copy_from_slice(&start.to_le_bytes());
        dynb[12..44].copy_from_slice(pool.as_ref());
        Quad { spacing, start, af: fixed.clone(), ad: dynb.clone(), pf: fixed, pd: dynb, model: BTreeMap::new() }
    }

    fn tick_index(&self, slot: i16, skew: i8) -> i32 {
        self.start.saturating_add(slot as i32 * self.spacing as i32).saturating_add(skew as i32)
    }

    /// the abstract answer: Some(slot) when the tick index names a usable tick stored in this array
    fn model_slot(&self, tick: i32) -> Option<usize> {
        let ts = self.spacing as i32;
        if tick < self.start || tick >= self.start + 88 * ts || !(MIN_TICK..=MAX_TICK).contains(&tick) || tick.rem_euclid(ts) != 0 {
            return None;
        }
        Some(((tick - self.start) / ts) as usize)
    }

    fn update_all(&mut self, tick: i32, val: Option<&TickVal>) -> Result<[Result<(), u64>; 4], String> {
        let (au, pu) = upd(val);
        let sp = self.spacing;
        let r_af = nopanic(|| {
            let t: &mut FixedTickArray = bytemuck::from_bytes_mut(&mut self.af[8..]);
            t.update_tick(tick, sp, &au).map_err(anchor_code)
        });
        let r_ad = nopanic(|| {
            let t = DynamicTickArrayLoader::load_mut(&mut self.ad[8..]);
            t.update_tick(tick, sp, &au).map_err(anchor_code)
        });
        let r_pf = nopanic(|| {
            let t = unsafe { &mut *(self.pf.as_mut_ptr() as *mut MemoryMappedFixedTickArray) };
            t.update_tick(tick, sp, &pu).map_err(|e| u64::from(e))
        });
        let r_pd = nopanic(|| {
            let t = unsafe { &mut *(self.pd.as_mut_ptr() as *mut MemoryMappedDynamicTickArray) };
            t.update_tick(tick, sp, &pu).map_err(|e| u64::from(e))
        });
        Ok([r_af, r_ad, r_pf, r_pd])
    }

    /// all four encodings decode to the abstract map; dynamic encodings well formed and byte-equal
    pub fn verify_contents(&self) -> Result<(), String> {
        let n = self.model.len();
        let names = ["anchor-fixed", "anchor-dynamic", "pinocchio-fixed", "pinocchio-dynamic"];
        for (i, buf) in [&self.af, &self.ad, &self.pf, &self.pd].into_iter().enumerate() {
            let used = if i % 2 == 0 { buf.len() } else { 148 + 112 * n };
            let a = decode::tick_array(&buf[..used.max(148)]).map_err(|e| format!("{}: encoding malformed for {n} initialized ticks: {e}", names[i]))?;
            if a.start_tick_index != self.start {
                return Err(format!("{}: start index changed", names[i]));
            }
            for s in 0..88 {
                let want = self.model.get(&s).map(tickd).unwrap_or_default();
                if a.ticks[s] != want {
                    return Err(format!("{}: slot {s} holds {:?}, the update sequence gives {:?}", names[i], a.ticks[s], want));
                }
            }
            if a.dynamic {
                let mut bm = 0u128;
                for s in self.model.keys() {
                    bm |= 1u128 << s;
                }
                if a.bitmap != bm {
                    return Err(format!("{}: bitmap {:#x} but initialized slots are {:#x}", names[i], a.bitmap, bm));
                }
                if a.used_len != 148 + 112 * n {
                    return Err(format!("{}: used length {} for {n} initialized ticks", names[i], a.used_len));
                }
            }
        }
        if self.af != self.pf {
            return Err("Anchor and Pinocchio fixed arrays differ in bytes".into());
        }
        let used = 148 + 112 * n;
        if self.ad[..used] != self.pd[..used] {
            let at = self.ad.iter().zip(self.pd.iter()).position(|(a, b)| a != b);
            return Err(format!("Anchor and Pinocchio dynamic arrays differ within the used length at byte {at:?}"));
        }
        Ok(())
    }

    pub fn apply(&mut self, op: &ArrOp, l: &mut Local) -> Result<(), String> {
        let sp = self.spacing;
        match op {
            ArrOp::Set { slot, skew, .. } | ArrOp::Deinit { slot, skew } => {
                let tick = self.tick_index(*slot, *skew);
                let val = match op {
                    ArrOp::Set { val, .. } => Some(val),
                    _ => None,
                };
                let want_slot = self.model_slot(tick);
                let rs = self.update_all(tick, val)?;
                for (i, r) in rs.iter().enumerate() {
                    if r.is_ok() != want_slot.is_some() {
                        let names = ["anchor-fixed", "anchor-dynamic", "pinocchio-fixed", "pinocchio-dynamic"];
                        let what = if *r == Err(PANICKED) { "panicked".to_string() } else { format!("returned {r:?}") };
                        return Err(format!("update of tick {tick} with {} ticks initialized: {} {what}, usable slot: {want_slot:?}", self.model.len(), names[i]));
                    }
                }
                if rs.iter().any(|r| *r != rs[0]) {
                    return Err(format!("update of tick {tick}: the four implementations disagree: {rs:?}"));
                }
                if let Some(s) = want_slot {
                    match val {
                        Some(v) => {
                            l.count(if self.model.contains_key(&s) { "modify" } else { "initialize" });
                            self.model.insert(s, v.clone());
                        }
                        None => {
                            l.count(if self.model.contains_key(&s) { "deinitialize" } else { "deinit_noop" });
                            self.model.remove(&s);
                        }
                    }
                } else {
                    l.count("update_rejected");
                }
                self.verify_contents().map_err(|e| format!("after {op:?}: {e}"))
            }
            ArrOp::Get { slot, skew } => {
                let tick = self.tick_index(*slot, *skew);
                let want = self.model_slot(tick).map(|s| self.model.get(&s).map(tickd).unwrap_or_default());
                let a1 = {
                    let t: &FixedTickArray = bytemuck::from_bytes(&self.af[8..]);
                    t.get_tick(tick, sp).map_err(anchor_code)
                };
                let a2 = DynamicTickArrayLoader::load(&self.ad[8..]).get_tick(tick, sp).map_err(anchor_code);
                let conv_a = |t: whirlpool::state::Tick| TickD {
                    initialized: t.initialized,
                    liquidity_net: t.liquidity_net,
                    liquidity_gross: t.liquidity_gross,
                    fee_growth_outside_a: t.fee_growth_outside_a,
                    fee_growth_outside_b: t.fee_growth_outside_b,
                    reward_growths_outside: t.reward_growths_outside,
                };
                let p1t = unsafe { &*(self.pf.as_ptr() as *const MemoryMappedFixedTickArray) };
                let p2t = unsafe { &*(self.pd.as_ptr() as *const MemoryMappedDynamicTickArray) };
                let conv_p = |t: &whirlpool::pinocchio::verif_export::whirlpool::tick_array::tick::MemoryMappedTick| TickD {
                    initialized: t.initialized(),
                    liquidity_net: t.liquidity_net(),
                    liquidity_gross: t.liquidity_gross(),
                    fee_growth_outside_a: t.fee_growth_outside_a(),
                    fee_growth_outside_b: t.fee_growth_outside_b(),
                    reward_growths_outside: t.reward_growths_outside(),
                };
                let got: [Result<TickD, u64>; 4] =
                    [a1.map(conv_a), a2.map(conv_a), p1t.get_tick(tick, sp).map(conv_p).map_err(u64::from), p2t.get_tick(tick, sp).map(conv_p).map_err(u64::from)];
                for (i, g) in got.iter().enumerate() {
                    match (g, &want) {
                        (Ok(t), Some(w)) if t == w => {}
                        (Err(_), None) => {}
                        _ => return Err(format!("get_tick({tick}): implementation #{i} answered {g:?}, abstract array says {want:?}")),
                    }
                }
                if got.iter().any(|g| g.as_ref().err() != got[0].as_ref().err()) {
                    return Err(format!("get_tick({tick}): error codes differ: {:?}", got.iter().map(|g| g.as_ref().err()).collect::<Vec<_>>()));
                }
                // the Pinocchio usable-tick lookup agrees with acceptance and offset
                for (i, off) in [p1t.check_is_usable_tick_and_get_offset(tick, sp), p2t.check_is_usable_tick_and_get_offset(tick, sp)].into_iter().enumerate() {
                    if off != self.model_slot(tick) {
                        return Err(format!("pinocchio lookup #{i} of tick {tick}: offset {off:?}, expected {:?}", self.model_slot(tick)));
                    }
                }
                l.count(if want.is_some() { "get_ok" } else { "get_rejected" });
                Ok(())
            }
            ArrOp::NextInit { slot, skew, a_to_b } => {
                let tick = self.tick_index(*slot, *skew);
                let ts = sp as i32;
                // search range: [start, start+88*ts) for a->b, shifted by one spacing to the left for b->a
                let (lo, hi) = if *a_to_b { (self.start, self.start + 88 * ts) } else { (self.start - ts, self.start + 87 * ts) };
                let want: Option<Option<i32>> = if tick >= lo && tick < hi {
                    let off = (tick - self.start).div_euclid(ts); // -1 possible for shifted searches
                    let found = if *a_to_b {
                        (0..=off).rev().find(|s| self.model.contains_key(&(*s as usize)))
                    } else {
                        ((off + 1)..88).find(|s| self.model.contains_key(&(*s as usize)))
                    };
                    Some(found.map(|s| self.start + s * ts))
                } else {
                    None
                };
                let a1 = {
                    let t: &FixedTickArray = bytemuck::from_bytes(&self.af[8..]);
                    t.get_next_init_tick_index(tick, sp, *a_to_b).map_err(anchor_code)
                };
                let a2 = DynamicTickArrayLoader::load(&self.ad[8..]).get_next_init_tick_index(tick, sp, *a_to_b).map_err(anchor_code);
                for (i, g) in [&a1, &a2].into_iter().enumerate() {
                    match (g, &want) {
                        (Ok(x), Some(w)) if x == w => {}
                        (Err(_), None) => {}
                        _ => return Err(format!("next initialized tick from {tick} (a_to_b={a_to_b}): implementation #{i} answered {g:?}, abstract array says {want:?}")),
                    }
                }
                if a1.as_ref().err() != a2.as_ref().err() {
                    return Err(format!("next-initialized query from {tick}: fixed and dynamic error codes differ: {a1:?} vs {a2:?}"));
                }
                l.count(match want {
                    Some(Some(_)) => "next_found",
                    Some(None) => "next_none",
                    None => "next_rejected",
                });
                Ok(())
            }
        }
    }
}

pub fn start_of(spacing: u16, array_no: i32) -> i32 {
    array_no.saturating_mul(88 * spacing as i32)
}

pub fn check_case(c: &ArrCase, l: &mut Local) -> Result<(), String> {
    let mut q = Quad::new(c.tick_spacing, start_of(c.tick_spacing, c.array_no));
    let (mut inits, mut deinits_between) = (0u32, 0u32);
    if let Some(pf) = &c.prefill {
        // ascending, descending, or a stride permutation of the 88 slots (strides coprime to 88)
        let stride = [1usize, 87, 3, 5, 7, 13, 29, 43][(pf.seed % 8) as usize];
        for k in 0..88usize {
            let slot = ((k * stride + pf.seed as usize) % 88) as i16;
            if pf.missing.contains(&slot) {
                continue;
            }
            let v = TickVal { net: -(slot as i128 + 1) * 1_000_003, gross: (slot as u128 + 1) << 64, fa: u128::MAX - slot as u128, fb: slot as u128, r: [slot as u64, u64::MAX - slot as u64, u64::MAX] };
            q.apply(&ArrOp::Set { slot, skew: 0, val: v }, l)?;
        }
        l.count(&format!("prefilled/{}_missing", pf.missing.len()));
    }
    const STRIDES: [usize; 8] = [1, 87, 3, 5, 7, 13, 29, 43];
    let macro_val = |slot: i16, n: u32| TickVal { net: (slot as i128 + 1) * 7_000_003 - n as i128, gross: ((slot as u128 + 1) << 90) | 0x0101_0101, fa: u128::MAX - n as u128, fb: (n as u128) << 100 | 0x0202, r: [u64::MAX, slot as u64 | 0x0100_0000_0000_0001, n as u64] };
    let mut macro_ops = 0u32;
    for m in &c.macros {
        match m {
            Macro::FillAll { seed, skip } => {
                for k in 0..88usize {
                    let slot = ((k * STRIDES[(*seed % 8) as usize] + *seed as usize) % 88) as i16;
                    if skip.contains(&slot) || q.model.contains_key(&(slot as usize)) {
                        continue;
                    }
                    q.apply(&ArrOp::Set { slot, skew: 0, val: macro_val(slot, macro_ops) }, l)?;
                    macro_ops += 1;
                }
            }
            Macro::DrainAll { seed, keep } => {
                for k in 0..88usize {
                    let slot = ((k * STRIDES[(*seed % 8) as usize] + *seed as usize) % 88) as i16;
                    if keep.contains(&slot) || !q.model.contains_key(&(slot as usize)) {
                        continue;
                    }
                    q.apply(&ArrOp::Deinit { slot, skew: 0 }, l)?;
                    macro_ops += 1;
                }
            }
            Macro::Cycle { slot, times } => {
                let slot = slot.rem_euclid(88);
                for _ in 0..*times {
                    q.apply(&ArrOp::Set { slot, skew: 0, val: macro_val(slot, macro_ops) }, l)?;
                    q.apply(&ArrOp::Deinit { slot, skew: 0 }, l)?;
                    macro_ops += 2;
                }
            }
        }
    }
    if macro_ops > 0 {
        l.count_n("macro_ops", macro_ops as u64);
        l.count(if macro_ops >= 176 { "cases_with_176+_macro_ops" } else { "cases_with_macro_ops" });
    }
    let mut reached_full = q.model.len() == 88;
    for op in &c.ops {
        let before = q.model.clone();
        q.apply(op, l)?;
        if q.model.len() > before.len() {
            inits += 1;
        }
        if q.model.len() == 88 {
            reached_full = true;
        }
        if q.model.len() < before.len() {
            if let ArrOp::Deinit { slot, .. } = op {
                let s = *slot as usize;
                if q.model.keys().any(|k| *k < s) && q.model.keys().any(|k| *k > s) {
                    deinits_between += 1;
                }
            }
        }
    }
    if reached_full {
        l.count("sequences_reaching_all_88_initialized");
    }
    if inits >= 1 && deinits_between >= 1 {
        l.count("nontrivial_sequences");
        l.nontrivial(hash_of(c));
        l.sample(|| json!({"tick_spacing": c.tick_spacing, "array_no": c.array_no, "n_ops": c.ops.len(), "ops_head": c.ops.iter().take(6).collect::<Vec<_>>()}));
    }
    Ok(())
}

fn val_strategy() -> BoxedStrategy<TickVal> {
    (any::<i128>(), any::<u128>(), any::<u128>(), any::<u128>(), any::<[u64; 3]>()).prop_map(|(net, gross, fa, fb, r)| TickVal { net, gross: gross | 1, fa, fb, r }).boxed()
}

fn slot_strategy() -> BoxedStrategy<(i16, i8)> {
    prop_oneof![
        16 => (0i16..88, Just(0i8)),
        4 => (prop::sample::select(vec![0i16, 1, 63, 64, 65, 86, 87]), Just(0i8)),
        1 => (prop::sample::select(vec![-1i16, 88, 89, -2, 200]), Just(0i8)),
        1 => (0i16..88, prop_oneof![Just(1i8), Just(-1i8)]),
    ]
    .boxed()
}

fn op_strategy() -> BoxedStrategy<ArrOp> {
    prop_oneof![
        5 => (slot_strategy(), val_strategy()).prop_map(|((slot, skew), val)| ArrOp::Set { slot, skew, val }),
        3 => slot_strategy().prop_map(|(slot, skew)| ArrOp::Deinit { slot, skew }),
        2 => slot_strategy().prop_map(|(slot, skew)| ArrOp::Get { slot, skew }),
        3 => (slot_strategy(), any::<bool>()).prop_map(|((slot, skew), a_to_b)| ArrOp::NextInit { slot, skew, a_to_b }),
    ]
    .boxed()
}

fn case_strategy() -> BoxedStrategy<ArrCase> {
    prop::sample::select(vec![1u16, 2, 64, 128, 32768])
        .prop_flat_map(|ts| {
            let n = 88 * ts as i32;
            let min_no = MIN_TICK.div_euclid(n);
            let max_no = MAX_TICK.div_euclid(n);
            let prefill = prop_oneof![
                5 => Just(None),
                1 => (prop::collection::vec(0i16..88, 0..=3), any::<u8>()).prop_map(|(missing, seed)| Some(Prefill { missing, seed })),
            ];
            let few = || prop::collection::vec(0i16..88, 0..=3);
            let mac = prop_oneof![
                2 => (any::<u8>(), few()).prop_map(|(seed, skip)| Macro::FillAll { seed, skip }),
                2 => (any::<u8>(), few()).prop_map(|(seed, keep)| Macro::DrainAll { seed, keep }),
                1 => (0i16..88, prop_oneof![1 => 1u8..=10, 1 => 80u8..=100]).prop_map(|(slot, times)| Macro::Cycle { slot, times }),
            ];
            let macros = prop_oneof![6 => Just(vec![]), 1 => prop::collection::vec(mac, 1..=4)];
            (Just(ts), prop_oneof![3 => min_no..=max_no, 2 => Just(min_no), 1 => Just(max_no), 2 => -2i32..=1], prop::collection::vec(op_strategy(), 1..=120), prefill, macros)
        })
        .prop_map(|(tick_spacing, array_no, ops, prefill, macros)| ArrCase { tick_spacing, array_no, ops, prefill, macros })
        .boxed()
}

/// exhaustive part: every subset of the boundary slot set as initial state x every single op on those slots
pub const BOUNDARY_SLOTS: [i16; 7] = [0, 1, 63, 64, 65, 86, 87];

pub fn exhaustive_item(i: u64, l: &mut Local) -> Result<(), (serde_json::Value, String)> {
    // i enumerates (configuration, subset): 4 configurations x 128 subsets
    let cfgs: [(u16, i32); 4] = [(1, 0), (64, -79), (2, 5), (32768, -1)];
    let (ts, no) = cfgs[(i / 128) as usize];
    let subset = (i % 128) as u32;
    let val = |k: i16| TickVal { net: -(k as i128) * 1_000_003, gross: (k as u128 + 1) << 70, fa: u128::MAX - k as u128, fb: k as u128, r: [k as u64, u64::MAX, 1] };
    let mut single_ops: Vec<ArrOp> = vec![];
    for s in BOUNDARY_SLOTS {
        single_ops.push(ArrOp::Set { slot: s, skew: 0, val: val(s + 100) });
        single_ops.push(ArrOp::Deinit { slot: s, skew: 0 });
        single_ops.push(ArrOp::Get { slot: s, skew: 0 });
        single_ops.push(ArrOp::NextInit { slot: s, skew: 0, a_to_b: true });
        single_ops.push(ArrOp::NextInit { slot: s, skew: 0, a_to_b: false });
    }
    single_ops.push(ArrOp::NextInit { slot: -1, skew: 0, a_to_b: false });
    single_ops.push(ArrOp::NextInit { slot: -1, skew: 0, a_to_b: true });
    single_ops.push(ArrOp::NextInit { slot: 88, skew: 0, a_to_b: true });
    for op in &single_ops {
        let mut q = Quad::new(ts, start_of(ts, no));
        let case = json!({"tick_spacing": ts, "array_no": no, "subset": subset, "op": op});
        for (b, s) in BOUNDARY_SLOTS.iter().enumerate() {
            if subset >> b & 1 == 1 {
                q.apply(&ArrOp::Set { slot: *s, skew: 0, val: val(*s) }, l).map_err(|e| (case.clone(), e))?;
            }
        }
        q.apply(op, l).map_err(|e| (case.clone(), e))?;
        // and undo / redo keeps everything consistent
        q.apply(&ArrOp::Get { slot: 64, skew: 0 }, l).map_err(|e| (case.clone(), e))?;
    }
    l.nontrivial(i);
    l.sample(|| json!({"tick_spacing": ts, "array_no": no, "initial_subset_bits": subset, "single_ops": single_ops.len()}));
    Ok(())
}

// ---------------------------------------------------------------------------------------------------
// instruction level: the tick arrays the PROGRAM writes through its instructions (fixed and dynamic side by side in one pool, positions
// whose two bounds lie in arrays of different kinds) answer like the fixed array with the same contents and keep the encoding rules

/// one tick-array account as the program left it: encoding rules, and all accessors against the harness's own decoding
pub fn verify_program_array(data: &[u8], spacing: u16, l: &mut Local) -> Result<(), String> {
    let a = decode::tick_array(data)?;
    let start = a.start_tick_index;
    let ts = spacing as i32;
    let init: Vec<usize> = (0..88).filter(|i| a.ticks[*i].initialized).collect();
    if a.dynamic {
        let mut bm = 0u128;
        for i in &init {
            bm |= 1u128 << i;
        }
        if a.bitmap != bm {
            return Err(format!("bitmap {:#x} but the initialized slots are {:#x}", a.bitmap, bm));
        }
        if a.used_len != 148 + 112 * init.len() || data.len() != a.used_len {
            return Err(format!("account length {} / used length {} for {} initialized ticks (148 + 112 n = {})", data.len(), a.used_len, init.len(), 148 + 112 * init.len()));
        }
    }
    // the fixed array with the same contents
    let mut fixed = vec![0u8; decode::FIXED_TICK_ARRAY_LEN];
    fixed[..8].copy_from_slice(FixedTickArray::DISCRIMINATOR);
    fixed[8..12].copy_from_slice(&start.to_le_bytes());
    fixed[9956..9988].copy_from_slice(&a.whirlpool.to_bytes());
    for i in &init {
        let t = &a.ticks[*i];
        let o = 12 + 113 * i;
        fixed[o] = 1;
        fixed[o + 1..o + 17].copy_from_slice(&t.liquidity_net.to_le_bytes());
        fixed[o + 17..o + 33].copy_from_slice(&t.liquidity_gross.to_le_bytes());
        fixed[o + 33..o + 49].copy_from_slice(&t.fee_growth_outside_a.to_le_bytes());
        fixed[o + 49..o + 65].copy_from_slice(&t.fee_growth_outside_b.to_le_bytes());
        for k in 0..3 {
            fixed[o + 65 + 16 * k..o + 81 + 16 * k].copy_from_slice(&t.reward_growths_outside[k].to_le_bytes());
        }
    }
    if decode::tick_array(&fixed)?.ticks != a.ticks {
        return Err("harness: fixed image does not decode to the same ticks".into());
    }
    let mut buf = data.to_vec();
    buf.resize(DYN_BUF.max(data.len()), 0);
    let conv_a = |t: whirlpool::state::Tick| TickD {
        initialized: t.initialized,
        liquidity_net: t.liquidity_net,
        liquidity_gross: t.liquidity_gross,
        fee_growth_outside_a: t.fee_growth_outside_a,
        fee_growth_outside_b: t.fee_growth_outside_b,
        reward_growths_outside: t.reward_growths_outside,
    };
    let conv_p = |t: &whirlpool::pinocchio::verif_export::whirlpool::tick_array::tick::MemoryMappedTick| TickD {
        initialized: t.initialized(),
        liquidity_net: t.liquidity_net(),
        liquidity_gross: t.liquidity_gross(),
        fee_growth_outside_a: t.fee_growth_outside_a(),
        fee_growth_outside_b: t.fee_growth_outside_b(),
        reward_growths_outside: t.reward_growths_outside(),
    };
    let fx: &FixedTickArray = bytemuck::from_bytes(&fixed[8..]);
    for slot in 0..88i32 {
        let tick = start + slot * ts;
        if !(MIN_TICK..=MAX_TICK).contains(&tick) {
            continue;
        }
        let want = a.ticks[slot as usize].clone();
        let reference = fx.get_tick(tick, spacing).map(conv_a).map_err(anchor_code);
        if reference.as_ref().ok() != Some(&want) {
            return Err(format!("harness: fixed reference get_tick({tick}) = {reference:?}"));
        }
        let got: [Result<TickD, u64>; 2] = if a.dynamic {
            let p = unsafe { &*(buf.as_ptr() as *const MemoryMappedDynamicTickArray) };
            [DynamicTickArrayLoader::load(&buf[8..]).get_tick(tick, spacing).map(conv_a).map_err(anchor_code), p.get_tick(tick, spacing).map(conv_p).map_err(u64::from)]
        } else {
            let p = unsafe { &*(buf.as_ptr() as *const MemoryMappedFixedTickArray) };
            let t: &FixedTickArray = bytemuck::from_bytes(&buf[8..8 + 9980]);
            [t.get_tick(tick, spacing).map(conv_a).map_err(anchor_code), p.get_tick(tick, spacing).map(conv_p).map_err(u64::from)]
        };
        for (i, g) in got.iter().enumerate() {
            if g.as_ref().ok() != Some(&want) {
                return Err(format!("get_tick({tick}) through the {} accessor on the program-written {} array: {g:?}, the fixed array with the same contents gives {want:?}", ["Anchor", "Pinocchio"][i], if a.dynamic { "dynamic" } else { "fixed" }));
            }
        }
        for a_to_b in [true, false] {
            let r_fixed = fx.get_next_init_tick_index(tick, spacing, a_to_b).map_err(anchor_code);
            let r_prog = if a.dynamic {
                DynamicTickArrayLoader::load(&buf[8..]).get_next_init_tick_index(tick, spacing, a_to_b).map_err(anchor_code)
            } else {
                let t: &FixedTickArray = bytemuck::from_bytes(&buf[8..8 + 9980]);
                t.get_next_init_tick_index(tick, spacing, a_to_b).map_err(anchor_code)
            };
            if r_fixed != r_prog {
                return Err(format!("next initialized tick from {tick} (a_to_b={a_to_b}): program-written array answers {r_prog:?}, the fixed array with the same contents {r_fixed:?}"));
            }
        }
    }
    l.count(if a.dynamic { "program_written_dynamic_arrays_verified" } else { "program_written_fixed_arrays_verified" });
    if a.dynamic && !init.is_empty() {
        l.count("program_written_dynamic_arrays_with_initialized_ticks");
    }
    Ok(())
}

#[derive(Default)]
pub struct ArrayMonitor {
    pub mixed_positions: u32,
    pub checks: u32,
}

impl super::hist::Monitor for ArrayMonitor {
    fn after(&mut self, h: &crate::history::Hist, _pre: &crate::history::Snap, _post: &crate::history::Snap, op: &crate::history::Op, r: &crate::history::OpResult, l: &mut Local) -> Result<(), String> {
        use crate::history::{Did, Op};
        if r.did != Did::Ok || !matches!(op.effective(), Op::Increase { .. } | Op::Decrease { .. } | Op::Reposition { .. } | Op::Swap { .. } | Op::SwapBack { .. } | Op::SwapExact { .. } | Op::ReinitArray { .. }) {
            return Ok(());
        }
        let pk = h.w.pools[h.pool].key;
        for s in &h.array_starts {
            let data = h.w.bank.get(&crate::world::tick_array_pda(&pk, *s)).data;
            verify_program_array(&data, h.spec.tick_spacing, l).map_err(|e| format!("tick array {s} (tick spacing {}): {e}", h.spec.tick_spacing))?;
        }
        self.checks += 1;
        if let (Some(p), Op::Increase { .. } | Op::Decrease { .. } | Op::Reposition { .. }) = (r.pos, op.effective()) {
            let info = &h.w.positions[p];
            let ts = h.spec.tick_spacing;
            let kind = |t: i32| crate::decode::tick_array(&h.w.bank.get(&crate::world::tick_array_pda(&pk, crate::world::array_start(t, ts))).data).map(|a| a.dynamic).ok();
            if let (Some(a), Some(b2)) = (kind(info.lower), kind(info.upper)) {
                if a != b2 {
                    self.mixed_positions += 1;
                }
            }
        }
        Ok(())
    }
}

pub fn check_program_arrays(case: &crate::history::HistoryCase, l: &mut Local) -> Result<(), String> {
    let mut m = ArrayMonitor::default();
    let stats = super::hist::run_history(case, &mut [&mut m], l)?;
    super::hist::count_stats(&stats, l);
    l.count_n("array_sweeps", m.checks as u64);
    l.count_n("liquidity_changes_of_positions_bounded_in_arrays_of_different_kinds", m.mixed_positions as u64);
    if m.mixed_positions > 0 && stats.dynamic_arrays > 0 {
        l.nontrivial(hash_of(case));
        l.sample(|| json!({"spec": case.spec, "n_ops": case.ops.len(), "stats": format!("{stats:?}")}));
    }
    Ok(())
}

pub fn def() -> CheckDef {
    CheckDef {
        id: "C13",
        rule: "function level on raw account bytes: the same generated sequence of tick updates (initialize / modify / de-initialize, valid and invalid indexes) and queries \
               (get, next-initialized in both directions incl. the shifted search) is applied to an abstract map and to four implementations (Anchor fixed, Anchor \
               dynamic, Pinocchio fixed, Pinocchio dynamic); after every update all four buffers are decoded by the harness's own reader and compared with the map, \
               dynamic encodings must be well formed (bitmap == initialized set, 113/1 bytes per slot, used length 148+112n) and byte-equal between Anchor and \
               Pinocchio; answers and error codes must agree.  Exhaustive part: every subset of the slot set {0,1,63,64,65,86,87} as initial state x every single \
               op on those slots, for 4 (spacing, start) configurations incl. the array straddling the minimum tick.  One random sequence in six starts from an array with all but 0..3 slots initialized (filled in ascending, descending or stride order), so the completely full array and its 10 004-byte encoding are reached; one in seven also runs long regular stretches first (fill all, drain all, 80-100 initialize/de-initialize cycles of one slot), which move the bytes of removed ticks through the slack behind the used part of the buffer.  Instruction level (program_written_arrays): generated histories through the real entrypoint on pools holding fixed and dynamic arrays side by side; after every liquidity change and swap every tick-array ACCOUNT of the pool must keep the encoding rules (bitmap == initialized slots, account length == 148 + 112 n) and answer get_tick (Anchor and Pinocchio accessors) and next-initialized queries from every slot in both directions exactly like the fixed array with the same contents.  Non-trivial random sequence = >=1 initialize \
               and >=1 de-initialize of a slot with initialized slots on both sides.",
        assumptions: vec!["H1 re-export hook for the Pinocchio types", "buffers carry the 10 KiB slack the loaders assume; de-initializing updates are all-default (what the program produces)"],
        subs: vec![
            Sub {
                name: "exhaustive_boundary_subsets",
                run: Box::new(|ctx| run_enum(ctx, "exhaustive_boundary_subsets", 4 * 128, exhaustive_item)),
                replay: Box::new(|v| {
                    let ts = v["tick_spacing"].as_u64().ok_or("bad case")? as u16;
                    let no = v["array_no"].as_i64().ok_or("bad case")? as i32;
                    let subset = v["subset"].as_u64().ok_or("bad case")? as u32;
                    let op: ArrOp = serde_json::from_value(v["op"].clone()).map_err(|e| e.to_string())?;
                    let mut l = Local::default();
                    let mut q = Quad::new(ts, start_of(ts, no));
                    let val = |k: i16| TickVal { net: -(k as i128) * 1_000_003, gross: (k as u128 + 1) << 70, fa: u128::MAX - k as u128, fb: k as u128, r: [k as u64, u64::MAX, 1] };
                    for (b, s) in BOUNDARY_SLOTS.iter().enumerate() {
                        if subset >> b & 1 == 1 {
                            q.apply(&ArrOp::Set { slot: *s, skew: 0, val: val(*s) }, &mut l)?;
                        }
                    }
                    q.apply(&op, &mut l)
                }),
            },
            sub("random_sequences", 200_000, 5_000_000, case_strategy, |c: &ArrCase, l: &mut Local| check_case(c, l)),
            sub("program_written_arrays", 12_000, 300_000, || crate::history::history_strategy(false, false, 30), |c: &crate::history::HistoryCase, l: &mut Local| check_program_arrays(c, l)),
        ],
    }
}
