//! C20 — SDK quotes equal what the program executes on the same state.
use crate::gen;
use crate::model::*;
use crate::runner::*;
use crate::world2::AfConstants;
use orca_whirlpools_core as sdk;
use proptest::prelude::*;
use serde::{Deserialize, Serialize};
use serde_json::json;
use std::cell::RefCell;
use std::cell::RefMut;
use whirlpool::manager::swap_manager::swap;
use whirlpool::math as pm;
use whirlpool::state::{AdaptiveFeeConstants, AdaptiveFeeInfo, AdaptiveFeeVariables, FixedTickArray, Tick, TickArrayType, Whirlpool};
use whirlpool::util::SwapTickSequence;

const KF_SHL: &str = "sdk-token-math-ok-where-program-overflows";
const KF_DIV: &str = "program-u256-division-panics-where-sdk-quotes";

fn anchor_code(e: anchor_lang::error::Error) -> u64 {
    let pe: solana_program::program_error::ProgramError = e.into();
    pe.into()
}

/// pseudo error code: the program's swap panicked (message in LAST_PROGRAM_PANIC)
pub const PROGRAM_PANICKED: u64 = u64::MAX - 7;
thread_local! {
    pub static LAST_PROGRAM_PANIC: std::cell::RefCell<String> = const { std::cell::RefCell::new(String::new()) };
}

fn quiet<R>(f: impl FnOnce() -> R + std::panic::UnwindSafe) -> Result<R, ()> {
    crate::rt::try_call(f).map_err(|_| ())
}

// ---------------------------------------------------------------------------------------------------
// swap sequences on shared state

#[derive(Clone, Debug, Serialize, Deserialize, Hash)]
pub struct SimPos {
    pub lo: i16,
    pub hi: i16,
    #[serde(with = "crate::ser::u128s")]
    pub liquidity: u128,
}

#[derive(Clone, Debug, Serialize, Deserialize, Hash)]
pub struct SimSwap {
    pub a_to_b: bool,
    pub exact_in: bool,
    pub amount: u64,
    /// 0 none, 1 price of a usable tick `limit_arg` spacings away, 2 offset in price units, 3 protocol bound
    pub limit_kind: u8,
    pub limit_arg: u32,
    pub dt: u32,
    pub slippage_bps: u16,
}

#[derive(Clone, Debug, Serialize, Deserialize, Hash)]
pub struct SimCase {
    pub tick_spacing: u16,
    pub start_tick: i32,
    pub start_price_offset: i8,
    pub fee_rate: u16,
    pub protocol_fee_rate: u16,
    pub positions: Vec<SimPos>,
    pub adaptive: Option<AfConstants>,
    pub swaps: Vec<SimSwap>,
}

pub struct Sim {
    pub wp: Whirlpool,
    pub base: i32,
    pub arrays: Vec<RefCell<FixedTickArray>>, // 7 arrays: base-3n .. base+3n
    pub oracle: Option<AdaptiveFeeInfo>,
    pub ts: u64,
}

fn zero_array(start: i32) -> FixedTickArray {
    let mut a: FixedTickArray = unsafe { std::mem::zeroed() };
    a.start_tick_index = start;
    a
}

fn facade(a: &FixedTickArray) -> sdk::TickArrayFacade {
    let mut ticks = [sdk::TickFacade::default(); 88];
    let src = a.ticks;
    for i in 0..88 {
        let t: Tick = src[i];
        ticks[i] = sdk::TickFacade {
            initialized: t.initialized,
            liquidity_net: t.liquidity_net,
            liquidity_gross: t.liquidity_gross,
            fee_growth_outside_a: t.fee_growth_outside_a,
            fee_growth_outside_b: t.fee_growth_outside_b,
            reward_growths_outside: t.reward_growths_outside,
        };
    }
    sdk::TickArrayFacade { start_tick_index: a.start_tick_index, ticks }
}

pub fn constants_valid(ts: u16, k: &AfConstants) -> bool {
    AdaptiveFeeConstants::validate_constants(ts, k.filter_period, k.decay_period, k.reduction_factor, k.adaptive_fee_control_factor, k.max_volatility_accumulator, k.tick_group_size, k.major_swap_threshold_ticks)
}

impl Sim {
    pub fn build(c: &SimCase) -> Sim {
    let ts = c.tick_spacing;
    let tsi = ts as i32;
    let n = 88 * tsi;
    let t0 = c.start_tick.clamp(MIN_TICK, MAX_TICK);
    let price = ((pm::sqrt_price_from_tick_index(t0) as i128 + c.start_price_offset as i128).max(MIN_SQRT_PRICE as i128) as u128).min(MAX_SQRT_PRICE);
    let tick_current = pm::tick_index_from_sqrt_price(&price);
    let base = tick_current.div_euclid(n) * n;
    let min_start = MIN_TICK.div_euclid(n) * n;
    let mut arrays = vec![];
    for k in -3i32..=3 {
        let s = base + k * n;
        if s < min_start || s > MAX_TICK {
            continue;
        }
        arrays.push(RefCell::new(zero_array(s)));
    }
    // positions -> tick contents and pool liquidity
    let mut liquidity: u128 = 0;
    let unit0 = tick_current.div_euclid(tsi);
    for p in &c.positions {
        // (i16::MIN, i16::MAX) stands for the full range
        let (lo, hi) = if (p.lo, p.hi) == (i16::MIN, i16::MAX) { (MIN_TICK / tsi * tsi, MAX_TICK / tsi * tsi) } else { ((unit0 + p.lo as i32) * tsi, (unit0 + p.hi as i32) * tsi) };
        if lo >= hi || lo < MIN_TICK || hi > MAX_TICK {
            continue;
        }
        let find = |t: i32| arrays.iter().position(|a| {
            let s = a.borrow().start_tick_index;
            t >= s && t < s + n
        });
        // a bound outside the seven arrays cannot be reached by any swap of this simulation: its tick needs no storage
        for (idx, t, sign) in [(find(lo), lo, 1i128), (find(hi), hi, -1i128)] {
            let Some(idx) = idx else { continue };
            let mut a = arrays[idx].borrow_mut();
            let off = ((t - a.start_tick_index) / tsi) as usize;
            let mut tk: Tick = a.ticks[off];
            let Some(g) = tk.liquidity_gross.checked_add(p.liquidity) else { continue };
            tk.initialized = true;
            tk.liquidity_gross = g;
            tk.liquidity_net = tk.liquidity_net.saturating_add(sign * p.liquidity as i128);
            a.ticks[off] = tk;
        }
        if lo <= tick_current && tick_current < hi {
            liquidity = liquidity.saturating_add(p.liquidity);
        }
    }
    let mut wp = Whirlpool::default();
    wp.tick_spacing = ts;
    wp.fee_rate = c.fee_rate.min(60000);
    wp.protocol_fee_rate = c.protocol_fee_rate.min(2500);
    wp.liquidity = liquidity;
    wp.sqrt_price = price;
    wp.tick_current_index = tick_current;
    wp.reward_last_updated_timestamp = 1_700_000_000;
    let adaptive = c.adaptive.as_ref().filter(|k| constants_valid(ts, k));
    wp.fee_tier_index_seed = if adaptive.is_some() { (1024u16 + ts % 1000).to_le_bytes() } else { ts.to_le_bytes() };
    let oracle = adaptive.map(|k| AdaptiveFeeInfo {
        constants: AdaptiveFeeConstants {
            filter_period: k.filter_period,
            decay_period: k.decay_period,
            reduction_factor: k.reduction_factor,
            adaptive_fee_control_factor: k.adaptive_fee_control_factor,
            max_volatility_accumulator: k.max_volatility_accumulator,
            tick_group_size: k.tick_group_size,
            major_swap_threshold_ticks: k.major_swap_threshold_ticks,
            reserved: [0; 16],
        },
        variables: AdaptiveFeeVariables::default(),
    });
    Sim { wp, base, arrays, oracle, ts: 1_700_000_000 }
    }

    pub fn resolve_limit(&self, sw: &SimSwap) -> u128 {
        let tsi = self.wp.tick_spacing as i32;
        let cur = self.wp.tick_current_index;
        match sw.limit_kind % 4 {
            0 => 0,
            1 => {
                let t = if sw.a_to_b { cur.div_euclid(tsi) * tsi - (sw.limit_arg % 40) as i32 * tsi } else { cur.div_euclid(tsi) * tsi + (1 + (sw.limit_arg % 40) as i32) * tsi };
                pm::sqrt_price_from_tick_index(t.clamp(MIN_TICK, MAX_TICK))
            }
            2 => {
                if sw.a_to_b {
                    self.wp.sqrt_price.saturating_sub((sw.limit_arg as u128) << 20).max(MIN_SQRT_PRICE)
                } else {
                    self.wp.sqrt_price.saturating_add((sw.limit_arg as u128) << 20).min(MAX_SQRT_PRICE)
                }
            }
            _ => {
                if sw.a_to_b {
                    MIN_SQRT_PRICE
                } else {
                    MAX_SQRT_PRICE
                }
            }
        }
    }

    /// indexes of the (up to three) arrays a swap from the current tick uses, in traversal order
    pub fn arrays_for(&self, a_to_b: bool) -> Vec<usize> {
        let starts = crate::world::swap_array_starts(self.wp.tick_current_index, self.wp.tick_spacing, a_to_b);
        let mut use_idx = vec![];
        for st in starts.iter() {
            match self.arrays.iter().position(|a| a.borrow().start_tick_index == *st) {
                Some(ix) => use_idx.push(ix),
                None => break,
            }
        }
        use_idx
    }

    /// the program's swap on this state (tick arrays are updated in place); returns the H2 step trace as well
    pub fn program_swap(&self, use_idx: &[usize], sw: &SimSwap, limit: u128) -> (Result<Box<whirlpool::manager::swap_manager::PostSwapUpdate>, u64>, Vec<whirlpool::verif_trace::StepTrace>) {
        let _ = whirlpool::verif_trace::take();
        let prog = {
            let mut refs: Vec<RefMut<dyn TickArrayType>> = use_idx.iter().map(|ix| RefMut::map(self.arrays[*ix].borrow_mut(), |t| t as &mut dyn TickArrayType)).collect();
            let ta2 = if refs.len() > 2 { Some(refs.remove(2)) } else { None };
            let ta1 = if refs.len() > 1 { Some(refs.remove(1)) } else { None };
            let ta0 = refs.remove(0);
            let mut seq = SwapTickSequence::new(ta0, ta1, ta2);
            // a panic aborts the transaction on-chain: the program refuses the swap
            match crate::rt::try_call(|| swap(&self.wp, &mut seq, sw.amount, limit, sw.exact_in, sw.a_to_b, self.ts, &self.oracle).map_err(anchor_code)) {
                Ok(r) => r,
                Err(m) => {
                    LAST_PROGRAM_PANIC.with(|p| *p.borrow_mut() = m);
                    Err(PROGRAM_PANICKED)
                }
            }
        };
        (prog, whirlpool::verif_trace::take())
    }

    pub fn apply(&mut self, p: &whirlpool::manager::swap_manager::PostSwapUpdate, a_to_b: bool) {
        self.wp.liquidity = p.next_liquidity;
        self.wp.tick_current_index = p.next_tick_index;
        self.wp.sqrt_price = p.next_sqrt_price;
        if a_to_b {
            self.wp.fee_growth_global_a = p.next_fee_growth_global;
            self.wp.protocol_fee_owed_a = self.wp.protocol_fee_owed_a.wrapping_add(p.next_protocol_fee);
        } else {
            self.wp.fee_growth_global_b = p.next_fee_growth_global;
            self.wp.protocol_fee_owed_b = self.wp.protocol_fee_owed_b.wrapping_add(p.next_protocol_fee);
        }
        self.wp.reward_infos = p.next_reward_infos;
        self.wp.reward_last_updated_timestamp = self.ts;
        if let Some(n) = p.next_adaptive_fee_info.clone() {
            self.oracle = Some(n);
        }
    }
}

pub fn check_sim(c: &SimCase, l: &mut Local) -> Result<(), String> {
    let ts = c.tick_spacing;
    let mut s = Sim::build(c);
    let mut crossings_total = 0u32;
    let mut ok_swaps = 0u32;
    for (i, sw) in c.swaps.iter().enumerate() {
        s.ts += sw.dt as u64;
        let limit = s.resolve_limit(sw);
        let use_idx = s.arrays_for(sw.a_to_b);
        if use_idx.is_empty() {
            l.count("no_array_for_current_tick");
            break;
        }
        // SDK first (on a snapshot of the same values)
        let facades: Vec<sdk::TickArrayFacade> = use_idx.iter().map(|ix| facade(&s.arrays[*ix].borrow())).collect();
        let wpf = sdk::WhirlpoolFacade {
            fee_tier_index_seed: s.wp.fee_tier_index_seed,
            tick_spacing: ts,
            fee_rate: s.wp.fee_rate,
            protocol_fee_rate: s.wp.protocol_fee_rate,
            liquidity: s.wp.liquidity,
            sqrt_price: s.wp.sqrt_price,
            tick_current_index: s.wp.tick_current_index,
            fee_growth_global_a: s.wp.fee_growth_global_a,
            fee_growth_global_b: s.wp.fee_growth_global_b,
            reward_last_updated_timestamp: s.wp.reward_last_updated_timestamp,
            reward_infos: Default::default(),
        };
        let of = s.oracle.as_ref().map(|o| sdk::OracleFacade {
            trade_enable_timestamp: 0,
            adaptive_fee_constants: sdk::AdaptiveFeeConstantsFacade {
                filter_period: o.constants.filter_period,
                decay_period: o.constants.decay_period,
                reduction_factor: o.constants.reduction_factor,
                adaptive_fee_control_factor: o.constants.adaptive_fee_control_factor,
                max_volatility_accumulator: o.constants.max_volatility_accumulator,
                tick_group_size: o.constants.tick_group_size,
                major_swap_threshold_ticks: o.constants.major_swap_threshold_ticks,
            },
            adaptive_fee_variables: sdk::AdaptiveFeeVariablesFacade {
                last_reference_update_timestamp: o.variables.last_reference_update_timestamp,
                last_major_swap_timestamp: o.variables.last_major_swap_timestamp,
                volatility_reference: o.variables.volatility_reference,
                tick_group_index_reference: o.variables.tick_group_index_reference,
                volatility_accumulator: o.variables.volatility_accumulator,
            },
        });
        let mut fa: [Option<sdk::TickArrayFacade>; 6] = [None, None, None, None, None, None];
        for (k, f) in facades.iter().enumerate() {
            fa[k] = Some(*f);
        }
        let (amount, a_to_b, exact_in, now) = (sw.amount, sw.a_to_b, sw.exact_in, s.ts);
        let sdk_res = quiet(move || {
            let seq = sdk::TickArraySequence::new(fa, ts)?;
            sdk::compute_swap(amount, limit, wpf, seq, a_to_b, exact_in, now, of.map(|o| o.into()))
        });
        // program
        let (prog, steps) = s.program_swap(&use_idx, sw, limit);
        let what = format!("swap #{i} {sw:?} (limit {limit})");
        match (&prog, &sdk_res) {
            (Ok(p), Ok(Ok(q))) => {
                let total_fee = p.lp_fee as u128 + p.next_protocol_fee as u128;
                if (p.amount_a, p.amount_b) != (q.token_a, q.token_b) || total_fee != q.trade_fee as u128 {
                    return Err(format!("{what}: program (a {}, b {}, fee {total_fee}) vs SDK (a {}, b {}, fee {})", p.amount_a, p.amount_b, q.token_a, q.token_b, q.trade_fee));
                }
                // the quote's fee-rate range is not part of the property's statement (amounts and total fee are): tracked only
                let traded: Vec<u32> = steps.iter().map(|st| st.fee_rate).collect();
                if let (Some(mn), Some(mx)) = (traded.iter().min(), traded.iter().max()) {
                    if (q.applied_fee_rate_min, q.applied_fee_rate_max) != (*mn, *mx) {
                        l.count("fee_rate_range_differs_with_equal_amounts");
                    }
                }
                // slippage-adjusted bound is on the safe side of the estimate
                if sw.exact_in {
                    let est = if sw.a_to_b { q.token_b } else { q.token_a };
                    if let Ok(min) = sdk::try_get_min_amount_with_slippage_tolerance(est, sw.slippage_bps % 10001) {
                        if min > est {
                            return Err(format!("{what}: slippage-adjusted minimum {min} above the estimate {est}"));
                        }
                    }
                } else {
                    let est = if sw.a_to_b { q.token_a } else { q.token_b };
                    if let Ok(max) = sdk::try_get_max_amount_with_slippage_tolerance(est, sw.slippage_bps % 10001) {
                        if max < est {
                            return Err(format!("{what}: slippage-adjusted maximum {max} below the estimate {est}"));
                        }
                    }
                }
                ok_swaps += 1;
                let cr = steps.iter().filter(|st| st.crossed_initialized_tick.is_some()).count() as u32;
                crossings_total += cr;
                l.count(if s.oracle.is_some() { "agree_ok/adaptive" } else { "agree_ok/static" });
            }
            (Ok(p), Ok(Err(e))) => return Err(format!("{what}: the program succeeds (a {}, b {}) but the SDK fails with {e:?}", p.amount_a, p.amount_b)),
            (Ok(p), Err(())) => return Err(format!("{what}: the program succeeds (a {}, b {}) but the SDK panics", p.amount_a, p.amount_b)),
            (Err(code), Ok(Ok(q))) => {
                // allowed: partial exact-out fill, running off the supplied arrays
                if *code != 6057 && *code != 6038 {
                    let why = if *code == PROGRAM_PANICKED { LAST_PROGRAM_PANIC.with(|p| p.borrow().clone()) } else { format!("{code}") };
                    if *code == PROGRAM_PANICKED && why.contains("u256_math") && crate::driver::is_known("C20", KF_DIV) {
                        l.known_hit(KF_DIV);
                        break;
                    }
                    return Err(format!("{what}: the program refuses with {why} but the SDK quotes (a {}, b {})", q.token_a, q.token_b));
                }
                l.count(&format!("sdk_quotes_where_program_refuses/{code}"));
            }
            (Err(code), _) => l.count(&format!("both_refuse/{code}")),
        }
        // advance the shared state with the program's result
        match prog {
            Ok(p) => s.apply(&p, sw.a_to_b),
            Err(_) => {
                // a failed swap may have touched tick arrays in place; rebuild is not needed because the program's
                // tick updates happen only on crossings that precede the failure; to stay exact we stop the sequence here
                break;
            }
        }
    }
    let _ = s.base;
    if ok_swaps >= 1 && crossings_total >= 1 {
        l.count("nontrivial_sequences");
        l.nontrivial(hash_of(c));
        l.sample(|| json!({"tick_spacing": ts, "adaptive": c.adaptive.is_some(), "positions": c.positions.len(), "swaps": c.swaps.iter().take(4).collect::<Vec<_>>(), "ok_swaps": ok_swaps, "crossings": crossings_total}));
    }
    Ok(())
}

fn sim_case() -> BoxedStrategy<SimCase> {
    let pos = (-150i16..150, 1i16..120, prop_oneof![6 => (20u32..70).prop_map(|b| 1u128 << b), 2 => gen::bits_u128(100), 1 => gen::bits_u128(126)], 0u8..8)
        .prop_map(|(lo, w, liquidity, full)| if full == 0 { SimPos { lo: i16::MIN, hi: i16::MAX, liquidity } } else { SimPos { lo, hi: lo.saturating_add(w), liquidity } });
    let sw = (any::<bool>(), any::<bool>(), crate::history::swap_amount_strategy(), 0u8..4, any::<u32>(), prop_oneof![3 => 0u32..10, 3 => 0u32..700, 1 => 0u32..100_000], any::<u16>())
        .prop_map(|(a_to_b, exact_in, amount, limit_kind, limit_arg, dt, slippage_bps)| SimSwap { a_to_b, exact_in, amount, limit_kind, limit_arg, dt, slippage_bps });
    let adaptive = prop_oneof![
        2 => Just(None),
        3 => (1u16..100, 100u16..2000, 0u16..10_000, prop_oneof![1 => Just(0u32), 4 => 1u32..100_000], 1u32..500_000, prop::sample::select(vec![1u16, 2, 4, 8, 16, 32, 64, 128]), 1u16..2000)
            .prop_map(|(filter_period, decay_period, reduction_factor, adaptive_fee_control_factor, max_volatility_accumulator, tick_group_size, major_swap_threshold_ticks)| Some(AfConstants {
                filter_period,
                decay_period,
                reduction_factor,
                adaptive_fee_control_factor,
                max_volatility_accumulator,
                tick_group_size,
                major_swap_threshold_ticks,
            })),
    ];
    (
        prop_oneof![5 => prop::sample::select(vec![1u16, 8, 64, 128]), 1 => prop::sample::select(vec![32768u16, 32896])],
        prop_oneof![5 => -50_000i32..50_000, 1 => gen::any_tick(), 1 => (0i32..30_000, any::<bool>()).prop_map(|(d, up)| if up { MAX_TICK - d } else { MIN_TICK + d })],
        -1i8..=1,
        gen::fee_rate(60000).prop_map(|r| r as u16),
        0u16..=2500,
        prop::collection::vec(pos, 0..8),
        adaptive,
        prop::collection::vec(sw, 1..10),
    )
        .prop_map(|(tick_spacing, start_tick, start_price_offset, fee_rate, protocol_fee_rate, positions, adaptive, swaps)| SimCase {
            tick_spacing,
            start_tick,
            start_price_offset,
            fee_rate,
            protocol_fee_rate,
            positions,
            adaptive,
            swaps,
        })
        .boxed()
}

// ---------------------------------------------------------------------------------------------------
// token / price math

#[derive(Clone, Debug, Serialize, Deserialize, Hash)]
pub struct MathCase {
    #[serde(with = "crate::ser::u128s")]
    pub p0: u128,
    #[serde(with = "crate::ser::u128s")]
    pub p1: u128,
    #[serde(with = "crate::ser::u128s")]
    pub liquidity: u128,
    pub amount: u64,
    pub flag: bool,
    pub lower: i32,
    pub upper: i32,
}

/// a program function called directly: a panic is a refusal with the pseudo code PROGRAM_PANICKED
fn prog_call<T>(f: impl FnOnce() -> Result<T, u64>) -> Result<T, u64> {
    match crate::rt::try_call(f) {
        Ok(r) => r,
        Err(m) => {
            LAST_PROGRAM_PANIC.with(|p| *p.borrow_mut() = m);
            Err(PROGRAM_PANICKED)
        }
    }
}

/// program error codes that mean "arithmetic overflow / amount out of range"
fn is_overflow(code: u64) -> bool {
    matches!(code, 6017 | 6030 | 6031 | 6033 | 6007 | 6008 | 6039 | 6040 | 6006)
}

pub fn check_math(c: &MathCase, l: &mut Local) -> Result<(), String> {
    let conv = |r: Result<u64, whirlpool::errors::ErrorCode>| r.map_err(|e| e as u32 as u64 + 6000);
    // amount deltas
    for (name, prog, sdkr) in [
        ("amount_delta_a", prog_call(|| conv(pm::get_amount_delta_a(c.p0, c.p1, c.liquidity, c.flag))), quiet(|| sdk::try_get_amount_delta_a(c.p0, c.p1, c.liquidity, c.flag))),
        ("amount_delta_b", prog_call(|| conv(pm::get_amount_delta_b(c.p0, c.p1, c.liquidity, c.flag))), quiet(|| sdk::try_get_amount_delta_b(c.p0, c.p1, c.liquidity, c.flag))),
    ] {
        match (&prog, &sdkr) {
            (Ok(p), Ok(Ok(q))) if p == q => l.count(&format!("{name}/agree_ok")),
            (Ok(p), other) => return Err(format!("{name}({}, {}, L={}, up={}): program {p}, SDK {other:?}", c.p0, c.p1, c.liquidity, c.flag)),
            (Err(code), Ok(Ok(q))) => {
                if is_overflow(*code) {
                    if crate::driver::is_known("C20", KF_SHL) {
                        l.known_hit(KF_SHL);
                    } else {
                        return Err(format!("{name}({}, {}, L={}, up={}): the program rejects as overflowing ({code}) but the SDK returns Ok({q})", c.p0, c.p1, c.liquidity, c.flag));
                    }
                } else {
                    return Err(format!("{name}: program error {code}, SDK Ok({q})"));
                }
            }
            (Err(_), _) => l.count(&format!("{name}/both_err")),
        }
    }
    // next sqrt price
    let convp = |r: Result<u128, whirlpool::errors::ErrorCode>| r.map_err(|e| e as u32 as u64 + 6000);
    for (name, prog, sdkr) in [
        (
            "next_sqrt_price_from_a",
            prog_call(|| convp(pm::get_next_sqrt_price_from_a_round_up(c.p0, c.liquidity, c.amount, c.flag))),
            quiet(|| sdk::try_get_next_sqrt_price_from_a(c.p0, c.liquidity, c.amount, c.flag)),
        ),
        (
            "next_sqrt_price_from_b",
            prog_call(|| convp(pm::get_next_sqrt_price_from_b_round_down(c.p0, c.liquidity, c.amount, c.flag))),
            quiet(|| sdk::try_get_next_sqrt_price_from_b(c.p0, c.liquidity, c.amount, c.flag)),
        ),
    ] {
        match (&prog, &sdkr) {
            (Ok(p), Ok(Ok(q))) if p == q => l.count(&format!("{name}/agree_ok")),
            (Ok(p), other) => {
                // the program's value may lie outside the price bounds, which the SDK reports as an error (documented divergence: the swap loop never uses such a value)
                if !(MIN_SQRT_PRICE..=MAX_SQRT_PRICE).contains(p) && matches!(other, Ok(Err(_))) {
                    l.count(&format!("{name}/program_out_of_bounds_sdk_err"));
                } else {
                    return Err(format!("{name}(p={}, L={}, amount={}, input={}): program {p}, SDK {other:?}", c.p0, c.liquidity, c.amount, c.flag));
                }
            }
            (Err(code), Ok(Ok(q))) => {
                if *code == 6033 {
                    // the 256-bit product overflows in the program: the SDK must report an error as well
                    if crate::driver::is_known("C20", KF_SHL) {
                        l.known_hit(KF_SHL);
                    } else {
                        return Err(format!("{name}(p={}, L={}, amount={}, input={}): the program rejects as overflowing ({code}) but the SDK returns Ok({q})", c.p0, c.liquidity, c.amount, c.flag));
                    }
                } else if *code == PROGRAM_PANICKED {
                    // the swap loop does call the helper with such arguments: the program aborts a swap the SDK quotes
                    if crate::driver::is_known("C20", KF_DIV) {
                        l.known_hit(KF_DIV);
                    } else {
                        return Err(format!("{name}(p={}, L={}, amount={}, input={}): the program panics ({}) but the SDK returns Ok({q})", c.p0, c.liquidity, c.amount, c.flag, LAST_PROGRAM_PANIC.with(|p| p.borrow().clone())));
                    }
                } else {
                    // other refusals (result outside the price bounds, exact-out larger than the reserves): the swap loop never
                    // calls these helpers with such arguments; tracked, not constrained by the property
                    l.count(&format!("{name}/sdk_value_where_program_refuses_{code}"));
                }
            }
            (Err(_), _) => l.count(&format!("{name}/both_err")),
        }
    }
    // token estimates for liquidity vs the program's deposit / withdrawal amounts
    if c.lower < c.upper && c.liquidity > 0 && c.liquidity <= i128::MAX as u128 {
        let mut pos = whirlpool::state::Position::default();
        pos.tick_lower_index = c.lower;
        pos.tick_upper_index = c.upper;
        let tick = pm::tick_index_from_sqrt_price(&c.p0);
        let delta = if c.flag { c.liquidity as i128 } else { -(c.liquidity as i128) };
        let prog = prog_call(|| whirlpool::manager::liquidity_manager::calculate_liquidity_token_deltas(tick, c.p0, &pos, delta).map_err(anchor_code));
        let sdkr = quiet(|| sdk::try_get_token_estimates_from_liquidity(c.liquidity, c.p0, c.lower, c.upper, c.flag));
        match (&prog, &sdkr) {
            (Ok(p), Ok(Ok(q))) if p == q => l.count("liquidity_token_estimates/agree_ok"),
            (Ok(p), other) => return Err(format!("token estimates for L={} over [{}, {}] at {}: program {p:?}, SDK {other:?}", c.liquidity, c.lower, c.upper, c.p0)),
            (Err(code), Ok(Ok(q))) => {
                if crate::driver::is_known("C20", KF_SHL) && is_overflow(*code) {
                    l.known_hit(KF_SHL);
                } else {
                    return Err(format!("token estimates for L={} over [{}, {}] at {}: the program rejects with {code} but the SDK returns {q:?}", c.liquidity, c.lower, c.upper, c.p0));
                }
            }
            (Err(_), _) => l.count("liquidity_token_estimates/both_err"),
        }
    }
    // price <-> tick
    if (MIN_SQRT_PRICE..=MAX_SQRT_PRICE).contains(&c.p0) {
        let (a, b2) = (pm::tick_index_from_sqrt_price(&c.p0), sdk::sqrt_price_to_tick_index(c.p0));
        if a != b2 {
            return Err(format!("tick of sqrt price {}: program {a}, SDK {b2}", c.p0));
        }
    }
    l.nontrivial(hash_of(c));
    l.sample(|| json!(c));
    Ok(())
}

fn math_case() -> BoxedStrategy<MathCase> {
    // liquidity by magnitude, or (one in four) the exact inverse image of a token amount on a boundary of the u64 result type
    let target = prop_oneof![3 => Just(None), 1 => (any::<bool>(), 0usize..AMOUNT_TARGETS.len(), any::<u32>()).prop_map(Some)];
    (gen::sqrt_price(), gen::liquidity_u128(), gen::amount_u64(), any::<bool>(), gen::any_tick(), 1i32..5000, target)
        .prop_flat_map(|(p0, liquidity, amount, flag, lower, w, target)| (Just((p0, liquidity, amount, flag, lower, w, target)), gen::target_price(p0)))
        .prop_map(|((p0, liquidity, amount, flag, lower, w, target), p1)| {
            let liquidity = match target {
                Some((token_a, ti, frac)) if p0 != p1 => {
                    let (lo, hi) = (p0.min(p1), p0.max(p1));
                    liquidity_for_amount(if token_a { lo } else { hi }, lo, hi, token_a, AMOUNT_TARGETS[ti], frac).unwrap_or(liquidity)
                }
                _ => liquidity,
            };
            MathCase { p0, p1, liquidity, amount, flag, lower, upper: (lower + w).min(MAX_TICK) }
        })
        .boxed()
}

pub fn def() -> CheckDef {
    CheckDef {
        id: "C20",
        rule: "differential testing SDK (rust-sdk/core, also the WASM core of ts-sdk) vs program at function level.  swap_sequences: a generated pool (tick spacing, price, \
               fee rates, positions incl. the full range turned into tick contents, start prices anywhere incl. next to both protocol tick bounds, optional valid adaptive-fee constants) and a sequence of swaps with increasing timestamps; before \
               each swap the SAME state is given to the program's swap() and to the SDK's compute_swap(); program Ok => SDK Ok with equal amounts, total fee and \
               fee-rate range; program Err => SDK may quote only for a partial exact-out fill (6057) or running off the arrays (6038); an SDK panic where the \
               program succeeds is a failure, and a panic of the program is a refusal (so an SDK quote for it is a failure too); slippage-adjusted bounds on the safe side; the state then advances with the program's result, so adaptive variables \
               are only ever reached, never fabricated.  math_functions: amount deltas, next-price functions, liquidity token estimates and price->tick on \
               generated inputs: equal where the program accepts, SDK error where the program rejects as overflowing.  ticks_exhaustive: tick->price for all \
               887,273 ticks.  Non-trivial = sequence with >=1 agreed swap crossing an initialized tick / every math case.",
        assumptions: vec![
            "`ethnum` is not in the offline cache: the SDK is built against a stand-in with ethnum's documented semantics (wrapping release arithmetic, checked_shl checks only the shift amount)",
            "timestamps are >= the pool's last reward update (every on-chain transaction satisfies this)",
        ],
        subs: vec![
            Sub {
                name: "ticks_exhaustive",
                run: Box::new(|ctx| {
                    run_enum(ctx, "ticks_exhaustive", (MAX_TICK - MIN_TICK + 1) as u64, |i, l| {
                        let t = MIN_TICK + i as i32;
                        let (a, b2) = (pm::sqrt_price_from_tick_index(t), sdk::tick_index_to_sqrt_price(t));
                        if a != b2 {
                            return Err((json!({"tick": t}), format!("sqrt price of tick {t}: program {a}, SDK {b2}")));
                        }
                        if sdk::sqrt_price_to_tick_index(a) != t {
                            return Err((json!({"tick": t}), format!("SDK tick of p({t}) is {}", sdk::sqrt_price_to_tick_index(a))));
                        }
                        l.nontrivial(i);
                        l.sample(|| json!({"tick": t, "sqrt_price": a.to_string()}));
                        Ok(())
                    })
                }),
                replay: Box::new(|v| {
                    let t = v["tick"].as_i64().ok_or("bad case")? as i32;
                    if pm::sqrt_price_from_tick_index(t) != sdk::tick_index_to_sqrt_price(t) {
                        return Err(format!("sqrt price of tick {t} differs"));
                    }
                    Ok(())
                }),
            },
            sub("math_functions", 8_000_000, 400_000_000, math_case, |c: &MathCase, l: &mut Local| check_math(c, l)),
            sub("swap_sequences", 1_500_000, 50_000_000, sim_case, |c: &SimCase, l: &mut Local| check_sim(c, l)),
            // adaptive-fee pools with the full range of valid constants (filter / decay periods up to hours) and elapsed-time
            // classes around the filter period, the decay period and the one-hour reference reset (generator shared with C14)
            sub("adaptive_sequences", 1_000_000, 30_000_000, super::c14::adaptive_case, |c: &SimCase, l: &mut Local| check_sim(c, l)),
            // the public quote functions against executed instructions on states reached by generated histories
            sub("quotes_vs_instructions", 16_000, 600_000, super::c20q::case_strategy, |c: &super::c20q::QuoteCase, l: &mut Local| super::c20q::check_case(c, l)),
        ],
    }
}
