//! C14 — adaptive fees follow the volatility schedule and stay within the hard limit.
use super::c20::{Sim, SimCase, SimPos, SimSwap};
use crate::decode::{AfConstantsD, AfVariablesD};
use crate::gen;
use crate::model::*;
use crate::runner::*;
use crate::world::*;
use crate::world2::AfConstants;
use num_bigint::BigUint;
use num_traits::ToPrimitive;
use proptest::prelude::*;
use serde::{Deserialize, Serialize};
use serde_json::json;
use whirlpool::math as pm;
use whirlpool::verif_trace::StepTrace;

pub const HARD_LIMIT: u32 = 100_000;

/// accumulator of tick group `g` for a swap whose reference is (ref_idx, vol_ref)
pub fn acc_of(g: i32, ref_idx: i32, vol_ref: u32, max_acc: u32) -> u32 {
    let v = vol_ref as u64 + (ref_idx as i64 - g as i64).unsigned_abs() * 10_000;
    v.min(max_acc as u64) as u32
}

/// total rate for an accumulator value: static + min(ceil(cf * (acc * group size)^2 / 10^13), 10^5), capped at 10^5
pub fn rate_of(acc: u32, k: &AfConstantsD, static_rate: u16) -> u32 {
    // exact in u128 whenever the product fits (always for valid constants: 2^17 * 2^64); big integers otherwise
    let crossed = acc as u128 * k.tick_group_size as u128;
    if let Some(num) = crossed.checked_mul(crossed).and_then(|x| x.checked_mul(k.adaptive_fee_control_factor as u128)) {
        let q = num / 10_000_000_000_000u128 + (num % 10_000_000_000_000u128 != 0) as u128;
        let adaptive = q.min(HARD_LIMIT as u128) as u32;
        return (static_rate as u32 + adaptive).min(HARD_LIMIT);
    }
    let crossed = BigUint::from(acc) * BigUint::from(k.tick_group_size);
    let num = BigUint::from(k.adaptive_fee_control_factor) * &crossed * &crossed;
    let den = BigUint::from(10_000_000_000_000u64);
    let q = ceil_div(&num, &den);
    let adaptive = q.to_u32().map(|x| x.min(HARD_LIMIT)).unwrap_or(HARD_LIMIT);
    (static_rate as u32 + adaptive).min(HARD_LIMIT)
}

/// the documented reference update at the start of a swap
pub fn model_reference(pre: &AfVariablesD, k: &AfConstantsD, cur_group: i32, now: u64) -> (i32, u32, u64) {
    let max_ts = pre.last_reference_update_timestamp.max(pre.last_major_swap_timestamp);
    if now - pre.last_reference_update_timestamp > 3600 {
        return (cur_group, 0, now);
    }
    let el = now - max_ts;
    if el < k.filter_period as u64 {
        (pre.tick_group_index_reference, pre.volatility_reference, pre.last_reference_update_timestamp)
    } else if el < k.decay_period as u64 {
        (cur_group, (pre.volatility_accumulator as u64 * k.reduction_factor as u64 / 10_000) as u32, now)
    } else {
        (cur_group, 0, now)
    }
}

#[derive(Default)]
pub struct AfStats {
    pub steps_checked: u32,
    pub multi_group_steps: u32,
    pub saturated_probes: u32,
    pub skipped_steps: u32,
    pub groups_traversed: i32,
    pub elapsed_class: &'static str,
    pub major: bool,
    pub gap_steps: u32,
}

#[allow(clippy::too_many_arguments)]
pub fn check_adaptive_swap(
    k: &AfConstantsD,
    static_rate: u16,
    pre: &AfVariablesD,
    post: &AfVariablesD,
    pre_price: u128,
    pre_tick: i32,
    post_price: u128,
    a_to_b: bool,
    now: u64,
    trace: &[StepTrace],
) -> Result<AfStats, String> {
    let gs = k.tick_group_size as i32;
    let max_acc = k.max_volatility_accumulator;
    let cur_group = pre_tick.div_euclid(gs);
    let (ref_idx, vol_ref, last_ref) = model_reference(pre, k, cur_group, now);
    let mut st = AfStats::default();
    let max_ts = pre.last_reference_update_timestamp.max(pre.last_major_swap_timestamp);
    st.elapsed_class = if now - pre.last_reference_update_timestamp > 3600 {
        "reset_after_1h"
    } else if now - max_ts < k.filter_period as u64 {
        "within_filter_period"
    } else if now - max_ts < k.decay_period as u64 {
        "within_decay_period"
    } else {
        "beyond_decay_period"
    };
    let (mut gmin, mut gmax) = (i32::MAX, i32::MIN);
    for (i, s) in trace.iter().enumerate() {
        if s.fee_rate < static_rate as u32 || s.fee_rate > HARD_LIMIT {
            return Err(format!("step {i}: total rate {} outside [static {static_rate}, 100000]", s.fee_rate));
        }
        if s.skipped {
            st.skipped_steps += 1;
        }
        if s.liquidity == 0 {
            st.gap_steps += 1;
            continue;
        }
        if s.amount_in == 0 && s.fee_amount == 0 {
            continue;
        }
        let (lo, hi) = (s.sqrt_price_before.min(s.sqrt_price_after), s.sqrt_price_before.max(s.sqrt_price_after));
        if lo == hi {
            continue;
        }
        // every tick group intersecting the open price interval of the step has the reference rate
        let g_lo = pm::tick_index_from_sqrt_price(&lo).div_euclid(gs);
        let g_hi = pm::tick_index_from_sqrt_price(&(hi - 1)).div_euclid(gs);
        gmin = gmin.min(g_lo);
        gmax = gmax.max(g_hi);
        st.steps_checked += 1;
        if g_hi > g_lo {
            st.multi_group_steps += 1;
        }
        let probe: Vec<i32> = if g_hi - g_lo > 64 { vec![g_lo, g_lo + 1, (g_lo + g_hi) / 2, g_hi - 1, g_hi] } else { (g_lo..=g_hi).collect() };
        for g in probe {
            let a = acc_of(g, ref_idx, vol_ref, max_acc);
            if a == max_acc {
                st.saturated_probes += 1;
            }
            let want = rate_of(a, k, static_rate);
            if want != s.fee_rate {
                return Err(format!(
                    "step {i} (price {} -> {}) charged rate {} but tick group {g} is {} groups from the reference {ref_idx} with volatility reference {vol_ref}: accumulator {a}, reference rate {want}",
                    s.sqrt_price_before,
                    s.sqrt_price_after,
                    s.fee_rate,
                    (ref_idx as i64 - g as i64).abs()
                ));
            }
        }
    }
    if gmax >= gmin {
        st.groups_traversed = gmax - gmin + 1;
    }
    // stored reference
    if (post.tick_group_index_reference, post.volatility_reference, post.last_reference_update_timestamp) != (ref_idx, vol_ref, last_ref) {
        return Err(format!(
            "stored reference ({}, {}, t={}) differs from the documented update ({ref_idx}, {vol_ref}, t={last_ref}) [{}]",
            post.tick_group_index_reference, post.volatility_reference, post.last_reference_update_timestamp, st.elapsed_class
        ));
    }
    // stored accumulator: the group where the swap ended, approached from the trade direction, or the adjacent one in that direction
    if post.volatility_accumulator > max_acc {
        return Err(format!("stored accumulator {} exceeds its maximum {max_acc}", post.volatility_accumulator));
    }
    let dir = if a_to_b { -1 } else { 1 };
    let g_end = if a_to_b || post_price == pre_price { pm::tick_index_from_sqrt_price(&post_price).div_euclid(gs) } else { pm::tick_index_from_sqrt_price(&(post_price - 1)).div_euclid(gs) };
    let cands = [acc_of(g_end, ref_idx, vol_ref, max_acc), acc_of(g_end + dir, ref_idx, vol_ref, max_acc)];
    if !cands.contains(&post.volatility_accumulator) {
        return Err(format!("stored accumulator {} is neither that of the end group {g_end} nor of the adjacent group in the trade direction ({cands:?}); reference ({ref_idx}, {vol_ref})", post.volatility_accumulator));
    }
    // major swap timestamp
    let (sm, lg) = (pre_price.min(post_price), pre_price.max(post_price));
    let target = (b(sm) * b(pm::sqrt_price_from_tick_index(k.major_swap_threshold_ticks as i32))) >> 64u32;
    let is_major = b(lg) >= target;
    st.major = is_major;
    let want_major = if is_major { now } else { pre.last_major_swap_timestamp };
    if post.last_major_swap_timestamp != want_major {
        return Err(format!("major-swap timestamp is {} but the price moved {} the threshold of {} ticks (expected {want_major})", post.last_major_swap_timestamp, if is_major { "by at least" } else { "by less than" }, k.major_swap_threshold_ticks));
    }
    Ok(st)
}

fn kd(k: &whirlpool::state::AdaptiveFeeConstants) -> AfConstantsD {
    AfConstantsD {
        filter_period: k.filter_period,
        decay_period: k.decay_period,
        reduction_factor: k.reduction_factor,
        adaptive_fee_control_factor: k.adaptive_fee_control_factor,
        max_volatility_accumulator: k.max_volatility_accumulator,
        tick_group_size: k.tick_group_size,
        major_swap_threshold_ticks: k.major_swap_threshold_ticks,
    }
}
fn vd(v: &whirlpool::state::AdaptiveFeeVariables) -> AfVariablesD {
    AfVariablesD {
        last_reference_update_timestamp: v.last_reference_update_timestamp,
        last_major_swap_timestamp: v.last_major_swap_timestamp,
        volatility_reference: v.volatility_reference,
        tick_group_index_reference: v.tick_group_index_reference,
        volatility_accumulator: v.volatility_accumulator,
    }
}

pub fn check_schedule(c: &SimCase, l: &mut Local) -> Result<(), String> {
    let mut s = Sim::build(c);
    let Some(info0) = s.oracle.clone() else {
        l.count("constants_invalid_skipped");
        return Ok(());
    };
    let k = kd(&info0.constants);
    let mut nontrivial = false;
    for (i, sw) in c.swaps.iter().enumerate() {
        s.ts += sw.dt as u64;
        let limit = s.resolve_limit(sw);
        let idx = s.arrays_for(sw.a_to_b);
        if idx.is_empty() {
            break;
        }
        let pre_vars = vd(&s.oracle.as_ref().unwrap().variables);
        let (pre_price, pre_tick) = (s.wp.sqrt_price, s.wp.tick_current_index);
        let (res, trace) = s.program_swap(&idx, sw, limit);
        let Ok(p) = res else {
            l.count("swap_rejected");
            break;
        };
        let post_vars = vd(&p.next_adaptive_fee_info.as_ref().ok_or("adaptive pool swap returned no adaptive-fee state")?.variables);
        let st = check_adaptive_swap(&k, s.wp.fee_rate, &pre_vars, &post_vars, pre_price, pre_tick, p.next_sqrt_price, sw.a_to_b, s.ts, &trace).map_err(|e| format!("swap #{i} {sw:?}: {e}"))?;
        l.count(&format!("swaps/{}", st.elapsed_class));
        l.count_n("steps_checked", st.steps_checked as u64);
        l.count_n("multi_group_steps", st.multi_group_steps as u64);
        l.count_n("saturated_group_probes", st.saturated_probes as u64);
        l.count_n("skip_steps", st.skipped_steps as u64);
        l.count_n("zero_liquidity_gap_steps", st.gap_steps as u64);
        if st.major {
            l.count("major_swaps");
        }
        if k.adaptive_fee_control_factor > 0 && st.groups_traversed >= 3 {
            nontrivial = true;
        }
        s.apply(&p, sw.a_to_b);
    }
    if nontrivial {
        l.count("nontrivial_sequences");
        l.nontrivial(hash_of(c));
        l.sample(|| json!({"tick_spacing": c.tick_spacing, "constants": c.adaptive, "swaps": c.swaps.iter().take(4).collect::<Vec<_>>()}));
    }
    Ok(())
}

/// control factor 0: the pool must charge exactly like a static-fee pool on the same state
pub fn check_zero_cf(c: &SimCase, l: &mut Local) -> Result<(), String> {
    let mut ca = c.clone();
    if let Some(k) = ca.adaptive.as_mut() {
        k.adaptive_fee_control_factor = 0;
    } else {
        return Ok(());
    }
    let mut cs = c.clone();
    cs.adaptive = None;
    let (mut a, mut s) = (Sim::build(&ca), Sim::build(&cs));
    if a.oracle.is_none() {
        l.count("constants_invalid_skipped");
        return Ok(());
    }
    let mut compared = 0;
    for (i, sw) in c.swaps.iter().enumerate() {
        a.ts += sw.dt as u64;
        s.ts = a.ts;
        let limit = a.resolve_limit(sw);
        let (ia, is) = (a.arrays_for(sw.a_to_b), s.arrays_for(sw.a_to_b));
        if ia.is_empty() {
            break;
        }
        let (ra, _) = a.program_swap(&ia, sw, limit);
        let (rs, _) = s.program_swap(&is, sw, limit);
        match (ra, rs) {
            (Ok(pa), Ok(ps)) => {
                if (pa.amount_a, pa.amount_b, pa.lp_fee, pa.next_protocol_fee, pa.next_fee_growth_global, pa.next_sqrt_price, pa.next_liquidity, pa.next_tick_index)
                    != (ps.amount_a, ps.amount_b, ps.lp_fee, ps.next_protocol_fee, ps.next_fee_growth_global, ps.next_sqrt_price, ps.next_liquidity, ps.next_tick_index)
                {
                    return Err(format!("swap #{i} {sw:?}: control factor 0 gives (a {}, b {}, lp fee {}, protocol fee {}), the static pool (a {}, b {}, lp fee {}, protocol fee {})", pa.amount_a, pa.amount_b, pa.lp_fee, pa.next_protocol_fee, ps.amount_a, ps.amount_b, ps.lp_fee, ps.next_protocol_fee));
                }
                compared += 1;
                a.apply(&pa, sw.a_to_b);
                s.apply(&ps, sw.a_to_b);
            }
            (Err(x), Err(y)) if x == y => break,
            (x, y) => return Err(format!("swap #{i} {sw:?}: control factor 0 -> {:?}, static pool -> {:?}", x.map(|_| ()), y.map(|_| ()))),
        }
    }
    if compared > 0 {
        l.count_n("swaps_compared", compared);
        l.nontrivial(hash_of(c));
    }
    Ok(())
}

fn valid_constants(ts: u16) -> BoxedStrategy<AfConstants> {
    prop_oneof![3 => moderate_constants(ts), 1 => crate::history::all_valid_constants(ts)].boxed()
}

fn moderate_constants(ts: u16) -> BoxedStrategy<AfConstants> {
    let divisors: Vec<u16> = (1..=ts.min(256)).filter(|d| ts % d == 0).collect();
    (prop_oneof![3 => 1u16..=60, 1 => 1u16..=5000], prop_oneof![2 => 1u16..=600, 2 => 1u16..=8000], 0u16..10_000, prop_oneof![1 => Just(0u32), 6 => 1u32..100_000, 1 => Just(99_999u32)], any::<u32>(), prop::sample::select(divisors), 1u32..=65_535)
        .prop_map(move |(filter_period, extra, reduction_factor, adaptive_fee_control_factor, macc, tick_group_size, major)| {
            let cap = (u32::MAX as u64 / tick_group_size as u64).min(3_000_000) as u32;
            AfConstants {
                filter_period,
                decay_period: filter_period + extra,
                reduction_factor,
                adaptive_fee_control_factor,
                max_volatility_accumulator: macc % (cap + 1),
                tick_group_size,
                major_swap_threshold_ticks: (1 + major % ((ts as u32 * 88).min(65_535))) as u16,
            }
        })
        .boxed()
}

pub fn adaptive_case() -> BoxedStrategy<SimCase> {
    prop_oneof![8 => prop::sample::select(vec![1u16, 2, 8, 64, 128]), 1 => prop::sample::select(vec![32768u16, 32896])]
        .prop_flat_map(|ts| {
            let pos = (-250i16..250, 1i16..200, (16u32..70).prop_map(|b| 1u128 << b), 0u8..8)
                .prop_map(|(lo, w, liquidity, full)| if full == 0 { SimPos { lo: i16::MIN, hi: i16::MAX, liquidity } } else { SimPos { lo, hi: lo.saturating_add(w), liquidity } });
            let start = prop_oneof![6 => -40_000i32..40_000, 1 => gen::any_tick(), 1 => (0i32..30_000, any::<bool>()).prop_map(|(d, up)| if up { MAX_TICK - d } else { MIN_TICK + d })];
            (Just(ts), valid_constants(ts), start, -1i8..=1, prop::sample::select(vec![0u16, 1, 100, 3000, 10_000, 60_000]), 0u16..=2500, prop::collection::vec(pos, 1..7))
        })
        .prop_flat_map(|(ts, k, start_tick, off, fee_rate, protocol_fee_rate, positions)| {
            // elapsed-time classes around the filter / decay periods and the one-hour reset
            let (f, d) = (k.filter_period as u32, k.decay_period as u32);
            let dt = prop_oneof![2 => Just(0u32), 1 => Just(1u32), 2 => Just(f.saturating_sub(1)), 2 => Just(f), 2 => Just(d.saturating_sub(1)), 2 => Just(d), 1 => Just(3600u32), 1 => Just(3601u32), 2 => 0u32..5000];
            let sw = (any::<bool>(), prop_oneof![2 => Just(true), 1 => Just(false)], (1u32..52, any::<u64>()).prop_map(|(bits, r)| (r >> (64 - bits)) | (1u64 << (bits - 1))), 0u8..4, any::<u32>(), dt, any::<u16>())
                .prop_map(|(a_to_b, exact_in, amount, limit_kind, limit_arg, dt, slippage_bps)| SimSwap { a_to_b, exact_in, amount, limit_kind, limit_arg, dt, slippage_bps });
            (Just((ts, k, start_tick, off, fee_rate, protocol_fee_rate, positions)), prop::collection::vec(sw, 1..8))
        })
        .prop_map(|((tick_spacing, k, start_tick, start_price_offset, fee_rate, protocol_fee_rate, positions), swaps)| SimCase {
            tick_spacing,
            start_tick,
            start_price_offset,
            fee_rate,
            protocol_fee_rate,
            positions,
            adaptive: Some(k),
            swaps,
        })
        .boxed()
}

// ---------------------------------------------------------------------------------------------------
// function level: the rate function over ALL valid constants and all stored variable states

#[derive(Clone, Debug, Serialize, Deserialize, Hash)]
pub struct RateCase {
    pub tick_spacing: u16,
    pub constants: AfConstants,
    pub static_rate: u16,
    pub current_tick: i32,
    /// stored reference group = current group + this
    pub reference_group_delta: i32,
    pub volatility_accumulator: u32,
    pub volatility_reference: u32,
    /// last_major_swap_timestamp - last_reference_update_timestamp
    pub major_minus_reference: i32,
    pub dt: u32,
    pub a_to_b: bool,
    pub advances: u8,
}

pub fn check_rate(c: &RateCase, l: &mut Local) -> Result<(), String> {
    use whirlpool::manager::fee_rate_manager::FeeRateManager;
    use whirlpool::state::{AdaptiveFeeConstants, AdaptiveFeeInfo, AdaptiveFeeVariables};
    let k = &c.constants;
    if !super::c20::constants_valid(c.tick_spacing, k) {
        l.count("constants_invalid_skipped");
        return Ok(());
    }
    let gs = k.tick_group_size as i32;
    let cur_tick = c.current_tick.clamp(-443636, 443636);
    let cur_group = cur_tick.div_euclid(gs);
    let (gmin, gmax) = ((-443636i32).div_euclid(gs), 443636i32.div_euclid(gs));
    let ref_group = (cur_group as i64 + c.reference_group_delta as i64).clamp(gmin as i64, gmax as i64) as i32;
    let acc0 = c.volatility_accumulator.min(k.max_volatility_accumulator);
    let ref0 = c.volatility_reference.min(acc0);
    let t0: u64 = 1_700_000_000;
    let last_ref = t0;
    let last_major = (t0 as i64 + c.major_minus_reference as i64) as u64;
    let now = last_ref.max(last_major) + c.dt as u64;
    let pre = AfVariablesD { last_reference_update_timestamp: last_ref, last_major_swap_timestamp: last_major, volatility_reference: ref0, tick_group_index_reference: ref_group, volatility_accumulator: acc0 };
    let info = AdaptiveFeeInfo {
        constants: AdaptiveFeeConstants {
            filter_period: k.filter_period,
            decay_period: k.decay_period,
            reduction_factor: k.reduction_factor,
            adaptive_fee_control_factor: k.adaptive_fee_control_factor,
            max_volatility_accumulator: k.max_volatility_accumulator,
            tick_group_size: k.tick_group_size,
            major_swap_threshold_ticks: k.major_swap_threshold_ticks,
            reserved: [0; 16],
        },
        variables: AdaptiveFeeVariables {
            last_reference_update_timestamp: last_ref,
            last_major_swap_timestamp: last_major,
            volatility_reference: ref0,
            tick_group_index_reference: ref_group,
            volatility_accumulator: acc0,
            reserved: [0; 16],
        },
    };
    let kd = kd(&info.constants);
    let info = Some(info);
    let mut mgr = FeeRateManager::new(c.a_to_b, cur_tick, now, c.static_rate, &info).map_err(|e| format!("FeeRateManager::new refused a valid state: {e:?}"))?;
    let (m_ref, m_vol, m_last) = model_reference(&pre, &kd, cur_group, now);
    let mut g = cur_group;
    let mut nontrivial = false;
    for step in 0..=c.advances {
        mgr.update_volatility_accumulator().map_err(|e| format!("update_volatility_accumulator failed: {e:?}"))?;
        let got_rate = mgr.get_total_fee_rate();
        let post = vd(&mgr.get_next_adaptive_fee_info().ok_or("adaptive manager returned no adaptive-fee state")?.variables);
        if (post.tick_group_index_reference, post.volatility_reference, post.last_reference_update_timestamp) != (m_ref, m_vol, m_last) {
            return Err(format!("reference after the update is ({}, {}, t={}) but the documented rule gives ({m_ref}, {m_vol}, t={m_last})", post.tick_group_index_reference, post.volatility_reference, post.last_reference_update_timestamp));
        }
        let a = acc_of(g, m_ref, m_vol, k.max_volatility_accumulator);
        if post.volatility_accumulator != a {
            return Err(format!("advance {step}: accumulator of group {g} is {} but min(ref_vol {m_vol} + |{m_ref} - {g}| * 10^4, {}) = {a}", post.volatility_accumulator, k.max_volatility_accumulator));
        }
        let want = rate_of(a, &kd, c.static_rate);
        if got_rate != want {
            return Err(format!("advance {step}: total rate {got_rate} for accumulator {a} (group size {}, control factor {}, static {}) but the schedule gives {want}", k.tick_group_size, k.adaptive_fee_control_factor, c.static_rate));
        }
        if got_rate < c.static_rate as u32 || got_rate > HARD_LIMIT {
            return Err(format!("total rate {got_rate} outside [static {}, 100000]", c.static_rate));
        }
        // classes
        let crossed = a as u128 * k.tick_group_size as u128;
        let uncapped = (k.adaptive_fee_control_factor as u128 * crossed * crossed + 9_999_999_999_999) / 10_000_000_000_000;
        let class = if k.adaptive_fee_control_factor == 0 {
            "control_factor_zero"
        } else if uncapped == 0 {
            "adaptive_rate_zero"
        } else if uncapped < HARD_LIMIT as u128 {
            "adaptive_rate_below_cap"
        } else if uncapped < (1u128 << 32) {
            "adaptive_rate_capped"
        } else {
            "adaptive_rate_capped_uncapped_value_ge_2^32"
        };
        l.count(&format!("rate/{class}"));
        if a == k.max_volatility_accumulator {
            l.count("accumulator_saturated");
        }
        if uncapped > 0 {
            nontrivial = true;
        }
        mgr.advance_tick_group();
        g += if c.a_to_b { -1 } else { 1 };
    }
    if nontrivial {
        l.nontrivial(crate::runner::hash_of(c));
    }
    if nontrivial {
        l.sample(|| json!({"case": c, "model_reference": [m_ref, m_vol, m_last]}));
    }
    Ok(())
}

pub fn rate_case() -> BoxedStrategy<RateCase> {
    prop_oneof![6 => prop::sample::select(vec![1u16, 2, 4, 8, 16, 64, 96, 128, 256, 512, 32896]), 1 => 1u16..=u16::MAX]
        .prop_flat_map(|ts| (Just(ts), crate::history::all_valid_constants(ts)))
        .prop_flat_map(|(ts, k)| {
            let (f, d) = (k.filter_period as u32, k.decay_period as u32);
            let dt = prop_oneof![2 => Just(0u32), 1 => Just(1u32), 2 => Just(f.saturating_sub(1)), 2 => Just(f), 2 => Just(d.saturating_sub(1)), 2 => Just(d), 1 => Just(3600u32), 1 => Just(3601u32), 2 => 0u32..70_000];
            let groups = (887_272 / k.tick_group_size as i32).max(1);
            let delta = prop_oneof![2 => -3i32..=3, 2 => -400i32..=400, 3 => -groups..=groups];
            let macc = k.max_volatility_accumulator;
            (
                Just(ts),
                Just(k),
                prop::sample::select(vec![0u16, 1, 100, 3000, 10_000, 60_000]),
                prop_oneof![4 => -443_636i32..=443_636, 1 => -2000i32..2000],
                delta,
                prop_oneof![1 => Just(0u32), 1 => Just(macc), 3 => 0..=macc],
                any::<u32>(),
                prop_oneof![3 => -4000i32..=4000, 1 => Just(0i32)],
                dt,
                any::<bool>(),
                0u8..4,
            )
        })
        .prop_map(|(tick_spacing, constants, static_rate, current_tick, reference_group_delta, volatility_accumulator, vr, major_minus_reference, dt, a_to_b, advances)| RateCase {
            tick_spacing,
            constants,
            static_rate,
            current_tick,
            reference_group_delta,
            volatility_accumulator,
            volatility_reference: if volatility_accumulator == 0 { 0 } else { vr % (volatility_accumulator + 1) },
            major_minus_reference,
            dt,
            a_to_b,
            advances,
        })
        .boxed()
}

// ---------------------------------------------------------------------------------------------------
// instruction level: oracle account round trip and trade-enable time

#[derive(Clone, Debug, Serialize, Deserialize, Hash)]
pub struct IxCase {
    pub tick_spacing: u16,
    pub constants: AfConstants,
    pub fee_rate: u16,
    pub start_tick: i32,
    pub liquidity_bits: u8,
    pub trade_enable_delay: Option<u16>,
    pub swaps: Vec<(bool, bool, u64, u32)>,
    /// (before swap #, field mask, values): the fee authority changes the pool's adaptive-fee constants in mid-history.  Mask bits 0..6 =
    /// filter, decay, reduction, control factor, maximum accumulator, group size, major-swap threshold; bit 7 = the maximum accumulator is
    /// set relative to the STORED accumulator (values.max_volatility_accumulator per mille of it)
    #[serde(default)]
    pub sets: Vec<(u8, u8, AfConstants)>,
}

pub fn check_ix(c: &IxCase, l: &mut Local) -> Result<(), String> {
    let mut w = World::new(1_700_000_000);
    let cfg = w.init_config(300);
    let ts = c.tick_spacing;
    let tsi = ts as i32;
    let auth = w.new_signer();
    let ix = w.ix_init_adaptive_fee_tier(cfg, 1500, ts, auth, auth, c.fee_rate.min(60_000), &c.constants);
    if !w.exec(&ix).ok() {
        l.count("tier_rejected");
        return Ok(());
    }
    let (m1, m2) = (w.create_spl_mint(), w.create_spl_mint());
    let t0 = c.start_tick.clamp(-100_000, 100_000) / tsi * tsi;
    let now0 = w.bank.clock.unix_timestamp as u64;
    let te = c.trade_enable_delay.map(|d| now0 + d as u64);
    let Ok(p) = w.init_pool_adaptive(cfg, &m1, &m2, 1500, ts, auth, pm::sqrt_price_from_tick_index(t0) + 1, te) else {
        l.count("pool_rejected");
        return Ok(());
    };
    let (ma, mb) = (w.pools[p].mint_a.clone(), w.pools[p].mint_b.clone());
    let lp = w.add_user();
    let trader = w.add_user();
    for u in [lp, trader] {
        w.user_token(u, &ma, 1 << 60);
        w.user_token(u, &mb, 1 << 60);
    }
    let n = 88 * tsi;
    let base = array_start(t0, ts);
    for k in -3i32..=3 {
        let ix = w.ix_init_tick_array(p, base + k * n, k % 2 == 0);
        let _ = w.exec(&ix);
    }
    let pos = w.open_position(p, lp, t0 - 60 * tsi, t0 + 60 * tsi, PosKind::Plain).map_err(|o| format!("harness: open failed {:?}", o.result))?;
    let ix = w.ix_increase(pos, 1u128 << c.liquidity_bits.clamp(24, 60), u64::MAX, u64::MAX, true);
    if !w.exec(&ix).ok() {
        return Ok(());
    }
    let mut k = w.oracle_state(p).ok_or("oracle account missing")?.constants;
    // trading is refused before the trade-enable time and allowed from it on
    if let Some(te) = te {
        let stored = w.oracle_state(p).unwrap().trade_enable_timestamp;
        if stored != te {
            return Err(format!("oracle stores trade-enable time {stored}, requested {te}"));
        }
        let sp = SwapParams { amount: 1000, threshold: 0, sqrt_price_limit: 0, exact_in: true, a_to_b: true };
        if te > now0 {
            w.bank.clock.unix_timestamp = (te - 1) as i64;
            let mut wc = w.clone();
            if wc.exec(&wc.ix_swap_v2(p, trader, &sp)).ok() {
                return Err(format!("swap accepted one second before the trade-enable time {te}"));
            }
            l.count("swap_refused_before_trade_enable");
        }
        w.bank.clock.unix_timestamp = te.max(now0) as i64;
        let mut wc = w.clone();
        let o = wc.exec(&wc.ix_swap_v2(p, trader, &sp));
        if !o.ok() && o.code() == Some(6064) {
            return Err(format!("swap refused at the trade-enable time {te}"));
        }
        l.count("swap_allowed_at_trade_enable");
    }
    let mut checked = 0;
    for (i, (a_to_b, exact_in, amount, dt)) in c.swaps.iter().enumerate() {
        for (_, mask, v) in c.sets.iter().filter(|(at, _, _)| *at as usize == i) {
            let pre_o = w.oracle_state(p).unwrap();
            let on = |bit: u8| mask & (1 << bit) != 0;
            let new_max = if on(7) { Some((pre_o.variables.volatility_accumulator as u64 * (v.max_volatility_accumulator % 1001) as u64 / 1000) as u32) } else if on(4) { Some(v.max_volatility_accumulator) } else { None };
            let ix = w.ix_set_adaptive_fee_constants(
                p,
                on(0).then_some(v.filter_period),
                on(1).then_some(v.decay_period),
                on(2).then_some(v.reduction_factor),
                on(3).then_some(v.adaptive_fee_control_factor),
                new_max,
                on(5).then_some(v.tick_group_size),
                on(6).then_some(v.major_swap_threshold_ticks),
            );
            let o = w.exec(&ix);
            let post_o = w.oracle_state(p).unwrap();
            if !o.ok() {
                if post_o != pre_o {
                    return Err("oracle changed by a rejected set_adaptive_fee_constants".into());
                }
                l.count(&format!("set_constants_rejected/{}", o.code().unwrap_or(0)));
                continue;
            }
            let mut want = k.clone();
            if on(0) { want.filter_period = v.filter_period }
            if on(1) { want.decay_period = v.decay_period }
            if on(2) { want.reduction_factor = v.reduction_factor }
            if on(3) { want.adaptive_fee_control_factor = v.adaptive_fee_control_factor }
            if let Some(m) = new_max { want.max_volatility_accumulator = m }
            if on(5) { want.tick_group_size = v.tick_group_size }
            if on(6) { want.major_swap_threshold_ticks = v.major_swap_threshold_ticks }
            if post_o.constants != want {
                return Err(format!("set_adaptive_fee_constants (mask {mask:#x}) stored {:?}, the named fields replaced give {:?}", post_o.constants, want));
            }
            let ak = AfConstants { filter_period: want.filter_period, decay_period: want.decay_period, reduction_factor: want.reduction_factor, adaptive_fee_control_factor: want.adaptive_fee_control_factor, max_volatility_accumulator: want.max_volatility_accumulator, tick_group_size: want.tick_group_size, major_swap_threshold_ticks: want.major_swap_threshold_ticks };
            if !super::c20::constants_valid(ts, &ak) {
                return Err(format!("set_adaptive_fee_constants accepted constants that break the validity rules: {want:?}"));
            }
            // the state every later swap starts from: accumulator and reference within the (new) maximum, reference group inside the tick range
            let vv = &post_o.variables;
            if vv.volatility_accumulator > want.max_volatility_accumulator || vv.volatility_reference > vv.volatility_accumulator {
                return Err(format!(
                    "after set_adaptive_fee_constants the stored accumulator {} / reference {} exceed the configured maximum {} (before: accumulator {}, maximum {})",
                    vv.volatility_accumulator, vv.volatility_reference, want.max_volatility_accumulator, pre_o.variables.volatility_accumulator, pre_o.constants.max_volatility_accumulator
                ));
            }
            let gs = want.tick_group_size as i32;
            if vv.tick_group_index_reference < (-443636i32).div_euclid(gs) || vv.tick_group_index_reference > 443636i32.div_euclid(gs) {
                return Err(format!("after set_adaptive_fee_constants the stored reference group {} lies outside the tick range for group size {gs}", vv.tick_group_index_reference));
            }
            if post_o.trade_enable_timestamp != pre_o.trade_enable_timestamp || post_o.whirlpool != pre_o.whirlpool {
                return Err("set_adaptive_fee_constants changed the oracle's trade-enable time / pool".into());
            }
            l.count("set_constants_ok");
            if pre_o.variables.volatility_accumulator > want.max_volatility_accumulator {
                l.count("set_constants_ok_maximum_lowered_below_the_stored_accumulator");
            }
            if want.tick_group_size != k.tick_group_size && pre_o.variables.volatility_accumulator > 0 {
                l.count("set_constants_ok_group_size_changed_on_a_volatile_pool");
            }
            k = want;
        }
        w.advance_clock(*dt as i64);
        let pre_o = w.oracle_state(p).unwrap();
        let pre_pool = w.pool_state(p);
        let sp = SwapParams { amount: *amount, threshold: SwapParams::neutral_threshold(*exact_in), sqrt_price_limit: 0, exact_in: *exact_in, a_to_b: *a_to_b };
        let ix = if amount % 2 == 0 { w.ix_swap_v2(p, trader, &sp) } else { w.ix_swap(p, trader, &sp) };
        let o = w.exec(&ix);
        if !o.ok() {
            // a rejected swap must leave the oracle untouched
            if w.oracle_state(p).unwrap() != pre_o {
                return Err("oracle changed by a rejected swap".into());
            }
            continue;
        }
        let post_o = w.oracle_state(p).unwrap();
        let post_pool = w.pool_state(p);
        if post_o.constants != k || post_o.trade_enable_timestamp != pre_o.trade_enable_timestamp || post_o.whirlpool != w.pools[p].key {
            return Err("a swap changed the oracle's constants / trade-enable time / pool".into());
        }
        let now = w.bank.clock.unix_timestamp as u64;
        check_adaptive_swap(&k, pre_pool.fee_rate, &pre_o.variables, &post_o.variables, pre_pool.sqrt_price, pre_pool.tick_current_index, post_pool.sqrt_price, *a_to_b, now, &o.steps)?;
        checked += 1;
    }
    if checked > 0 {
        l.count_n("instruction_swaps_checked", checked);
        l.nontrivial(hash_of(c));
        l.sample(|| json!(c));
    }
    Ok(())
}

fn ix_case() -> BoxedStrategy<IxCase> {
    prop::sample::select(vec![1u16, 8, 64, 128])
        .prop_flat_map(|ts| {
            (
                Just(ts),
                valid_constants(ts),
                prop::sample::select(vec![0u16, 100, 3000, 60_000]),
                -50_000i32..50_000,
                24u8..60,
                prop_oneof![2 => Just(None), 2 => (1u16..5000).prop_map(Some), 1 => Just(Some(0u16))],
                prop::collection::vec((any::<bool>(), any::<bool>(), (8u32..48, any::<u64>()).prop_map(|(b2, r)| (r >> (64 - b2)) | (1u64 << (b2 - 1))), prop_oneof![2 => 0u32..5, 2 => 0u32..700, 1 => 3500u32..3700]), 1..8),
                prop::collection::vec((1u8..8, prop_oneof![3 => (0u8..7).prop_map(|b| 1u8 << b), 2 => Just(0x80u8), 2 => any::<u8>()], valid_constants(ts)), 0..3),
            )
        })
        .prop_map(|(tick_spacing, constants, fee_rate, start_tick, liquidity_bits, trade_enable_delay, swaps, sets)| IxCase { tick_spacing, constants, fee_rate, start_tick, liquidity_bits, trade_enable_delay, swaps, sets })
        .boxed()
}

pub fn def() -> CheckDef {
    CheckDef {
        id: "C14",
        rule: "rate_function: FeeRateManager::new / update_volatility_accumulator / get_total_fee_rate / advance_tick_group on ALL valid constants (tick spacings 1..=65535, \
               every divisor as group size, accumulator maxima up to u32::MAX / group size, control factor 0..99999) and stored variable states satisfying the reachable-state \
               invariant (reference <= accumulator <= maximum, reference group inside the tick range): reference == documented update, accumulator == min(ref + distance * 10^4, max), \
               total rate == schedule, in [static, 10^5]; classes by uncapped rate (0, < cap, capped, >= 2^32).  Sequence level: pools with generated VALID adaptive-fee constants (all of them varied), variable states reached only by sequences of the program's own swaps with \
               generated non-decreasing timestamps (elapsed classes 0, 1, filter-1, filter, decay-1, decay, 3600, 3601, random), swaps inside / entering / leaving / beyond the \
               saturation range, across zero-liquidity gaps, both directions and modes.  Per traced step with traded amount and L>0: every tick group intersecting the step's \
               open price interval must have reference rate == the step's rate (independent reference: accumulator = min(ref_vol + |ref_idx - g| * 10^4, max), rate = min(static + \
               min(ceil(cf * (acc * gs)^2 / 10^13), 10^5), 10^5) on BigUint); rates in [static, 10^5]; stored reference == documented filter / decay / 1-hour-reset update; stored \
               accumulator in {acc(end group approached from the trade direction), acc(adjacent group in that direction)}; major-swap timestamp set <=> threshold test.  \
               zero_control_factor: the same generated state swapped as cf=0 adaptive pool and as static pool must agree on amounts, fees, growth, price.  instruction \
               level: oracle account round trip checked with the same oracle, swaps refused before the trade-enable time and allowed from it.  Non-trivial = cf>0 and >=3 \
               tick groups traversed with liquidity.",
        assumptions: vec!["H2 step trace (required for the per-step rate)", "sequence sub-checks never fabricate adaptive variable states (they are reached through the program's own swaps); rate_function fabricates them within the reachable-state invariant"],
        subs: vec![
            sub("rate_function", 24_000_000, 1_000_000_000, rate_case, |c: &RateCase, l: &mut Local| check_rate(c, l)),
            sub("schedule", 1_500_000, 50_000_000, adaptive_case, |c: &SimCase, l: &mut Local| check_schedule(c, l)),
            sub("zero_control_factor", 600_000, 10_000_000, adaptive_case, |c: &SimCase, l: &mut Local| check_zero_cf(c, l)),
            sub("oracle_account_and_trade_enable", 60_000, 600_000, ix_case, |c: &IxCase, l: &mut Local| check_ix(c, l)),
        ],
    }
}
