//! C07 — a position earns its pro-rata share of LP fees only while the price is in its range.
use super::c01::{growth_inside, tick_map};
use super::hist::*;
use crate::history::*;
use crate::model::*;
use crate::runner::*;
use num_bigint::BigUint;
use num_traits::{ToPrimitive, Zero};
use serde_json::json;
use std::collections::BTreeMap;

const SCALE: u32 = 192;

/// two-sided fixed-point enclosure of an exact rational sum (scaled by 2^192)
#[derive(Default, Clone)]
pub struct Enclosure {
    pub lo: BigUint,
    pub hi: BigUint,
}
impl Enclosure {
    pub fn add_frac(&mut self, num: &BigUint, den: &BigUint) {
        let n = num << SCALE;
        self.lo += &n / den;
        self.hi += ceil_div(&n, den);
    }
    pub fn set(&mut self, v: &BigUint) {
        self.lo = v << SCALE;
        self.hi = v << SCALE;
    }
}

#[derive(Default, Clone)]
pub struct TokLedger {
    /// exact pro-rata share accumulated since the ledger (re)start
    pub earned: Enclosure,
    pub credited: BigUint,
    /// sum over in-range steps of L_p (each step can lose < L_p / 2^64 tokens to the floor on the global accumulator)
    pub slack_l: BigUint,
    pub creditings: u32,
}

#[derive(Default)]
pub struct ProRataMonitor {
    pub led: BTreeMap<usize, [TokLedger; 2]>,
    pub creditings_checked: u32,
    pub lower_bound_skipped_overflow: u32,
    pub steps_attributed: u32,
    pub bound_recross: BTreeMap<usize, u32>,
    pub nontrivial: bool,
    pub other_changed_on_bound: BTreeMap<usize, bool>,
    pub collects_checked: u32,
    pub wrap_start: bool,
    pub prev_ticks: BTreeMap<i32, crate::decode::TickD>,
}

impl ProRataMonitor {
    fn credit(&mut self, _h: &Hist, pre: &Snap, post: &Snap, p: usize, what: &str) -> Result<(), String> {
        let (Some(a), Some(bf)) = (pre.positions.get(p).cloned().flatten(), post.positions.get(p).cloned().flatten()) else { return Ok(()) };
        let deltas = [bf.fee_owed_a.wrapping_sub(a.fee_owed_a), bf.fee_owed_b.wrapping_sub(a.fee_owed_b)];
        let led = self.led.entry(p).or_default();
        for t in 0..2 {
            let l = &mut led[t];
            l.credited += deltas[t];
            l.creditings += 1;
            // upper bound: never more than the exact share
            if (&l.credited << SCALE) > l.earned.hi {
                return Err(format!(
                    "{what}: position #{p} token {} credited {} in total but its exact pro-rata share is only {}.{:03}",
                    if t == 0 { "A" } else { "B" },
                    l.credited,
                    &l.earned.hi >> SCALE,
                    ((&l.earned.hi >> (SCALE - 10)) & BigUint::from(1023u32)).to_u32().unwrap() * 1000 / 1024
                ));
            }
        }
        self.creditings_checked += 1;
        Ok(())
    }

    /// a crediting point of position `p`: both bounds of the pro-rata ledger
    pub fn on_crediting(&mut self, h: &Hist, pre: &Snap, post: &Snap, p: usize, what: &str) -> Result<(), String> {
            // was this crediting subject to the documented overflow drop?  (decided from pre-state accounts)
            let mut dropped = [false; 2];
            if let Some(ps) = pre.positions.get(p).cloned().flatten() {
                if ps.liquidity > 0 {
                    // tick contents as they were BEFORE this instruction (cached at the end of the previous callback)
                    let tl = self.prev_ticks.get(&ps.tick_lower_index).cloned();
                    let tu = self.prev_ticks.get(&ps.tick_upper_index).cloned();
                    if let (Some(tl), Some(tu)) = (tl, tu) {
                        let ia = growth_inside(pre.pool.tick_current_index, ps.tick_lower_index, ps.tick_upper_index, pre.pool.fee_growth_global_a, tl.fee_growth_outside_a, tu.fee_growth_outside_a);
                        let ib = growth_inside(pre.pool.tick_current_index, ps.tick_lower_index, ps.tick_upper_index, pre.pool.fee_growth_global_b, tl.fee_growth_outside_b, tu.fee_growth_outside_b);
                        dropped[0] = owed_delta(ps.liquidity, ia.wrapping_sub(ps.fee_growth_checkpoint_a)).to_u64().is_none();
                        dropped[1] = owed_delta(ps.liquidity, ib.wrapping_sub(ps.fee_growth_checkpoint_b)).to_u64().is_none();
                    }
                }
            }
            self.credit(h, pre, post, p, what)?;
            // lower bound: shortfall only by bounded rounding
            let led = self.led.entry(p).or_default();
            for t in 0..2 {
                let l = &mut led[t];
                if dropped[t] {
                    self.lower_bound_skipped_overflow += 1;
                    let c = l.credited.clone();
                    l.earned.set(&c); // the dropped amount is gone for good: re-base the ledger
                    l.slack_l = BigUint::zero();
                    l.creditings = 0;
                    continue;
                }
                let credited_scaled = &l.credited << SCALE;
                if l.earned.lo > credited_scaled {
                    let shortfall = &l.earned.lo - &credited_scaled;
                    let allowed = (&l.slack_l << (SCALE - 64)) + (BigUint::from(l.creditings) << SCALE);
                    if shortfall > allowed {
                        return Err(format!(
                            "position #{p} token {}: credited {} but exact pro-rata share is {} (shortfall beyond the rounding bound of {} tokens)",
                            if t == 0 { "A" } else { "B" },
                            l.credited,
                            &l.earned.lo >> SCALE,
                            &allowed >> SCALE
                        ));
                    }
                }
            }
            // re-ranging or emptying restarts nothing by itself: the ledger keeps following (range, L) from the accounts
            // mark "another position on one of my bounds changed" for the non-triviality rule
            if let Some(me) = post.positions.get(p).cloned().flatten() {
                for (q, qs) in post.positions.iter().enumerate() {
                    if q == p {
                        continue;
                    }
                    if let Some(qs) = qs {
                        let share = [qs.tick_lower_index, qs.tick_upper_index].iter().any(|t| *t == me.tick_lower_index || *t == me.tick_upper_index);
                        if share && qs.liquidity > 0 {
                            self.other_changed_on_bound.insert(q, true);
                        }
                    }
                }
            }
            if self.bound_recross.get(&p).copied().unwrap_or(0) >= 2 && self.other_changed_on_bound.get(&p).copied().unwrap_or(false) {
                self.nontrivial = true;
            }
            self.bound_recross.insert(p, 0);
            self.other_changed_on_bound.insert(p, false);
            Ok(())
    }
}

impl Monitor for ProRataMonitor {
    fn after(&mut self, h: &Hist, pre: &Snap, post: &Snap, op: &Op, r: &OpResult, l: &mut Local) -> Result<(), String> {
        if let Did::Rejected(code) = &r.did {
            // crediting and paying out have no reason to be refused: collect_fees always, update_fees_and_rewards whenever the position
            // holds liquidity and the right tick arrays are named
            match op {
                Op::CollectFees { .. } => return Err(format!("collect_fees was refused with {code}")),
                Op::UpdateFees { .. } if !r.skewed => {
                    let liq = r.pos.and_then(|p| pre.positions[p].as_ref()).map(|s| s.liquidity).unwrap_or(0);
                    if liq > 0 {
                        return Err(format!("update_fees_and_rewards on a position with liquidity {liq} was refused with {code}"));
                    }
                }
                _ => {}
            }
        }
        if r.did != Did::Ok {
            return Ok(());
        }
        let res = self.after_ok(h, pre, post, op, r, l);
        self.prev_ticks = tick_map(h);
        res
    }

    fn finish(&mut self, h: &mut Hist, _l: &mut Local) -> Result<(), String> {
        // final settlement: update every position with liquidity once more and apply both bounds
        for p in h.open_positions() {
            if h.w.position_state(p).map(|s| s.liquidity).unwrap_or(0) == 0 {
                continue;
            }
            let pre = h.snap();
            let ix = h.w.ix_update_fees(p);
            if !h.w.exec(&ix).ok() {
                continue;
            }
            let post = h.snap();
            self.on_crediting(h, &pre, &post, p, "final update_fees")?;
            self.prev_ticks = tick_map(h);
        }
        Ok(())
    }
}

impl ProRataMonitor {
    fn after_ok(&mut self, h: &Hist, pre: &Snap, post: &Snap, op: &Op, r: &OpResult, _l: &mut Local) -> Result<(), String> {
        match op {
            Op::Swap { .. } | Op::SwapBack { .. } | Op::SwapExact { .. } => {
                let sp = r.swap.as_ref().unwrap();
                let tok = if sp.a_to_b { 0 } else { 1 };
                let prate = pre.pool.protocol_fee_rate as u32;
                let o = r.outcome.as_ref().unwrap();
                for s in &o.steps {
                    if let Some(t) = s.crossed_initialized_tick {
                        for (p, ps) in pre.positions.iter().enumerate() {
                            if let Some(ps) = ps {
                                if ps.liquidity > 0 && (ps.tick_lower_index == t || ps.tick_upper_index == t) {
                                    *self.bound_recross.entry(p).or_default() += 1;
                                }
                            }
                        }
                    }
                    if s.fee_amount == 0 || s.liquidity == 0 {
                        continue;
                    }
                    let cut = (BigUint::from(s.fee_amount) * prate) / PROTOCOL_FEE_DEN;
                    let lp_fee = BigUint::from(s.fee_amount) - cut;
                    for (p, ps) in pre.positions.iter().enumerate() {
                        let Some(ps) = ps else { continue };
                        if ps.liquidity == 0 || !(ps.tick_lower_index <= s.tick_before && s.tick_before < ps.tick_upper_index) {
                            continue;
                        }
                        let l = &mut self.led.entry(p).or_default()[tok];
                        l.earned.add_frac(&(&lp_fee * b(ps.liquidity)), &b(s.liquidity));
                        l.slack_l += ps.liquidity;
                        self.steps_attributed += 1;
                    }
                }
                // a swap never credits anything to a position
                for (p, ps) in pre.positions.iter().enumerate() {
                    if let (Some(a), Some(Some(bf))) = (ps, post.positions.get(p)) {
                        if a.fee_owed_a != bf.fee_owed_a || a.fee_owed_b != bf.fee_owed_b {
                            return Err(format!("swap changed fees owed of position #{p}"));
                        }
                    }
                }
                Ok(())
            }
            Op::Increase { .. } | Op::Decrease { .. } | Op::Reposition { .. } | Op::UpdateFees { .. } => self.on_crediting(h, pre, post, r.pos.unwrap(), crate::checks::hist::op_name(op)),
            Op::CollectFees { .. } => {
                let p = r.pos.unwrap();
                let (Some(a), Some(bf)) = (pre.positions[p].clone(), post.positions[p].clone()) else { return Ok(()) };
                if bf.fee_owed_a != 0 || bf.fee_owed_b != 0 {
                    return Err(format!("collect_fees left ({}, {}) owed", bf.fee_owed_a, bf.fee_owed_b));
                }
                let u = r.user.unwrap();
                let pl = &h.w.pools[h.pool];
                let (ta, tb) = (h.w.user_token_existing(u, &pl.mint_a.key), h.w.user_token_existing(u, &pl.mint_b.key));
                let got = (post.balances[&ta] - pre.balances[&ta], post.balances[&tb] - pre.balances[&tb]);
                if got != (a.fee_owed_a, a.fee_owed_b) {
                    return Err(format!("collect_fees paid {got:?} but ({}, {}) was owed", a.fee_owed_a, a.fee_owed_b));
                }
                if bf.liquidity != a.liquidity || bf.fee_growth_checkpoint_a != a.fee_growth_checkpoint_a {
                    return Err("collect_fees changed liquidity or checkpoints".into());
                }
                self.collects_checked += 1;
                Ok(())
            }
            _ => {
                // nothing else may touch fees owed
                for (p, ps) in pre.positions.iter().enumerate() {
                    if let (Some(a), Some(Some(bf))) = (ps, post.positions.get(p)) {
                        if a.fee_owed_a != bf.fee_owed_a || a.fee_owed_b != bf.fee_owed_b {
                            return Err(format!("{op:?} changed fees owed of position #{p}"));
                        }
                    }
                }
                Ok(())
            }
        }
    }
}

pub fn check_history(case: &HistoryCase, l: &mut Local) -> Result<(), String> {
    let mut m = ProRataMonitor::default();
    m.wrap_start = case.spec.growth_a0 > (1u128 << 127) || case.spec.growth_b0 > (1u128 << 127);
    let stats = run_history(case, &mut [&mut m], l)?;
    count_stats(&stats, l);
    l.count_n("creditings_checked", m.creditings_checked as u64);
    l.count_n("steps_attributed_to_positions", m.steps_attributed as u64);
    l.count_n("lower_bound_skipped_documented_overflow", m.lower_bound_skipped_overflow as u64);
    l.count_n("fee_collections_checked", m.collects_checked as u64);
    if m.wrap_start {
        l.count("histories_starting_near_wraparound");
    }
    if m.nontrivial {
        l.count("nontrivial_histories");
        if m.wrap_start {
            l.count("nontrivial_histories_near_wraparound");
        }
        l.nontrivial(hash_of(case));
        l.sample(|| json!({"spec": case.spec, "n_ops": case.ops.len(), "ops_head": case.ops.iter().take(8).collect::<Vec<_>>(), "stats": format!("{stats:?}")}));
    }
    Ok(())
}

pub fn def() -> CheckDef {
    CheckDef {
        id: "C07",
        rule: "mixed-op histories (accumulators poked to arbitrary start values incl. just below 2^128 while the pool has no positions) through the real \
               entrypoint; harness ledger per position and token: exact share E += lp_fee_step * L_p / L_step (two-sided 2^-192 fixed-point enclosure) for \
               every traced swap step with lower <= tick_at_step < upper; at every crediting (update_fees, increase, decrease, by-amounts, reposition; plus a \
               final update of every position) credited <= E and E - credited <= sum(L_p)/2^64 over in-range steps + number of creditings; skipped (counted) \
               only on the documented u64 overflow drop; swaps and other ops never change fees owed; collect_fees pays exactly what is owed.  \
               Non-trivial = a position whose bound was crossed >= 2 times between two creditings while another position sharing that bound changed.",
        assumptions: vec!["nsvm runtime as in DESIGN.md §5", "in-range convention = the program's lower <= tick_current < upper at the start of a step (tied to traded liquidity by C05)", "per-step LP fee from the H2 trace (formula decided by C06)"],
        subs: vec![sub("histories", 30_000, 600_000, || history_strategy(false, true, 50), |c: &HistoryCase, l: &mut Local| check_history(c, l))],
    }
}
