//! C11 — rewards accrue at the set emission rate, pro rata to in-range liquidity.
use super::c01::{growth_inside, tick_map};
use super::c07::TokLedger;
use super::hist::*;
use crate::decode::TickD;
use crate::history::*;
use crate::model::*;
use crate::runner::*;
use num_bigint::BigUint;
use num_traits::{ToPrimitive, Zero};
use serde_json::json;
use std::collections::BTreeMap;

const SCALE: u32 = 192;

#[derive(Default)]
pub struct RewardMonitor {
    pub started: bool,
    pub last: u64,
    pub e: [u128; 3],
    pub nrew: usize,
    pub led: BTreeMap<usize, [TokLedger; 3]>,
    pub prev_ticks: BTreeMap<i32, TickD>,
    pub intervals_accrued: u32,
    pub intervals_dropped_overflow: u32,
    pub intervals_zero_liquidity: u32,
    pub creditings_checked: u32,
    pub lower_bound_skipped_overflow: u32,
    pub collects: u32,
    pub collects_partial: u32,
    pub collects_with_transfer_fee: u32,
    pub rate_changes_ok: u32,
    pub rate_changes_rejected: u32,
    pub rate_boundary_accepts: u32,
    pub rate_boundary_rejects: u32,
    pub backwards_rejections: u32,
    pub left_and_reentered: BTreeMap<usize, (bool, bool)>,
    pub nontrivial_reentry: bool,
}

fn updates_rewards(op: &Op) -> bool {
    matches!(
        op,
        Op::Swap { .. } | Op::SwapBack { .. } | Op::SwapExact { .. } | Op::Increase { .. } | Op::Decrease { .. } | Op::Reposition { .. } | Op::UpdateFees { .. } | Op::SetEmissions { .. } | Op::SetEmissionsNearVault { .. }
    )
}

impl RewardMonitor {
    fn start(&mut self, h: &Hist, pre: &Snap) {
        self.started = true;
        self.nrew = h.w.pools[h.pool].rewards.len();
        self.last = pre.pool.reward_last_updated_timestamp;
        for i in 0..3 {
            self.e[i] = pre.pool.rewards[i].emissions_per_second_x64;
        }
    }

    /// settle the interval [last, now] with the pre-state liquidity / tick, at the rates in force
    fn settle(&mut self, pre: &Snap, now: u64) {
        let dt = now - self.last;
        self.last = now;
        if dt == 0 {
            return;
        }
        if pre.pool.liquidity == 0 {
            self.intervals_zero_liquidity += 1;
            return;
        }
        for i in 0..self.nrew {
            if self.e[i] == 0 {
                continue;
            }
            let prod = b(dt as u128) * b(self.e[i]);
            if prod.bits() > 128 {
                self.intervals_dropped_overflow += 1;
                continue; // documented drop: nothing accrues for this interval
            }
            self.intervals_accrued += 1;
            for (p, ps) in pre.positions.iter().enumerate() {
                let Some(ps) = ps else { continue };
                let inr = ps.tick_lower_index <= pre.pool.tick_current_index && pre.pool.tick_current_index < ps.tick_upper_index;
                let st = self.left_and_reentered.entry(p).or_insert((false, false));
                if ps.liquidity > 0 {
                    if !inr {
                        st.0 = true;
                    } else if st.0 {
                        st.1 = true;
                    }
                }
                if ps.liquidity == 0 || !inr {
                    continue;
                }
                let l = &mut self.led.entry(p).or_default()[i];
                // tokens = e*dt*L_p / (2^64 * L_pool)
                l.earned.add_frac(&(&prod * b(ps.liquidity)), &(b(pre.pool.liquidity) << 64u32));
                l.slack_l += ps.liquidity;
            }
        }
    }

    fn crediting(&mut self, pre: &Snap, post: &Snap, p: usize, what: &str) -> Result<(), String> {
        let (Some(a), Some(bf)) = (pre.positions.get(p).cloned().flatten(), post.positions.get(p).cloned().flatten()) else { return Ok(()) };
        for i in 0..3 {
            let delta = bf.reward_owed[i].wrapping_sub(a.reward_owed[i]);
            if i >= self.nrew {
                if delta != 0 || bf.reward_owed[i] != 0 {
                    return Err(format!("{what}: position #{p} was credited {delta} of uninitialized reward {i}"));
                }
                continue;
            }
            // documented drop of the position product?  (decided from pre-state accounts; growth_global as settled = post.pool)
            let mut dropped = false;
            if a.liquidity > 0 {
                match (self.prev_ticks.get(&a.tick_lower_index), self.prev_ticks.get(&a.tick_upper_index)) {
                    (Some(tl), Some(tu)) => {
                        let inside = growth_inside(
                            pre.pool.tick_current_index,
                            a.tick_lower_index,
                            a.tick_upper_index,
                            post.pool.rewards[i].growth_global_x64,
                            tl.reward_growths_outside[i],
                            tu.reward_growths_outside[i],
                        );
                        dropped = owed_delta(a.liquidity, inside.wrapping_sub(a.reward_checkpoint[i])).to_u64().is_none();
                    }
                    _ => dropped = false,
                }
            }
            let l = &mut self.led.entry(p).or_default()[i];
            l.credited += delta;
            l.creditings += 1;
            if (&l.credited << SCALE) > l.earned.hi {
                return Err(format!(
                    "{what}: position #{p} reward {i} credited {} in total but its exact share of emissions is only {} (+fraction)",
                    l.credited,
                    &l.earned.hi >> SCALE
                ));
            }
            if dropped {
                self.lower_bound_skipped_overflow += 1;
                let c = l.credited.clone();
                l.earned.set(&c);
                l.slack_l = BigUint::zero();
                l.creditings = 0;
                continue;
            }
            let cs = &l.credited << SCALE;
            if l.earned.lo > cs {
                let shortfall = &l.earned.lo - &cs;
                let allowed = (&l.slack_l << (SCALE - 64)) + (BigUint::from(l.creditings) << SCALE);
                if shortfall > allowed {
                    return Err(format!(
                        "{what}: position #{p} reward {i} credited {} but exact share is {} (beyond the rounding bound of {} tokens)",
                        l.credited,
                        &l.earned.lo >> SCALE,
                        &allowed >> SCALE
                    ));
                }
            }
        }
        if let Some((true, true)) = self.left_and_reentered.get(&p) {
            self.nontrivial_reentry = true;
        }
        self.left_and_reentered.insert(p, (false, false));
        self.creditings_checked += 1;
        Ok(())
    }

    fn after_inner(&mut self, h: &Hist, pre: &Snap, post: &Snap, op: &Op, r: &OpResult) -> Result<(), String> {
        let now = pre.clock.max(0) as u64;
        let upd = updates_rewards(op);
        if r.did != Did::Ok {
            if let (Did::Rejected(_), true) = (&r.did, upd && now < self.last) {
                self.backwards_rejections += 1;
            }
            if let (Did::Rejected(code), Op::SetEmissions { .. } | Op::SetEmissionsNearVault { .. }) = (&r.did, op) {
                self.rate_changes_rejected += 1;
                if matches!(op, Op::SetEmissionsNearVault { .. }) {
                    self.rate_boundary_rejects += 1;
                }
                // a rate whose one-day emission the vault can fund must not be refused for lack of funds
                if *code == 6027 && self.nrew > 0 {
                    let (idx, e) = match op {
                        Op::SetEmissions { index, emissions_x64 } => (*index as usize % self.nrew, *emissions_x64),
                        Op::SetEmissionsNearVault { index, delta } => {
                            let idx = *index as usize % self.nrew;
                            let vault = pre.balances[&h.w.pools[h.pool].rewards[idx].vault];
                            let e_max = (((b(vault as u128) + 1u32) << 64u32) - 1u32) / 86400u32;
                            let e = if *delta >= 0 { e_max + (*delta as u32) } else if e_max >= b((-*delta) as u128) { e_max - b((-*delta) as u128) } else { BigUint::zero() };
                            (idx, e.to_u128().unwrap_or(u128::MAX))
                        }
                        _ => unreachable!(),
                    };
                    let per_day = (b(86400) * b(e)) >> 64u32;
                    let vault = pre.balances[&h.w.pools[h.pool].rewards[idx].vault];
                    if per_day <= BigUint::from(vault) {
                        return Err(format!("emissions {e} refused as unfunded although a day of emissions {per_day} fits the vault balance {vault}"));
                    }
                }
            }
            if let (Did::Rejected(1), Op::CollectReward { .. }) = (&r.did, op) {
                return Err("collect_reward failed for lack of vault funds instead of paying min(owed, vault)".into());
            }
            // collecting an initialized reward of an open position by its owner into an account of the reward's mint pays
            // min(owed, vault): it has no reason to be refused
            if let (Did::Rejected(code), Op::CollectReward { .. }) = (&r.did, op) {
                return Err(format!("collect_reward on an initialized reward was refused with {code}"));
            }
            return Ok(());
        }
        if matches!(op, Op::AdvanceClock(_) | Op::FundRewardVault { .. } | Op::AdvanceEpoch(_) | Op::SetTransferFee { .. }) {
            return Ok(());
        }
        if !upd {
            if post.pool.reward_last_updated_timestamp != pre.pool.reward_last_updated_timestamp {
                return Err(format!("{op:?} moved the reward timestamp"));
            }
            for i in 0..3 {
                if post.pool.rewards[i].growth_global_x64 != pre.pool.rewards[i].growth_global_x64 {
                    return Err(format!("{op:?} changed reward growth {i}"));
                }
            }
        } else {
            if now < self.last {
                return Err(format!("{op:?} succeeded with timestamp {now} earlier than the last reward update {}", self.last));
            }
            // growth accrues only when the model says so (zero liquidity / uninitialized / dropped intervals: unchanged)
            let dt = now - self.last;
            for i in 0..3 {
                let g0 = pre.pool.rewards[i].growth_global_x64;
                let g1 = post.pool.rewards[i].growth_global_x64;
                let want = if i < self.nrew && pre.pool.liquidity > 0 && dt > 0 {
                    let prod = b(dt as u128) * b(self.e[i]);
                    if prod.bits() > 128 {
                        g0
                    } else {
                        g0.wrapping_add((prod / b(pre.pool.liquidity)).to_u128().unwrap())
                    }
                } else {
                    g0
                };
                if g1 != want {
                    return Err(format!("reward {i} growth {g0} -> {g1}, emissions {} x {dt}s over liquidity {} give {want}", self.e[i], pre.pool.liquidity));
                }
            }
            self.settle(pre, now);
            if post.pool.reward_last_updated_timestamp != now {
                return Err(format!("reward timestamp is {} after an updating instruction at {now}", post.pool.reward_last_updated_timestamp));
            }
        }
        match op {
            Op::Increase { .. } | Op::Decrease { .. } | Op::Reposition { .. } | Op::UpdateFees { .. } => {
                self.crediting(pre, post, r.pos.unwrap(), op_name(op))?;
            }
            Op::SetEmissions { .. } | Op::SetEmissionsNearVault { .. } => {
                // which index / rate was set: read back the one field that may change
                let mut changed = vec![];
                for i in 0..3 {
                    let new = post.pool.rewards[i].emissions_per_second_x64;
                    if new != self.e[i] {
                        changed.push(i);
                    }
                    if i < self.nrew {
                        // acceptance rule: the vault must hold a day of emissions at the new rate
                        let per_day = (b(86400) * b(new)) >> 64u32;
                        let vault = pre.balances[&h.w.pools[h.pool].rewards[i].vault];
                        if new != self.e[i] && per_day > BigUint::from(vault) {
                            return Err(format!("emissions {new} accepted for reward {i} although a day of emissions {per_day} exceeds the vault balance {vault}"));
                        }
                    }
                    self.e[i] = new;
                }
                if changed.len() > 1 {
                    return Err("one set_reward_emissions changed several rates".into());
                }
                self.rate_changes_ok += 1;
                if matches!(op, Op::SetEmissionsNearVault { .. }) {
                    self.rate_boundary_accepts += 1;
                }
            }
            Op::CollectReward { index, .. } => {
                let p = r.pos.unwrap();
                let i = *index as usize % self.nrew.max(1);
                let (Some(a), Some(bf)) = (pre.positions[p].clone(), post.positions[p].clone()) else { return Ok(()) };
                let rw = &h.w.pools[h.pool].rewards[i];
                let vault0 = pre.balances[&rw.vault];
                let want = a.reward_owed[i].min(vault0);
                let dest = h.w.user_token_existing(r.user.unwrap(), &rw.mint.key);
                let got = post.balances[&dest] - pre.balances[&dest];
                // a Token-2022 reward mint may withhold a transfer fee from what the vault pays out
                let fee = super::c16::fee_of(rw.mint.transfer_fee, want);
                if got != want - fee || post.balances[&rw.vault] != vault0 - want {
                    return Err(format!("collect_reward paid {got} to the owner and {} out of the vault, expected min(owed {}, vault {vault0}) = {want} (transfer fee {fee})", vault0 - post.balances[&rw.vault], a.reward_owed[i]));
                }
                if fee > 0 {
                    self.collects_with_transfer_fee += 1;
                }
                if bf.reward_owed[i] != a.reward_owed[i] - want {
                    return Err(format!("collect_reward left {} owed, expected {}", bf.reward_owed[i], a.reward_owed[i] - want));
                }
                for j in 0..3 {
                    if j != i && bf.reward_owed[j] != a.reward_owed[j] {
                        return Err("collect_reward changed another reward".into());
                    }
                }
                self.collects += 1;
                if want < a.reward_owed[i] {
                    self.collects_partial += 1;
                }
            }
            _ => {}
        }
        // nobody but the acted-on position is credited
        for (p, ps) in pre.positions.iter().enumerate() {
            if Some(p) == r.pos {
                continue;
            }
            if let (Some(a), Some(Some(bf))) = (ps, post.positions.get(p)) {
                if a.reward_owed != bf.reward_owed {
                    return Err(format!("{op:?} changed rewards owed of position #{p}"));
                }
            }
        }
        Ok(())
    }
}

impl Monitor for RewardMonitor {
    fn after(&mut self, h: &Hist, pre: &Snap, post: &Snap, op: &Op, r: &OpResult, _l: &mut Local) -> Result<(), String> {
        if !self.started {
            self.start(h, pre);
        }
        let res = self.after_inner(h, pre, post, op, r);
        if r.did == Did::Ok {
            self.prev_ticks = tick_map(h);
        }
        res
    }

    fn finish(&mut self, h: &mut Hist, _l: &mut Local) -> Result<(), String> {
        if !self.started {
            return Ok(());
        }
        // make sure the clock is not behind, then settle every position once more
        let now = h.w.bank.clock.unix_timestamp.max(0) as u64;
        if now < self.last {
            h.w.bank.clock.unix_timestamp = self.last as i64;
        }
        for p in h.open_positions() {
            if h.w.position_state(p).map(|s| s.liquidity).unwrap_or(0) == 0 {
                continue;
            }
            let pre = h.snap();
            let ix = h.w.ix_update_fees(p);
            if !h.w.exec(&ix).ok() {
                continue;
            }
            let post = h.snap();
            let now = pre.clock.max(0) as u64;
            self.settle(&pre, now);
            self.crediting(&pre, &post, p, "final update")?;
            self.prev_ticks = tick_map(h);
        }
        Ok(())
    }
}

pub fn check_history(case: &HistoryCase, l: &mut Local) -> Result<(), String> {
    let mut m = RewardMonitor::default();
    let stats = run_history(case, &mut [&mut m], l)?;
    count_stats(&stats, l);
    l.count_n("intervals_accrued", m.intervals_accrued as u64);
    l.count_n("intervals_dropped_dt_x_rate_overflow", m.intervals_dropped_overflow as u64);
    l.count_n("intervals_zero_liquidity", m.intervals_zero_liquidity as u64);
    l.count_n("creditings_checked", m.creditings_checked as u64);
    l.count_n("lower_bound_skipped_position_overflow", m.lower_bound_skipped_overflow as u64);
    l.count_n("reward_collections", m.collects as u64);
    l.count_n("reward_collections_partial_vault", m.collects_partial as u64);
    l.count_n("reward_collections_with_transfer_fee", m.collects_with_transfer_fee as u64);
    l.count_n("rate_changes_accepted", m.rate_changes_ok as u64);
    l.count_n("rate_changes_rejected", m.rate_changes_rejected as u64);
    l.count_n("rate_at_vault_boundary_accepted", m.rate_boundary_accepts as u64);
    l.count_n("rate_at_vault_boundary_rejected", m.rate_boundary_rejects as u64);
    l.count_n("rejections_while_clock_behind", m.backwards_rejections as u64);
    l.count(&format!("histories_with_{}_rewards", m.nrew));
    if m.nrew >= 2 && m.rate_changes_ok >= 1 && m.nontrivial_reentry {
        l.count("nontrivial_histories");
        l.nontrivial(hash_of(case));
        l.sample(|| json!({"spec": case.spec, "n_ops": case.ops.len(), "ops_head": case.ops.iter().take(8).collect::<Vec<_>>(), "stats": format!("{stats:?}")}));
    }
    Ok(())
}

pub fn def() -> CheckDef {
    CheckDef {
        id: "C11",
        rule: "mixed-op histories with a harness-owned clock (forward steps of seconds..months, occasional backward steps), 1-3 rewards with generated emission \
               rates and vault funding, rate changes incl. rates exactly at / one above the one-day vault boundary, reward growth poked near wrap-around; \
               at every reward-updating instruction the model settles e*dt pro rata over in-range liquidity (exact share in a 2^-192 enclosure) and compares the \
               pool's growth accumulators exactly; at every crediting credited <= share and share - credited <= sum(L_p)/2^64 per interval + creditings; nothing \
               for uninitialized rewards / zero liquidity / dropped intervals; an updating instruction with an earlier timestamp must fail; collect pays \
               min(owed, vault); set-emissions accepted only if the vault holds a day of emissions.  Non-trivial = >=2 rewards, >=1 accepted rate change and a \
               position that left and re-entered range between two creditings.",
        assumptions: vec!["nsvm runtime as in DESIGN.md §5", "the harness owns the clock; one timestamp per instruction"],
        subs: vec![sub("histories", 30_000, 600_000, || history_strategy(true, false, 60), |c: &HistoryCase, l: &mut Local| check_history(c, l))],
    }
}
