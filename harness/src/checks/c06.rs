//! C06 — trader input = curve amount + protocol share + LP share; protocol-fee collection; Traded event.
use super::hist::*;
use crate::history::*;
use crate::model::*;
use crate::runner::*;
use anchor_lang::Discriminator;
use num_bigint::BigUint;
use num_traits::{CheckedSub, ToPrimitive};
use serde_json::json;
use whirlpool::math::sqrt_price_from_tick_index;

#[derive(Debug, Clone, PartialEq, Eq)]
pub struct TradedEv {
    pub whirlpool: [u8; 32],
    pub a_to_b: bool,
    pub pre_sqrt_price: u128,
    pub post_sqrt_price: u128,
    pub input_amount: u64,
    pub output_amount: u64,
    pub input_transfer_fee: u64,
    pub output_transfer_fee: u64,
    pub lp_fee: u64,
    pub protocol_fee: u64,
}

pub fn parse_traded(ev: &[u8]) -> Option<TradedEv> {
    if ev.len() != 8 + 113 || &ev[..8] != whirlpool::events::Traded::DISCRIMINATOR {
        return None;
    }
    let d = &ev[8..];
    let u64_at = |o: usize| u64::from_le_bytes(d[o..o + 8].try_into().unwrap());
    let u128_at = |o: usize| u128::from_le_bytes(d[o..o + 16].try_into().unwrap());
    Some(TradedEv {
        whirlpool: d[0..32].try_into().unwrap(),
        a_to_b: d[32] != 0,
        pre_sqrt_price: u128_at(33),
        post_sqrt_price: u128_at(49),
        input_amount: u64_at(65),
        output_amount: u64_at(73),
        input_transfer_fee: u64_at(81),
        output_transfer_fee: u64_at(89),
        lp_fee: u64_at(97),
        protocol_fee: u64_at(105),
    })
}

#[derive(Default)]
pub struct FeeSplitMonitor {
    pub swaps_checked: u32,
    pub steps_checked: u32,
    pub multi_step_nontrivial: bool,
    pub single_segment_hookfree: u32,
    pub remainder_fee_steps: u32,
    pub budget_spent_exactly_at_target: u32,
    pub zero_liquidity_steps: u32,
    pub protocol_collects: u32,
    pub protocol_collects_nonzero: u32,
    pub adaptive_steps: u32,
}

impl FeeSplitMonitor {
    fn check_swap(&mut self, h: &Hist, pre: &Snap, post: &Snap, r: &OpResult) -> Result<(), String> {
        let sp = r.swap.as_ref().unwrap();
        let o = r.outcome.as_ref().unwrap();
        let (a_to_b, exact_in) = (sp.a_to_b, sp.exact_in);
        let prate = pre.pool.protocol_fee_rate as u32;
        let mut sum_in = BigUint::from(0u8);
        let mut sum_out = BigUint::from(0u8);
        let mut sum_fee = BigUint::from(0u8);
        let mut sum_cut = BigUint::from(0u8);
        let mut growth = if a_to_b { pre.pool.fee_growth_global_a } else { pre.pool.fee_growth_global_b };
        let mut crossing = false;
        let mut gap = false;
        for (i, s) in o.steps.iter().enumerate() {
            self.steps_checked += 1;
            if h.w.pools[h.pool].adaptive {
                // the schedule itself is decided by C14; here only the bounds of the rate entering the fee formula
                if s.fee_rate < pre.pool.fee_rate as u32 || s.fee_rate > 100_000 {
                    return Err(format!("step {i}: adaptive pool charged rate {} outside [static {}, 100000]", s.fee_rate, pre.pool.fee_rate));
                }
                self.adaptive_steps += 1;
            } else if s.fee_rate != pre.pool.fee_rate as u32 {
                return Err(format!("step {i}: charged rate {} on a static pool whose fee rate is {}", s.fee_rate, pre.pool.fee_rate));
            }
            let stopped_short = s.sqrt_price_after != s.sqrt_price_target;
            let want_fee = if exact_in && stopped_short {
                self.remainder_fee_steps += 1;
                BigUint::from(s.amount_remaining_before) - BigUint::from(s.amount_in.min(s.amount_remaining_before))
            } else {
                if exact_in && s.amount_remaining_before as u128 == s.amount_in as u128 + s.fee_amount as u128 {
                    self.budget_spent_exactly_at_target += 1;
                }
                fee_on_input(s.amount_in, s.fee_rate)
            };
            if BigUint::from(s.fee_amount) != want_fee {
                return Err(format!("step {i}: fee {} but in={} rate={} (stopped short: {stopped_short}, exact-in: {exact_in}) gives {want_fee}", s.fee_amount, s.amount_in, s.fee_rate));
            }
            let cut = (BigUint::from(s.fee_amount) * prate) / PROTOCOL_FEE_DEN;
            if s.liquidity > 0 {
                let lp = BigUint::from(s.fee_amount) - &cut;
                let g = ((lp << 64u32) / b(s.liquidity)).to_u128().ok_or("growth increment exceeds u128")?;
                growth = growth.wrapping_add(g);
            } else {
                self.zero_liquidity_steps += 1;
                gap = true;
            }
            sum_in += s.amount_in;
            sum_out += s.amount_out;
            sum_fee += s.fee_amount;
            sum_cut += cut;
            if s.crossed_initialized_tick.is_some() {
                crossing = true;
            }
        }
        // pool accounting
        let (owed_in_pre, owed_in_post, owed_out_pre, owed_out_post) = if a_to_b {
            (pre.pool.protocol_fee_owed_a, post.pool.protocol_fee_owed_a, pre.pool.protocol_fee_owed_b, post.pool.protocol_fee_owed_b)
        } else {
            (pre.pool.protocol_fee_owed_b, post.pool.protocol_fee_owed_b, pre.pool.protocol_fee_owed_a, post.pool.protocol_fee_owed_a)
        };
        if BigUint::from(owed_in_post) != BigUint::from(owed_in_pre) + &sum_cut {
            return Err(format!("protocol fees owed moved {owed_in_pre} -> {owed_in_post}, per-step shares sum to {sum_cut}"));
        }
        if owed_out_pre != owed_out_post {
            return Err("protocol fees owed of the output token changed".into());
        }
        let (g_in_post, g_out_pre, g_out_post) = if a_to_b {
            (post.pool.fee_growth_global_a, pre.pool.fee_growth_global_b, post.pool.fee_growth_global_b)
        } else {
            (post.pool.fee_growth_global_b, pre.pool.fee_growth_global_a, post.pool.fee_growth_global_a)
        };
        if g_in_post != growth {
            return Err(format!("fee growth of the input token is {g_in_post}, per-step LP shares give {growth}"));
        }
        if g_out_pre != g_out_post {
            return Err("fee growth of the output token changed".into());
        }
        // balances: trader pays in+fee, receives out, nothing else of anyone moves, vaults mirror
        let u = r.user.unwrap();
        let pl = &h.w.pools[h.pool];
        let (t_in, t_out, v_in, v_out) = if a_to_b {
            (h.w.user_token_existing(u, &pl.mint_a.key), h.w.user_token_existing(u, &pl.mint_b.key), pl.vault_a, pl.vault_b)
        } else {
            (h.w.user_token_existing(u, &pl.mint_b.key), h.w.user_token_existing(u, &pl.mint_a.key), pl.vault_b, pl.vault_a)
        };
        let paid = &sum_in + &sum_fee;
        for (k, before) in &pre.balances {
            let after = post.balances[k];
            let (want, what) = if *k == t_in {
                (BigUint::from(*before).checked_sub(&paid), "trader input account")
            } else if *k == t_out {
                (Some(BigUint::from(*before) + &sum_out), "trader output account")
            } else if *k == v_in {
                (Some(BigUint::from(*before) + &paid), "input vault")
            } else if *k == v_out {
                (BigUint::from(*before).checked_sub(&sum_out), "output vault")
            } else {
                (Some(BigUint::from(*before)), "an uninvolved token account")
            };
            if want != Some(BigUint::from(after)) {
                return Err(format!("{what} {k}: {before} -> {after}, expected {want:?} (in={sum_in} fee={sum_fee} out={sum_out})"));
            }
        }
        // event
        let evs: Vec<TradedEv> = o.events.iter().filter_map(|e| parse_traded(e)).collect();
        if evs.len() != 1 {
            return Err(format!("{} Traded events emitted", evs.len()));
        }
        let e = &evs[0];
        let want = TradedEv {
            whirlpool: pl.key.to_bytes(),
            a_to_b,
            pre_sqrt_price: pre.pool.sqrt_price,
            post_sqrt_price: post.pool.sqrt_price,
            input_amount: paid.to_u64().ok_or("input exceeds u64")?,
            output_amount: sum_out.to_u64().ok_or("output exceeds u64")?,
            input_transfer_fee: 0,
            output_transfer_fee: 0,
            lp_fee: (&sum_fee - &sum_cut).to_u64().unwrap(),
            protocol_fee: sum_cut.to_u64().unwrap(),
        };
        if *e != want {
            return Err(format!("trade record {e:?} differs from the amounts moved {want:?}"));
        }
        // hook-free cross-validation on single-segment swaps: everything from account deltas + exact curve
        let (p0, p1) = (pre.pool.sqrt_price, post.pool.sqrt_price);
        let (lo, hi) = (p0.min(p1), p0.max(p1));
        let single_segment = !h.initialized_ticks().iter().any(|t| {
            let p = sqrt_price_from_tick_index(*t);
            p >= lo && p <= hi
        });
        if single_segment && p0 != p1 && !h.w.pools[h.pool].adaptive {
            let l = pre.pool.liquidity;
            let (inf, outf) = if a_to_b { (a_frac(l, p0, p1), b_frac(l, p0, p1)) } else { (b_frac(l, p0, p1), a_frac(l, p0, p1)) };
            let in_model = ceil_div(&inf.0, &inf.1);
            let mut out_model = &outf.0 / &outf.1;
            if !exact_in && out_model > BigUint::from(sp.amount) {
                out_model = BigUint::from(sp.amount);
            }
            let total_in = BigUint::from(pre.balances[&t_in] - post.balances[&t_in]);
            let got_out = BigUint::from(post.balances[&t_out] - pre.balances[&t_out]);
            if got_out != out_model {
                return Err(format!("single-segment swap paid out {got_out}, exact curve (floor) gives {out_model}"));
            }
            if total_in < in_model {
                return Err(format!("single-segment swap took {total_in} < curve input {in_model}"));
            }
            let fee_model = &total_in - &in_model;
            let in64 = in_model.to_u64().ok_or("curve input exceeds u64")?;
            let formula = fee_on_input(in64, pre.pool.fee_rate as u32);
            let limit_hit = sp.sqrt_price_limit != 0 && p1 == sp.sqrt_price_limit || p1 == MIN_SQRT_PRICE || p1 == MAX_SQRT_PRICE;
            let ok = if exact_in && !limit_hit { total_in == BigUint::from(sp.amount) || fee_model == formula } else { fee_model == formula };
            if !ok {
                return Err(format!("single-segment swap: fee from deltas {fee_model} vs formula {formula} (in {in_model}, total {total_in}, amount {})", sp.amount));
            }
            if o.steps.iter().filter(|s| s.amount_in > 0 || s.amount_out > 0 || s.fee_amount > 0).count() > 1 {
                return Err("trace reports several trading steps for a swap inside one liquidity segment".into());
            }
            let (tin, tfee): (u64, u64) = (o.steps.iter().map(|s| s.amount_in).sum(), o.steps.iter().map(|s| s.fee_amount).sum());
            if BigUint::from(tin) != in_model || BigUint::from(tfee) != fee_model {
                return Err(format!("trace (in {tin}, fee {tfee}) disagrees with account deltas + exact curve (in {in_model}, fee {fee_model})"));
            }
            self.single_segment_hookfree += 1;
        }
        self.swaps_checked += 1;
        if o.steps.len() >= 2 && (crossing || gap) && prate > 0 {
            self.multi_step_nontrivial = true;
        }
        Ok(())
    }
}

impl Monitor for FeeSplitMonitor {
    fn after(&mut self, h: &Hist, pre: &Snap, post: &Snap, op: &Op, r: &OpResult, _l: &mut Local) -> Result<(), String> {
        if let (Did::Rejected(code), Op::CollectProtocolFees { .. }) = (&r.did, op) {
            return Err(format!("collect_protocol_fees by its authority was refused with {code}"));
        }
        if r.did != Did::Ok {
            return Ok(());
        }
        match op {
            Op::Swap { .. } | Op::SwapBack { .. } | Op::SwapExact { .. } => self.check_swap(h, pre, post, r),
            Op::CollectProtocolFees { .. } => {
                let pl = &h.w.pools[h.pool];
                let (da, db) = (h.w.user_token_existing(h.treasury, &pl.mint_a.key), h.w.user_token_existing(h.treasury, &pl.mint_b.key));
                self.protocol_collects += 1;
                if pre.pool.protocol_fee_owed_a > 0 || pre.pool.protocol_fee_owed_b > 0 {
                    self.protocol_collects_nonzero += 1;
                }
                if post.pool.protocol_fee_owed_a != 0 || post.pool.protocol_fee_owed_b != 0 {
                    return Err("protocol fees owed not reset by collection".into());
                }
                for (k, before) in &pre.balances {
                    let after = post.balances[k] as i128;
                    let want = *before as i128
                        + if *k == da {
                            pre.pool.protocol_fee_owed_a as i128
                        } else if *k == db {
                            pre.pool.protocol_fee_owed_b as i128
                        } else if *k == pl.vault_a {
                            -(pre.pool.protocol_fee_owed_a as i128)
                        } else if *k == pl.vault_b {
                            -(pre.pool.protocol_fee_owed_b as i128)
                        } else {
                            0
                        };
                    if after != want {
                        return Err(format!("collect_protocol_fees: account {k} {before} -> {after}, expected {want} (owed {} / {})", pre.pool.protocol_fee_owed_a, pre.pool.protocol_fee_owed_b));
                    }
                }
                Ok(())
            }
            // no other instruction may change what is owed to the protocol
            _ => {
                if pre.pool.protocol_fee_owed_a != post.pool.protocol_fee_owed_a || pre.pool.protocol_fee_owed_b != post.pool.protocol_fee_owed_b {
                    return Err(format!("protocol fees owed changed by {op:?}"));
                }
                Ok(())
            }
        }
    }
}

pub fn check_history(case: &HistoryCase, l: &mut Local) -> Result<(), String> {
    let mut m = FeeSplitMonitor::default();
    let stats = run_history(case, &mut [&mut m], l)?;
    count_stats(&stats, l);
    l.count_n("swaps_checked", m.swaps_checked as u64);
    l.count_n("steps_checked", m.steps_checked as u64);
    l.count_n("single_segment_hookfree_checks", m.single_segment_hookfree as u64);
    l.count_n("remainder_fee_steps", m.remainder_fee_steps as u64);
    l.count_n("steps_reaching_their_target_with_the_budget_spent_exactly", m.budget_spent_exactly_at_target as u64);
    l.count_n("zero_liquidity_steps", m.zero_liquidity_steps as u64);
    l.count_n("protocol_fee_collections", m.protocol_collects as u64);
    l.count_n("protocol_fee_collections_nonzero", m.protocol_collects_nonzero as u64);
    l.count_n("adaptive_pool_steps_checked", m.adaptive_steps as u64);
    if m.multi_step_nontrivial {
        l.count("nontrivial_histories");
        l.nontrivial(hash_of(case));
        l.sample(|| json!({"spec": case.spec, "n_ops": case.ops.len(), "ops_head": case.ops.iter().take(8).collect::<Vec<_>>(), "stats": format!("{stats:?}")}));
    }
    Ok(())
}

pub fn def() -> CheckDef {
    CheckDef {
        id: "C06",
        rule: "mixed-op histories on static-fee and (one in five) adaptive-fee pools (fee rate 0..=60000, protocol rate 0..=2500) through the real entrypoint; every successful swap is checked \
               step by step from the H2 trace (fee formula or remainder, protocol cut floor, LP growth floor with wrap, static rate), against account deltas of \
               every token account in the world (trader pays exactly sum(in+fee), receives sum(out), nothing else moves), the pool's owed/growth fields and \
               the emitted Traded event; single-segment swaps are re-derived hook-free from deltas + the exact curve and must agree with the trace; \
               collect_protocol_fees pays exactly what was owed and resets it; no other instruction changes what is owed.  Non-trivial = history with a \
               swap of >=2 steps incl. a crossing or zero-liquidity gap with protocol rate > 0.  Adaptive-fee rates are decided in C14.  two_hop_trade_records: the trade records and balance movements of a two-hop equal those of its two single swaps.",
        assumptions: vec!["nsvm runtime as in DESIGN.md §5", "H2 trace hook; cross-validated hook-free on single-segment swaps"],
        subs: vec![
            sub("histories", 30_000, 600_000, || history_strategy(false, false, 40), |c: &HistoryCase, l: &mut Local| check_history(c, l)),
            // two-hop swaps: the two trade records must be those of the two single swaps (each of which the histories sub-check decides
            // against the per-step formulas), and the trader pays only leg one's input (C17's comparison, run here for the C06 clauses)
            sub("two_hop_trade_records", 10_000, 300_000, super::c17::case_strategy, |c: &super::c17::TwoHopCase, l: &mut Local| super::c17::check_case(c, l, false)),
        ],
    }
}
