//! C10 — a swap crosses exactly the initialized ticks in its path, however the tick arrays are packaged.
use crate::decode::{TickD, WhirlpoolD};
use crate::history::*;
use crate::model::*;
use crate::runner::*;
use crate::world::*;
use num_bigint::BigUint;
use num_traits::ToPrimitive;
use proptest::prelude::*;
use serde::{Deserialize, Serialize};
use serde_json::json;
use solana_program::pubkey::Pubkey;
use std::collections::BTreeMap;
use whirlpool::math::{compute_swap, sqrt_price_from_tick_index, tick_index_from_sqrt_price};

#[derive(Clone, Debug, Serialize, Deserialize, Hash)]
pub struct PackCase {
    pub hist: HistoryCase,
    pub a_to_b: bool,
    pub exact_in: bool,
    pub amount: u64,
    pub limit: LimitSel,
    pub v2: bool,
    /// seeds the per-call account-order permutation
    pub order_seed: u8,
}

/// abstract tick contents of a pool: initialized ticks only, whatever array holds them
pub fn abstract_ticks(h: &Hist) -> BTreeMap<i32, TickD> {
    super::c01::tick_map(h)
}

#[derive(Clone, Debug, PartialEq, Eq)]
pub struct Outcome {
    pub ok: bool,
    pub code: u64,
    pub paid: u64,
    pub received: u64,
    pub pool: Option<WhirlpoolD>,
    pub ticks: BTreeMap<i32, TickD>,
    pub crossed: Vec<i32>,
}

fn run_swap(h: &Hist, user: usize, sp: &SwapParams, arrays: [Pubkey; 3], supplemental: &[Pubkey], v2: bool) -> Outcome {
    run_swap_flags(h, user, sp, arrays, supplemental, v2, false)
}

/// `readonly_supplemental`: the supplemental tick arrays are passed as read-only accounts (the instruction cannot write them)
fn run_swap_flags(h: &Hist, user: usize, sp: &SwapParams, arrays: [Pubkey; 3], supplemental: &[Pubkey], v2: bool, readonly_supplemental: bool) -> Outcome {
    let mut hh = Hist { w: h.w.clone(), spec: h.spec.clone(), pool: h.pool, lps: h.lps.clone(), traders: h.traders.clone(), treasury: h.treasury, array_starts: h.array_starts.clone(), base_unit: h.base_unit, last_swap: None };
    let pl = hh.w.pools[hh.pool].clone();
    let (ta, tb) = (hh.w.user_token_existing(user, &pl.mint_a.key), hh.w.user_token_existing(user, &pl.mint_b.key));
    let (a0, b0) = (hh.w.balance(&ta), hh.w.balance(&tb));
    let mut ix = if v2 || !supplemental.is_empty() { hh.w.ix_swap_v2_with_arrays(hh.pool, user, sp, arrays, supplemental) } else { hh.w.ix_swap_with_arrays(hh.pool, user, sp, arrays) };
    if readonly_supplemental {
        let n = ix.accounts.len();
        for m in ix.accounts[n - supplemental.len()..].iter_mut() {
            m.is_writable = false;
        }
    }
    let o = hh.w.exec(&ix);
    if !o.ok() {
        return Outcome { ok: false, code: o.code().unwrap(), paid: 0, received: 0, pool: None, ticks: BTreeMap::new(), crossed: vec![] };
    }
    let (a1, b1) = (hh.w.balance(&ta), hh.w.balance(&tb));
    let (paid, received) = if sp.a_to_b { (a0 - a1, b1 - b0) } else { (b0 - b1, a1 - a0) };
    Outcome {
        ok: true,
        code: 0,
        paid,
        received,
        pool: Some(hh.w.pool_state(hh.pool)),
        ticks: abstract_ticks(&hh),
        crossed: o.steps.iter().filter_map(|s| s.crossed_initialized_tick).collect(),
    }
}

/// Reference walk over the abstract tick set (DESIGN.md §2.4).  `compute_swap` is the step function (decided by C02).
/// Returns Err(()) when the swap must be refused (runs off the three-array window, partial exact-out fill, arithmetic).
#[allow(clippy::type_complexity)]
pub fn reference_walk(pool: &WhirlpoolD, ticks: &BTreeMap<i32, TickD>, sp: &SwapParams) -> Result<(u64, u64, u128, i32, u128, Vec<(i32, u128, u128)>, u128, u64), String> {
    let ts = pool.tick_spacing as i32;
    let n = 88 * ts;
    let a_to_b = sp.a_to_b;
    let limit = if sp.sqrt_price_limit == 0 { if a_to_b { MIN_SQRT_PRICE } else { MAX_SQRT_PRICE } } else { sp.sqrt_price_limit };
    if !(MIN_SQRT_PRICE..=MAX_SQRT_PRICE).contains(&limit) {
        return Err("limit out of bounds".into());
    }
    if (a_to_b && limit >= pool.sqrt_price) || (!a_to_b && limit <= pool.sqrt_price) {
        return Err("limit direction".into());
    }
    if sp.amount == 0 {
        return Err("zero amount".into());
    }
    // the window of (up to three) arrays and where it ends
    let starts = swap_array_starts(pool.tick_current_index, pool.tick_spacing, a_to_b);
    if starts.is_empty() {
        return Err("no array".into());
    }
    let last = *starts.last().unwrap();
    let window_end = if a_to_b { if last <= MIN_TICK { MIN_TICK } else { last } } else if last + n > MAX_TICK { MAX_TICK } else { last + n - 1 };
    let (mut price, mut tick, mut liq) = (pool.sqrt_price, pool.tick_current_index, pool.liquidity);
    let mut remaining = sp.amount;
    let mut calculated: u64 = 0;
    let mut growth = if a_to_b { pool.fee_growth_global_a } else { pool.fee_growth_global_b };
    let mut protocol: u64 = 0;
    let mut crossed = vec![];
    let mut window_exhausted = false;
    while remaining > 0 && price != limit {
        if window_exhausted {
            return Err("runs off the supplied arrays".into());
        }
        // next initialized tick inside the window, else the window's end tick
        let next_init = if a_to_b { ticks.range(..=tick).next_back().map(|(t, _)| *t).filter(|t| *t >= window_end) } else { ticks.range(tick + 1..).next().map(|(t, _)| *t).filter(|t| *t <= window_end) };
        // the first array of the window must contain the search start; ticks beyond the window are invisible
        let next_tick = next_init.unwrap_or(window_end);
        let next_price = sqrt_price_from_tick_index(next_tick);
        let target = if a_to_b { next_price.max(limit) } else { next_price.min(limit) };
        let step = compute_swap(remaining, pool.fee_rate as u32, liq, price, target, sp.exact_in, a_to_b).map_err(|e| format!("step error {e:?}"))?;
        if sp.exact_in {
            remaining = remaining.checked_sub(step.amount_in).and_then(|x| x.checked_sub(step.fee_amount)).ok_or("remaining underflow")?;
            calculated = calculated.checked_add(step.amount_out).ok_or("calc overflow")?;
        } else {
            remaining = remaining.checked_sub(step.amount_out).ok_or("remaining underflow")?;
            calculated = calculated.checked_add(step.amount_in).and_then(|x| x.checked_add(step.fee_amount)).ok_or("calc overflow")?;
        }
        let cut = ((step.fee_amount as u128) * pool.protocol_fee_rate as u128 / 10_000) as u64;
        protocol = protocol.wrapping_add(cut);
        if liq > 0 {
            growth = growth.wrapping_add((((step.fee_amount - cut) as u128) << 64) / liq);
        }
        if step.next_price == next_price {
            if let Some(t) = ticks.get(&next_tick).filter(|_| next_init.is_some()) {
                // outside accumulators flip against the accumulators as they stand at the moment of crossing
                let (oa, ob) = if a_to_b {
                    (growth.wrapping_sub(t.fee_growth_outside_a), pool.fee_growth_global_b.wrapping_sub(t.fee_growth_outside_b))
                } else {
                    (pool.fee_growth_global_a.wrapping_sub(t.fee_growth_outside_a), growth.wrapping_sub(t.fee_growth_outside_b))
                };
                crossed.push((next_tick, oa, ob));
                // crossing the outermost slot of the last array moves the search into a fourth array, which is never supplied
                if (a_to_b && next_tick == last) || (!a_to_b && next_tick == last + n - ts) {
                    window_exhausted = true;
                }
                let net = t.liquidity_net;
                let delta = if a_to_b { -net } else { net };
                liq = if delta >= 0 { liq.checked_add(delta as u128).ok_or("liquidity overflow")? } else { liq.checked_sub(delta.unsigned_abs()).ok_or("liquidity underflow")? };
            } else if next_init.is_none() && next_tick != MIN_TICK && next_tick != MAX_TICK {
                window_exhausted = true;
            } else if next_init.is_none() {
                // protocol tick bound reached: nothing beyond
                window_exhausted = true;
            }
            tick = if a_to_b { next_tick - 1 } else { next_tick };
        } else if step.next_price != price {
            tick = tick_index_from_sqrt_price(&step.next_price);
        }
        price = step.next_price;
    }
    if remaining > 0 && !sp.exact_in && sp.sqrt_price_limit == 0 {
        return Err("partial exact-out fill".into());
    }
    let (paid, received) = if sp.exact_in { (sp.amount - remaining, calculated) } else { (calculated, sp.amount - remaining) };
    Ok((paid, received, price, tick, liq, crossed, growth, protocol))
}

/// A successful swap outcome crossed exactly the initialized ticks between the start state and its end price, in price order,
/// each once, and the pool liquidity is the start liquidity plus the signed nets of those ticks.  A tick whose price equals the
/// end price may or may not have been crossed.
fn no_liquidity_skipped(pool0: &WhirlpoolD, ticks0: &BTreeMap<i32, TickD>, a_to_b: bool, o: &Outcome) -> Result<(), String> {
    let p = o.pool.as_ref().ok_or("no pool state")?;
    let p_end = p.sqrt_price;
    let mut must: Vec<i32> = vec![];
    let mut may: Option<i32> = None;
    if a_to_b {
        if p_end > pool0.sqrt_price {
            return Err("the price moved against the trade direction".into());
        }
        for (t, _) in ticks0.range(..=pool0.tick_current_index).rev() {
            let pt = sqrt_price_from_tick_index(*t);
            if pt > p_end {
                must.push(*t);
            } else if pt == p_end {
                may = Some(*t);
            }
        }
    } else {
        if p_end < pool0.sqrt_price {
            return Err("the price moved against the trade direction".into());
        }
        for (t, _) in ticks0.range(pool0.tick_current_index + 1..) {
            let pt = sqrt_price_from_tick_index(*t);
            if pt < p_end {
                must.push(*t);
            } else if pt == p_end {
                may = Some(*t);
            }
        }
    }
    let mut with_edge = must.clone();
    if let Some(t) = may {
        with_edge.push(t);
    }
    if o.crossed != must && o.crossed != with_edge {
        return Err(format!("it crossed {:?} while the initialized ticks between the start and its end price {p_end} are {must:?} (+ {may:?} exactly at the end price)", o.crossed));
    }
    let mut liq = pool0.liquidity as i128;
    for t in &o.crossed {
        let net = ticks0[t].liquidity_net;
        liq = if a_to_b { liq - net } else { liq + net };
    }
    if liq < 0 || liq as u128 != p.liquidity {
        return Err(format!("pool liquidity {} is not the start liquidity with the crossed ticks applied ({liq})", p.liquidity));
    }
    if o.ticks.len() != ticks0.len() || o.ticks.iter().any(|(t, v)| !o.crossed.contains(t) && ticks0.get(t) != Some(v)) {
        return Err("a tick outside the crossed list changed".into());
    }
    Ok(())
}

fn permute(arr: [Pubkey; 3], seed: u8) -> [Pubkey; 3] {
    match seed % 6 {
        0 => arr,
        1 => [arr[0], arr[2], arr[1]],
        2 => [arr[1], arr[0], arr[2]],
        3 => [arr[1], arr[2], arr[0]],
        4 => [arr[2], arr[0], arr[1]],
        _ => [arr[2], arr[1], arr[0]],
    }
}

pub fn check_case(c: &PackCase, l: &mut Local) -> Result<(), String> {
    // the same history in four packagings
    let mask = c.hist.spec.dynamic_mask;
    let variants: [(&str, u64, u8); 4] = [("as generated", mask, 0), ("encodings flipped", !mask, 0), ("all fixed + empty arrays on-chain", 0, 3), ("all dynamic + empty arrays on-chain", u64::MAX, 2)];
    let mut built: Vec<(&str, Hist)> = vec![];
    for (name, m, pre) in variants {
        let mut spec = c.hist.spec.clone();
        spec.dynamic_mask = m;
        spec.precreate_arrays = pre;
        let Some(mut h) = Hist::build(&spec) else { return Ok(()) };
        for op in &c.hist.ops {
            h.exec(op);
        }
        built.push((name, h));
    }
    // after the prefix: abstract state identical in every packaging (all liquidity ops went through both encodings)
    let base_pool = built[0].1.w.pool_state(built[0].1.pool);
    let base_ticks = abstract_ticks(&built[0].1);
    for (name, h) in &built[1..] {
        let p = h.w.pool_state(h.pool);
        // pool keys differ between worlds only through mint keys; compare the numeric state
        let same = (p.liquidity, p.sqrt_price, p.tick_current_index, p.fee_growth_global_a, p.fee_growth_global_b, p.protocol_fee_owed_a, p.protocol_fee_owed_b, p.fee_rate, p.protocol_fee_rate)
            == (base_pool.liquidity, base_pool.sqrt_price, base_pool.tick_current_index, base_pool.fee_growth_global_a, base_pool.fee_growth_global_b, base_pool.protocol_fee_owed_a, base_pool.protocol_fee_owed_b, base_pool.fee_rate, base_pool.protocol_fee_rate);
        if !same {
            return Err(format!("after the same history the pool state differs in packaging `{name}`"));
        }
        if abstract_ticks(h) != base_ticks {
            return Err(format!("after the same history the initialized ticks differ in packaging `{name}`"));
        }
    }
    // the swap
    let h0 = &built[0].1;
    let user = h0.traders[0];
    let limit = h0.resolve_limit(&c.limit, c.a_to_b);
    let sp = SwapParams { amount: c.amount, threshold: SwapParams::neutral_threshold(c.exact_in), sqrt_price_limit: limit, exact_in: c.exact_in, a_to_b: c.a_to_b };
    let full = run_swap(h0, user, &sp, h0.w.swap_arrays(h0.pool, c.a_to_b), &[], c.v2);
    // ---- (2) reference walk over the abstract tick set
    let want = reference_walk(&base_pool, &base_ticks, &sp);
    match (&want, full.ok) {
        (Ok((paid, received, price, tick, liq, crossed, growth, protocol)), true) => {
            let p = full.pool.as_ref().unwrap();
            let (g_in, owed_in, owed_in0) = if c.a_to_b { (p.fee_growth_global_a, p.protocol_fee_owed_a, base_pool.protocol_fee_owed_a) } else { (p.fee_growth_global_b, p.protocol_fee_owed_b, base_pool.protocol_fee_owed_b) };
            if (full.paid, full.received, p.sqrt_price, p.tick_current_index, p.liquidity) != (*paid, *received, *price, *tick, *liq) {
                return Err(format!(
                    "program (paid {}, received {}, price {}, tick {}, liquidity {}) vs walk over the initialized ticks (paid {paid}, received {received}, price {price}, tick {tick}, liquidity {liq})",
                    full.paid, full.received, p.sqrt_price, p.tick_current_index, p.liquidity
                ));
            }
            if g_in != *growth || owed_in != owed_in0.wrapping_add(*protocol) {
                return Err("fee growth / protocol fee differ from the reference walk".into());
            }
            let crossed_idx: Vec<i32> = crossed.iter().map(|c| c.0).collect();
            if full.crossed != crossed_idx {
                return Err(format!("crossed ticks {:?}, the initialized ticks in the path are {crossed_idx:?}", full.crossed));
            }
            // exactly the crossed ticks changed, each once, flipped against the accumulators at the moment of crossing
            for (t, before) in &base_ticks {
                let after = full.ticks.get(t).ok_or_else(|| format!("tick {t} disappeared"))?;
                let hits: Vec<&(i32, u128, u128)> = crossed.iter().filter(|x| x.0 == *t).collect();
                match hits.len() {
                    0 => {
                        if after != before {
                            return Err(format!("tick {t} is not in the swap's path but changed"));
                        }
                    }
                    1 => {
                        let mut want = before.clone();
                        want.fee_growth_outside_a = hits[0].1;
                        want.fee_growth_outside_b = hits[0].2;
                        if *after != want {
                            return Err(format!("tick {t} after crossing is {after:?}, expected {want:?}"));
                        }
                    }
                    n => return Err(format!("tick {t} crossed {n} times")),
                }
            }
            if full.ticks.len() != base_ticks.len() {
                return Err("the set of initialized ticks changed during a swap".into());
            }
            l.count("walk_agrees_ok");
        }
        (Err(_), false) => l.count(&format!("walk_agrees_refused/{}", full.code)),
        (Ok((paid, ..)), false) => {
            // the only refusal the walk does not model: the trader cannot fund the input
            let pl = &h0.w.pools[h0.pool];
            let acct = h0.w.user_token_existing(user, if c.a_to_b { &pl.mint_a.key } else { &pl.mint_b.key });
            if !(full.code == 1 && *paid > h0.w.balance(&acct)) {
                return Err(format!("the program refuses ({}) a swap the reference walk completes (paid {paid})", full.code));
            }
            l.count("refused_trader_funds");
        }
        (Err(e), true) => return Err(format!("the program completes a swap the reference walk refuses: {e}")),
    }
    // ---- (1) metamorphic: packagings and per-call supply variations that name every needed array
    let cmp_with = |what: &str, o: &Outcome, same_window: bool| -> Result<(), String> {
        if o.ok != full.ok {
            return Err(format!("{what}: accepted={} but the reference packaging accepted={}", o.ok, full.ok));
        }
        if o.ok {
            let (p, q) = (o.pool.as_ref().unwrap(), full.pool.as_ref().unwrap());
            // With a shorter window a swap that stops exactly on the window's edge tick (an uninitialized tick) records the
            // same price with the tick index in the "shifted" representation (T-1 instead of T).  Both describe the same
            // price and the same liquidity; the property only fixes the window-independent outcome for complete supplies.
            let tick_equivalent = p.tick_current_index == q.tick_current_index
                || (!same_window
                    && p.sqrt_price == q.sqrt_price
                    && (p.tick_current_index - q.tick_current_index).abs() == 1
                    && sqrt_price_from_tick_index(p.tick_current_index.max(q.tick_current_index)) == p.sqrt_price
                    && !full.ticks.contains_key(&p.tick_current_index.max(q.tick_current_index)));
            if (o.paid, o.received, p.sqrt_price, p.liquidity, p.fee_growth_global_a, p.fee_growth_global_b, p.protocol_fee_owed_a, p.protocol_fee_owed_b)
                != (full.paid, full.received, q.sqrt_price, q.liquidity, q.fee_growth_global_a, q.fee_growth_global_b, q.protocol_fee_owed_a, q.protocol_fee_owed_b)
                || !tick_equivalent
                || o.ticks != full.ticks
                || o.crossed != full.crossed
            {
                let mut parts = vec![];
                if (o.paid, o.received) != (full.paid, full.received) {
                    parts.push(format!("amounts ({}, {}) vs ({}, {})", o.paid, o.received, full.paid, full.received));
                }
                if (p.sqrt_price, p.tick_current_index, p.liquidity) != (q.sqrt_price, q.tick_current_index, q.liquidity) {
                    parts.push(format!("price/tick/liquidity ({}, {}, {}) vs ({}, {}, {})", p.sqrt_price, p.tick_current_index, p.liquidity, q.sqrt_price, q.tick_current_index, q.liquidity));
                }
                if (p.fee_growth_global_a, p.fee_growth_global_b, p.protocol_fee_owed_a, p.protocol_fee_owed_b) != (q.fee_growth_global_a, q.fee_growth_global_b, q.protocol_fee_owed_a, q.protocol_fee_owed_b) {
                    parts.push("fee accumulators".to_string());
                }
                if o.ticks != full.ticks {
                    let d: Vec<i32> = o.ticks.iter().filter(|(t, v)| full.ticks.get(t) != Some(v)).map(|(t, _)| *t).collect();
                    parts.push(format!("tick contents at {d:?} ({} vs {} initialized ticks)", o.ticks.len(), full.ticks.len()));
                }
                if o.crossed != full.crossed {
                    parts.push(format!("crossed {:?} vs {:?}", o.crossed, full.crossed));
                }
                return Err(format!("{what}: outcome differs from the reference packaging: {}", parts.join("; ")));
            }
        }
        Ok(())
    };
    let cmp = |what: &str, o: &Outcome| cmp_with(what, o, true);
    let mut packagings = 1;
    for (name, h) in &built[1..] {
        let arr = h.w.swap_arrays(h.pool, c.a_to_b);
        cmp(name, &run_swap(h, h.traders[0], &sp, arr, &[], c.v2))?;
        packagings += 1;
    }
    for (name, h) in &built {
        let arr = h.w.swap_arrays(h.pool, c.a_to_b);
        cmp(&format!("{name}, permuted account order"), &run_swap(h, h.traders[0], &sp, permute(arr, c.order_seed), &[], c.v2))?;
        // the three real arrays as supplemental accounts, unrelated (far away, uninitialized) PDAs in the fixed slots
        let pk = h.w.pools[h.pool].key;
        let far = tick_array_pda(&pk, array_start(MAX_TICK, h.spec.tick_spacing));
        let fixed_slots = if arr.contains(&far) { [arr[0], arr[0], arr[0]] } else { [far, far, far] };
        cmp(&format!("{name}, arrays passed as supplemental accounts"), &run_swap(h, h.traders[0], &sp, fixed_slots, &permute(arr, c.order_seed.wrapping_add(1)), true))?;
        // the same with the supplemental accounts passed READ-ONLY: the instruction cannot record crossings in them, so it must be refused
        // unless the swap never needs to write them; a success must still be the full outcome (no initialized tick skipped)
        {
            let o = run_swap_flags(h, h.traders[0], &sp, fixed_slots, &permute(arr, c.order_seed.wrapping_add(1)), true, true);
            if o.ok {
                cmp(&format!("{name}, arrays passed as read-only supplemental accounts"), &o)?;
                l.count("readonly_supplemental_accepted_with_the_full_outcome");
            } else {
                l.count("readonly_supplemental_refused");
            }
        }
        // extra supplemental arrays beyond the window (the array behind the start and the fourth array ahead) change nothing
        let starts = h.w.swap_array_starts(h.pool, c.a_to_b);
        if let (Some(first), Some(last)) = (starts.first(), starts.last()) {
            let n = 88 * h.spec.tick_spacing as i32;
            let (behind, ahead) = if c.a_to_b { (first + n, last - n) } else { (first - n, last + n) };
            let extra: Vec<Pubkey> = [behind, ahead].iter().filter(|s| **s >= array_start(MIN_TICK, h.spec.tick_spacing) && **s <= MAX_TICK).map(|s| tick_array_pda(&pk, *s)).filter(|k| !arr.contains(k)).collect();
            if !extra.is_empty() {
                cmp(&format!("{name}, extra supplemental arrays outside the window"), &run_swap(h, h.traders[0], &sp, arr, &extra, true))?;
                packagings += 1;
            }
        }
        packagings += 2;
    }
    // reduced supply: fails, or equals the full outcome
    {
        let arr = h0.w.swap_arrays(h0.pool, c.a_to_b);
        for (what, supply) in [("first array only", [arr[0], arr[0], arr[0]]), ("first two arrays", [arr[0], arr[1], arr[1]]), ("first and third array", [arr[0], arr[2], arr[2]])] {
            let o = run_swap(h0, user, &sp, supply, &[], c.v2);
            if o.ok {
                if cmp_with(&format!("reduced supply ({what}) succeeded"), &o, false).is_ok() {
                    l.count("reduced_supply_still_sufficient");
                } else {
                    // The swap stopped inside the shortened window (the program ends a step on the edge tick of the last supplied
                    // array, so a budget that runs out there ends the swap with a different step split and therefore different
                    // rounding).  What the property requires of it: no liquidity was skipped.
                    no_liquidity_skipped(&base_pool, &base_ticks, c.a_to_b, &o).map_err(|e| format!("reduced supply ({what}) succeeded but {e}"))?;
                    l.count("reduced_supply_stopped_inside_the_window_no_liquidity_skipped");
                }
            } else {
                l.count("reduced_supply_refused");
            }
        }
    }
    // an (initialized) array of another pool among the accounts is rejected
    {
        let mut hh = Hist { w: h0.w.clone(), spec: h0.spec.clone(), pool: h0.pool, lps: h0.lps.clone(), traders: h0.traders.clone(), treasury: h0.treasury, array_starts: h0.array_starts.clone(), base_unit: h0.base_unit, last_swap: None };
        let mut spec2 = h0.spec.clone();
        spec2.precreate_arrays = 0;
        if let Some(ctx2) = hh.add_second_pool(&spec2, true) {
            let starts = hh.w.swap_array_starts(hh.pool, c.a_to_b);
            if starts.is_empty() {
                // the price stands in the last slot of the outermost array: no array lies ahead of a swap in this direction
                l.count("no_array_ahead_of_the_swap");
                return Ok(());
            }
            let foreign_start = starts[starts.len() / 2];
            let ix = hh.w.ix_init_tick_array(ctx2.pool, foreign_start, c.order_seed % 2 == 0);
            if hh.w.exec(&ix).ok() {
                let mut arr = hh.w.swap_arrays(hh.pool, c.a_to_b);
                arr[(c.order_seed % 3) as usize] = tick_array_pda(&hh.w.pools[ctx2.pool].key, foreign_start);
                let o = run_swap(&hh, user, &sp, arr, &[], c.v2);
                if o.ok {
                    return Err("a swap accepted a tick array that belongs to another pool".into());
                }
                l.count("foreign_array_rejected");
                // ... and as an extra (supplemental) account next to the complete own supply
                let own = hh.w.swap_arrays(hh.pool, c.a_to_b);
                let foreign = tick_array_pda(&hh.w.pools[ctx2.pool].key, foreign_start);
                let o = run_swap(&hh, user, &sp, own, &[foreign], true);
                if o.ok {
                    return Err("a swap accepted a tick array that belongs to another pool as a supplemental account".into());
                }
                l.count(if own.iter().all(|k| *k < foreign) { "foreign_supplemental_array_rejected/sorted_after_own" } else { "foreign_supplemental_array_rejected" });
            }
        }
    }
    l.count_n("packagings_compared", packagings);
    let spans = full.crossed.iter().map(|t| array_start(*t, h0.spec.tick_spacing)).collect::<std::collections::BTreeSet<_>>().len();
    if full.ok && full.crossed.len() >= 2 && spans >= 2 {
        l.count("nontrivial_cases");
        l.nontrivial(hash_of(c));
        l.sample(|| json!({"spec": c.hist.spec, "prefix_ops": c.hist.ops.len(), "a_to_b": c.a_to_b, "exact_in": c.exact_in, "amount": c.amount, "crossed": full.crossed, "arrays_spanned": spans}));
    } else if full.ok && !full.crossed.is_empty() {
        l.count("cases_with_crossing");
    }
    Ok(())
}

/// histories whose positions are spread over several arrays, with bounds on array edges
fn layout_history() -> BoxedStrategy<HistoryCase> {
    let edge_range = prop_oneof![
        // a bound on the first / last slot of an array (array = 88 slots)
        3 => (-3i32..=3, prop::sample::select(vec![0i32, 87, 88, 1, 86]), 1i32..200).prop_map(|(a, s, w)| RangeSel::Rel { lo: a * 88 + s, hi: a * 88 + s + w }),
        3 => (-200i32..=200, 1i32..=260).prop_map(|(lo, w)| RangeSel::Rel { lo, hi: lo + w }),
        2 => (-12i32..=12, 1i32..=12).prop_map(|(lo, w)| RangeSel::Rel { lo, hi: lo + w }),
        1 => Just(RangeSel::Full),
    ];
    let prelude = prop::collection::vec(
        (0u8..3, kind_strategy(), edge_range, (24u32..50).prop_map(|b| 1u128 << b)).prop_map(|(lp, kind, range, liquidity)| vec![Op::Open { lp, kind, range }, Op::Increase { pos: u16::MAX, liquidity, variant: IncVariant::V2 }]),
        3..=9,
    )
    .prop_map(|v| v.into_iter().flatten().collect::<Vec<Op>>());
    // one layout in seven sits at an END of the tick range on a spacing whose first / last usable tick is the first / last slot of its
    // array (the outermost arrays, the sentinel ticks and the protocol price bounds all come into play)
    let edge = prop_oneof![6 => Just(None), 1 => (prop::sample::select(edge_aligned_spacings().clone()), any::<bool>(), 0i32..120).prop_map(Some)];
    let spec = (spec_strategy(false, false), prop_oneof![3 => prop::sample::select(vec![1u16, 2, 8]), 2 => Just(0u16)], edge).prop_map(|(mut s, small, edge)| {
        if small != 0 {
            s.tick_spacing = small;
        }
        if let Some((ts, top, k)) = edge {
            let t = ts as i32;
            s.tick_spacing = ts;
            s.start_tick = if top { MAX_TICK / t * t - k * t } else { MIN_TICK / t * t + k * t };
            return s;
        }
        // array-aligned start ticks make "first / last slot" placements meaningful
        if s.start_tick % 3 == 0 && s.tick_spacing < 32768 {
            let n = 88 * s.tick_spacing as i32;
            s.start_tick = s.start_tick.div_euclid(n) * n + (s.start_tick.rem_euclid(3) - 1) * s.tick_spacing as i32;
        }
        s
    });
    (spec, prelude, prop::collection::vec(op_strategy(false), 0..=8))
        .prop_map(|(spec, mut pre, ops)| {
            pre.extend(ops);
            HistoryCase { spec, ops: pre }
        })
        .boxed()
}

fn case_strategy() -> BoxedStrategy<PackCase> {
    let amount = prop_oneof![3 => (28u32..=60, any::<u64>()).prop_map(|(bits, r)| (r >> (64 - bits)) | (1u64 << (bits - 1))), 1 => swap_amount_strategy()];
    (layout_history(), any::<bool>(), any::<bool>(), amount, prop_oneof![2 => Just(LimitSel::None), 4 => (1u8..5).prop_map(LimitSel::InitTick), 1 => limit_strategy()], any::<bool>(), any::<u8>())
        .prop_map(|(hist, a_to_b, exact_in, amount, limit, v2, order_seed)| PackCase { hist, a_to_b, exact_in, amount, limit, v2, order_seed })
        .boxed()
}

pub fn def() -> CheckDef {
    CheckDef {
        id: "C10",
        rule: "a tick layout built through real positions (bounds forced onto first / last slots of arrays, neighbouring arrays, full range, array-aligned and shifted start \
               states, all tick spacings incl. full-range-only, arbitrary ones, and layouts at either end of the tick range on spacings whose first / last usable tick is the first / last slot of its array), replayed as the same instruction history in four packagings (encodings as generated / flipped / all fixed / \
               all dynamic; empty arrays absent or created on-chain), then one swap.  (1) Metamorphic: abstract state after the history and the swap outcome (amounts, pool \
               fields, every initialized tick, crossed list) identical across packagings and across per-call variations (permuted account order, arrays passed as v2 \
               supplemental accounts); reduced supply fails, equals the full outcome, or stops inside the shortened window having crossed exactly the initialized ticks up to its end price (no liquidity skipped); an initialized array of another pool is rejected, in a fixed slot and as a supplemental account next to a complete own supply.  (2) Reference walk over the \
               sorted abstract tick set with the three-array window rule: amounts, final price, tick, liquidity, fee growth, protocol fee and the crossed-tick list must \
               equal the program's; exactly the crossed ticks changed, each once.  Non-trivial = >=2 crossings spanning >=2 arrays.  Adaptive-fee pools are covered by C14.",
        assumptions: vec!["nsvm runtime as in DESIGN.md §5", "the reference walk uses compute_swap as its step function (decided separately by C02); crossed list from the H2 trace is cross-checked against tick contents"],
        subs: vec![sub("packagings", 10_000, 200_000, case_strategy, |c: &PackCase, l: &mut Local| check_case(c, l))],
    }
}
