//! C01 — pool solvency: claims inequality at every prefix, drain replay, closed-run no-extraction.
use super::hist::*;
use crate::decode::TickD;
use crate::history::*;
use crate::model::*;
use crate::runner::*;
use num_bigint::{BigInt, BigUint};
use num_traits::{ToPrimitive, Zero};
use proptest::prelude::*;
use serde::{Deserialize, Serialize};
use serde_json::json;
use std::collections::BTreeMap;
use whirlpool::math::sqrt_price_from_tick_index;

#[derive(Clone, Debug, Serialize, Deserialize, Hash)]
pub struct SolvencyCase {
    pub hist: HistoryCase,
    /// seeds the drain order at each prefix
    pub drain_seed: u64,
    /// drain replay every n-th successful pool-changing instruction (1 = every prefix)
    pub drain_every: u8,
}

pub fn tick_map(h: &Hist) -> BTreeMap<i32, TickD> {
    let ts = h.spec.tick_spacing as i32;
    let mut m = BTreeMap::new();
    for a in h.tick_arrays() {
        for (i, t) in a.ticks.iter().enumerate() {
            if t.initialized {
                m.insert(a.start_tick_index + i as i32 * ts, t.clone());
            }
        }
    }
    m
}

/// fee growth inside [lower, upper) from decoded pool/tick fields (wrapping arithmetic, as specified)
pub fn growth_inside(tick_current: i32, lower: i32, upper: i32, global: u128, out_lower: u128, out_upper: u128) -> u128 {
    let below = if tick_current >= lower { out_lower } else { global.wrapping_sub(out_lower) };
    let above = if tick_current < upper { out_upper } else { global.wrapping_sub(out_upper) };
    global.wrapping_sub(below).wrapping_sub(above)
}

#[derive(Default)]
pub struct SolvencyMonitor {
    pub drain_seed: u64,
    pub drain_every: u8,
    pub pool_changes: u32,
    pub prefix_checks: u32,
    pub drains: u32,
    pub drain_steps: u32,
    pub max_positions: usize,
    pub crossing_seen: bool,
    pub withdraw_after_crossing: bool,
    // closed swap run of one trader
    run_user: Option<usize>,
    run_a: i128,
    run_b: i128,
    run_len: u32,
    pub runs_checked: u32,
    pub longest_run: u32,
    pub round_trips: u32,
}

impl SolvencyMonitor {
    fn claims(&self, h: &Hist, post: &Snap) -> Result<(), String> {
        let ticks = tick_map(h);
        let pool = &post.pool;
        let mut claim_a = BigUint::from(pool.protocol_fee_owed_a);
        let mut claim_b = BigUint::from(pool.protocol_fee_owed_b);
        for (i, ps) in post.positions.iter().enumerate() {
            let Some(ps) = ps else { continue };
            if !h.w.positions[i].open {
                continue;
            }
            claim_a += ps.fee_owed_a;
            claim_b += ps.fee_owed_b;
            if ps.liquidity > 0 {
                let (lo, hi) = (ps.tick_lower_index, ps.tick_upper_index);
                let (pl, pu) = (sqrt_price_from_tick_index(lo), sqrt_price_from_tick_index(hi));
                let (wa, wb) = position_amounts(ps.liquidity, pool.sqrt_price, pl, pu, false);
                claim_a += wa;
                claim_b += wb;
                let tl = ticks.get(&lo).cloned().unwrap_or_default();
                let tu = ticks.get(&hi).cloned().unwrap_or_default();
                let ia = growth_inside(pool.tick_current_index, lo, hi, pool.fee_growth_global_a, tl.fee_growth_outside_a, tu.fee_growth_outside_a);
                let ib = growth_inside(pool.tick_current_index, lo, hi, pool.fee_growth_global_b, tl.fee_growth_outside_b, tu.fee_growth_outside_b);
                let pa = owed_delta(ps.liquidity, ia.wrapping_sub(ps.fee_growth_checkpoint_a));
                let pb = owed_delta(ps.liquidity, ib.wrapping_sub(ps.fee_growth_checkpoint_b));
                // amounts that do not fit u64 are dropped by the program, hence no claim
                if pa.to_u64().is_some() {
                    claim_a += pa;
                }
                if pb.to_u64().is_some() {
                    claim_b += pb;
                }
            }
        }
        let pl = &h.w.pools[h.pool];
        let (va, vb) = (post.balances[&pl.vault_a], post.balances[&pl.vault_b]);
        if BigUint::from(va) < claim_a {
            return Err(format!("vault A holds {va} but claims on it sum to {claim_a}"));
        }
        if BigUint::from(vb) < claim_b {
            return Err(format!("vault B holds {vb} but claims on it sum to {claim_b}"));
        }
        Ok(())
    }

    /// drain a clone of the world in a generated order; every step must succeed
    fn drain(&mut self, h: &Hist) -> Result<(), String> {
        let mut w = h.w.clone();
        let mut order: Vec<usize> = (0..w.positions.len()).filter(|i| w.positions[*i].open).collect();
        self.max_positions = self.max_positions.max(order.len());
        // deterministic shuffle keyed by (seed, prefix number)
        let mut x = self.drain_seed ^ (self.pool_changes as u64).wrapping_mul(0x9e3779b97f4a7c15);
        let mut next = || {
            x ^= x << 13;
            x ^= x >> 7;
            x ^= x << 17;
            x
        };
        next();
        for i in (1..order.len()).rev() {
            let j = (next() % (i as u64 + 1)) as usize;
            order.swap(i, j);
        }
        let proto_at = if order.is_empty() { 0 } else { (next() % (order.len() as u64 + 1)) as usize };
        let pl = w.pools[h.pool].clone();
        let (da, db) = (w.user_token_existing(h.treasury, &pl.mint_a.key), w.user_token_existing(h.treasury, &pl.mint_b.key));
        let mut step = |w: &mut crate::world::World, what: &str, ix: solana_program::instruction::Instruction| -> Result<(), String> {
            let o = w.exec(&ix);
            if !o.ok() {
                return Err(format!("drain step `{what}` failed with {:?} (logs: {:?})", o.result, o.logs.iter().rev().take(2).collect::<Vec<_>>()));
            }
            Ok(())
        };
        for (n, p) in order.iter().enumerate() {
            if n == proto_at {
                let ix = w.ix_collect_protocol_fees(h.pool, da, db, next() % 2 == 0);
                step(&mut w, "collect_protocol_fees", ix)?;
                self.drain_steps += 1;
            }
            let liq = w.position_state(*p).map(|s| s.liquidity).unwrap_or(0);
            if liq > 0 {
                let ix = w.ix_update_fees(*p);
                step(&mut w, &format!("update_fees(position #{p})"), ix)?;
                let ix = w.ix_decrease(*p, liq, 0, 0, next() % 2 == 0);
                step(&mut w, &format!("decrease_all(position #{p}, L={liq})"), ix)?;
                self.drain_steps += 2;
            }
            let ix = w.ix_collect_fees(*p, next() % 2 == 0);
            step(&mut w, &format!("collect_fees(position #{p})"), ix)?;
            self.drain_steps += 1;
        }
        if proto_at >= order.len() {
            let ix = w.ix_collect_protocol_fees(h.pool, da, db, false);
            step(&mut w, "collect_protocol_fees", ix)?;
            self.drain_steps += 1;
        }
        self.drains += 1;
        Ok(())
    }
}

impl Monitor for SolvencyMonitor {
    fn after(&mut self, h: &Hist, pre: &Snap, post: &Snap, op: &Op, r: &OpResult, _l: &mut Local) -> Result<(), String> {
        if r.did != Did::Ok {
            return Ok(());
        }
        let is_swap = matches!(op, Op::Swap { .. } | Op::SwapBack { .. } | Op::SwapExact { .. });
        // --- closed swap runs ---
        if is_swap {
            let u = r.user.unwrap();
            if self.run_user != Some(u) {
                self.run_user = Some(u);
                self.run_a = 0;
                self.run_b = 0;
                self.run_len = 0;
            }
            let pl = &h.w.pools[h.pool];
            let (ta, tb) = (h.w.user_token_existing(u, &pl.mint_a.key), h.w.user_token_existing(u, &pl.mint_b.key));
            self.run_a += post.balances[&ta] as i128 - pre.balances[&ta] as i128;
            self.run_b += post.balances[&tb] as i128 - pre.balances[&tb] as i128;
            self.run_len += 1;
            self.longest_run = self.longest_run.max(self.run_len);
            self.runs_checked += 1;
            if matches!(op, Op::SwapBack { .. }) {
                self.round_trips += 1;
            }
            if self.run_a >= 0 && self.run_b >= 0 && (self.run_a > 0 || self.run_b > 0) {
                return Err(format!(
                    "after {} consecutive swaps the trader holds {:+} of token A and {:+} of token B: value extracted by only swapping",
                    self.run_len, self.run_a, self.run_b
                ));
            }
            if let Some(o) = &r.outcome {
                if o.steps.iter().any(|s| s.crossed_initialized_tick.is_some()) {
                    self.crossing_seen = true;
                }
            }
        } else if !matches!(op, Op::AdvanceClock(_) | Op::AdvanceEpoch(_) | Op::SetTransferFee { .. }) {
            self.run_user = None;
        }
        if self.crossing_seen && matches!(op, Op::Decrease { .. } | Op::CollectFees { .. } | Op::CollectProtocolFees { .. } | Op::Reposition { .. }) {
            self.withdraw_after_crossing = true;
        }
        // --- claims inequality at every prefix ---
        self.prefix_checks += 1;
        self.claims(h, post)?;
        // --- drain replay ---
        if !matches!(op, Op::AdvanceClock(_) | Op::AdvanceEpoch(_) | Op::SetTransferFee { .. } | Op::Open { .. } | Op::SetFeeRate(_) | Op::SetProtocolFeeRate(_)) {
            self.pool_changes += 1;
            if self.pool_changes % self.drain_every.max(1) as u32 == 0 {
                self.drain(h)?;
            }
        }
        Ok(())
    }
}

// ---------------------------------------------------------------------------------------------------
// pool-aware variants (worlds with several pools): used after two-hop swaps

/// initialized ticks of one pool, found by scanning the bank for that pool's tick arrays (either encoding)
pub fn pool_tick_map(w: &crate::world::World, pool: usize) -> BTreeMap<i32, TickD> {
    let (pk, ts) = (w.pools[pool].key, w.pools[pool].tick_spacing as i32);
    let mut m = BTreeMap::new();
    for a in w.bank.accounts.values() {
        if a.owner != crate::world::WP || a.data.len() < crate::decode::DYN_TICK_ARRAY_MIN_LEN {
            continue;
        }
        let is_fixed = a.data[..8] == *<whirlpool::state::FixedTickArray as anchor_lang::Discriminator>::DISCRIMINATOR;
        let is_dyn = a.data[..8] == *<whirlpool::state::DynamicTickArray as anchor_lang::Discriminator>::DISCRIMINATOR;
        if !is_fixed && !is_dyn {
            continue;
        }
        let Ok(d) = crate::decode::tick_array(&a.data) else { continue };
        if d.whirlpool != pk {
            continue;
        }
        for (i, t) in d.ticks.iter().enumerate() {
            if t.initialized {
                m.insert(d.start_tick_index + i as i32 * ts, t.clone());
            }
        }
    }
    m
}

/// claims inequality for one pool of a multi-pool world
pub fn pool_claims(w: &crate::world::World, pool: usize) -> Result<(), String> {
    let ticks = pool_tick_map(w, pool);
    let st = w.pool_state(pool);
    let mut claim_a = BigUint::from(st.protocol_fee_owed_a);
    let mut claim_b = BigUint::from(st.protocol_fee_owed_b);
    for (i, pi) in w.positions.iter().enumerate() {
        if !pi.open || pi.pool != pool {
            continue;
        }
        let Some(ps) = w.position_state(i) else { continue };
        claim_a += ps.fee_owed_a;
        claim_b += ps.fee_owed_b;
        if ps.liquidity > 0 {
            let (lo, hi) = (ps.tick_lower_index, ps.tick_upper_index);
            let (wa, wb) = position_amounts(ps.liquidity, st.sqrt_price, sqrt_price_from_tick_index(lo), sqrt_price_from_tick_index(hi), false);
            claim_a += wa;
            claim_b += wb;
            let tl = ticks.get(&lo).cloned().unwrap_or_default();
            let tu = ticks.get(&hi).cloned().unwrap_or_default();
            let ia = growth_inside(st.tick_current_index, lo, hi, st.fee_growth_global_a, tl.fee_growth_outside_a, tu.fee_growth_outside_a);
            let ib = growth_inside(st.tick_current_index, lo, hi, st.fee_growth_global_b, tl.fee_growth_outside_b, tu.fee_growth_outside_b);
            let pa = owed_delta(ps.liquidity, ia.wrapping_sub(ps.fee_growth_checkpoint_a));
            let pb = owed_delta(ps.liquidity, ib.wrapping_sub(ps.fee_growth_checkpoint_b));
            if pa.to_u64().is_some() {
                claim_a += pa;
            }
            if pb.to_u64().is_some() {
                claim_b += pb;
            }
        }
    }
    let (va, vb) = (w.balance(&w.pools[pool].vault_a), w.balance(&w.pools[pool].vault_b));
    if BigUint::from(va) < claim_a {
        return Err(format!("vault A holds {va} but claims on it sum to {claim_a}"));
    }
    if BigUint::from(vb) < claim_b {
        return Err(format!("vault B holds {vb} but claims on it sum to {claim_b}"));
    }
    Ok(())
}

/// drain one pool of a multi-pool world on a clone (order keyed by `seed`); every step must succeed
pub fn pool_drain(w0: &crate::world::World, pool: usize, treasury: usize, seed: u64) -> Result<u32, String> {
    let mut w = w0.clone();
    let mut order: Vec<usize> = (0..w.positions.len()).filter(|i| w.positions[*i].open && w.positions[*i].pool == pool).collect();
    let mut x = seed | 1;
    let mut next = || {
        x ^= x << 13;
        x ^= x >> 7;
        x ^= x << 17;
        x
    };
    for i in (1..order.len()).rev() {
        let j = (next() % (i as u64 + 1)) as usize;
        order.swap(i, j);
    }
    let pl = w.pools[pool].clone();
    let v2 = pl.mint_a.program != crate::world::TOKEN || pl.mint_b.program != crate::world::TOKEN;
    let (da, db) = (w.user_token_existing(treasury, &pl.mint_a.key), w.user_token_existing(treasury, &pl.mint_b.key));
    let mut steps = 0u32;
    let mut step = |w: &mut crate::world::World, what: &str, ix: solana_program::instruction::Instruction| -> Result<(), String> {
        let o = w.exec(&ix);
        if !o.ok() {
            return Err(format!("drain step `{what}` failed with {:?} (logs: {:?})", o.result, o.logs.iter().rev().take(2).collect::<Vec<_>>()));
        }
        Ok(())
    };
    let proto_first = next() % 2 == 0;
    if proto_first {
        let ix = w.ix_collect_protocol_fees(pool, da, db, v2);
        step(&mut w, "collect_protocol_fees", ix)?;
        steps += 1;
    }
    for p in order {
        let liq = w.position_state(p).map(|s| s.liquidity).unwrap_or(0);
        if liq > 0 {
            let ix = w.ix_update_fees(p);
            step(&mut w, &format!("update_fees(position #{p})"), ix)?;
            let ix = w.ix_decrease(p, liq, 0, 0, v2 || next() % 2 == 0);
            step(&mut w, &format!("decrease_all(position #{p}, L={liq})"), ix)?;
            steps += 2;
        }
        let ix = w.ix_collect_fees(p, v2 || next() % 2 == 0);
        step(&mut w, &format!("collect_fees(position #{p})"), ix)?;
        steps += 1;
    }
    if !proto_first {
        let ix = w.ix_collect_protocol_fees(pool, da, db, v2);
        step(&mut w, "collect_protocol_fees", ix)?;
        steps += 1;
    }
    Ok(steps)
}

/// two pools sharing a mint, a generated history on each, then a two-hop swap (v1 / v2, both modes, optional price limits on either
/// leg): after a successful two-hop BOTH pools must satisfy the claims inequality and survive a full drain
pub fn check_two_hop_solvency(c: &super::c17::TwoHopCase, l: &mut Local) -> Result<(), String> {
    let Some(s) = super::c17::setup(c, l) else { return Ok(()) };
    if c.malformed != 0 {
        return Ok(());
    }
    let mut w = s.h.w.clone();
    // locked positions cannot be drained: this world never locks; the history engine's positions are all plain liquidity positions
    for pool in [s.p_one, s.p_two] {
        pool_claims(&w, pool).map_err(|e| format!("harness: before the two-hop, pool {pool}: {e}"))?;
    }
    let ix = w.ix_two_hop(s.p_one, s.p_two, s.user, &s.params, s.v2);
    let o = w.exec(&ix);
    if !o.ok() {
        l.count(&format!("two_hop_rejected/{}", o.code().unwrap_or(0)));
        return Ok(());
    }
    for (leg, pool) in [(1, s.p_one), (2, s.p_two)] {
        pool_claims(&w, pool).map_err(|e| format!("after two-hop {:?} (v2 {}): leg-{leg} pool: {e}", s.params, s.v2))?;
        let n = pool_drain(&w, pool, s.h.treasury, hash_of(c) ^ leg as u64).map_err(|e| format!("after two-hop {:?} (v2 {}): leg-{leg} pool: {e}", s.params, s.v2))?;
        l.count_n("drain_instructions", n as u64);
    }
    l.count(&format!("two_hop_ok/{}/{}", if s.params.exact_in { "in" } else { "out" }, if s.v2 { "v2" } else { "v1" }));
    let limited = s.params.limit_one != 0 || s.params.limit_two != 0;
    if limited {
        l.count("two_hop_ok_with_price_limit");
    }
    let crossed = o.steps.iter().filter(|st| st.crossed_initialized_tick.is_some()).count();
    if crossed > 0 {
        l.count("two_hop_ok_with_crossing");
    }
    l.nontrivial(hash_of(c));
    l.sample(|| json!({"spec1": c.hist1.spec, "spec2": c.spec2, "params": s.params, "v2": s.v2, "crossings": crossed}));
    Ok(())
}

pub fn check_case(c: &SolvencyCase, l: &mut Local) -> Result<(), String> {
    let mut m = SolvencyMonitor { drain_seed: c.drain_seed, drain_every: c.drain_every, ..Default::default() };
    let stats = run_history(&c.hist, &mut [&mut m], l)?;
    count_stats(&stats, l);
    l.count_n("prefix_claims_checks", m.prefix_checks as u64);
    l.count_n("drain_replays", m.drains as u64);
    l.count_n("drain_instructions", m.drain_steps as u64);
    l.count_n("closed_run_prefixes_checked", m.runs_checked as u64);
    l.count_n("round_trip_swaps", m.round_trips as u64);
    if m.longest_run >= 3 {
        l.count("histories_with_run_of_3+_swaps");
    }
    if stats.positions_opened >= 2 && m.crossing_seen && m.withdraw_after_crossing {
        l.count("nontrivial_histories");
        l.nontrivial(hash_of(c));
        l.sample(|| json!({"spec": c.hist.spec, "n_ops": c.hist.ops.len(), "ops_head": c.hist.ops.iter().take(8).collect::<Vec<_>>(), "stats": format!("{stats:?}"), "drains": m.drains}));
    }
    Ok(())
}

pub fn check_run_case(c: &SolvencyCase, l: &mut Local) -> Result<(), String> {
    let mut m = SolvencyMonitor { drain_seed: c.drain_seed, drain_every: c.drain_every, ..Default::default() };
    let stats = run_history(&c.hist, &mut [&mut m], l)?;
    count_stats(&stats, l);
    l.count_n("closed_run_prefixes_checked", m.runs_checked as u64);
    l.count_n("round_trip_swaps", m.round_trips as u64);
    l.count_n("drain_replays", m.drains as u64);
    if m.longest_run >= 3 {
        l.count("nontrivial_runs");
        if m.crossing_seen {
            l.count("runs_with_tick_crossing");
        }
        l.nontrivial(hash_of(c));
        l.sample(|| json!({"spec": c.hist.spec, "ops": c.hist.ops, "longest_run": m.longest_run}));
    }
    Ok(())
}

fn case_strategy() -> BoxedStrategy<SolvencyCase> {
    (history_strategy(false, false, 40), any::<u64>(), prop_oneof![3 => Just(1u8), 1 => 2u8..5]).prop_map(|(hist, drain_seed, drain_every)| SolvencyCase { hist, drain_seed, drain_every }).boxed()
}
/// C17's two-pool cases, biased towards explicit price limits on the legs (partial fills of a leg)
fn two_hop_case_strategy() -> BoxedStrategy<super::c17::TwoHopCase> {
    (super::c17::case_strategy(), limit_strategy(), limit_strategy(), 0u8..4)
        .prop_map(|(mut c, l1, l2, k)| {
            c.malformed = 0;
            match k {
                0 => c.limit_one = l1,
                1 => c.limit_two = l2,
                2 => {
                    c.limit_one = l1;
                    c.limit_two = l2;
                }
                _ => {}
            }
            c
        })
        .boxed()
}
fn run_case_strategy() -> BoxedStrategy<SolvencyCase> {
    (swap_run_history_strategy(), any::<u64>()).prop_map(|(hist, drain_seed)| SolvencyCase { hist, drain_seed, drain_every: 3 }).boxed()
}

pub fn def() -> CheckDef {
    CheckDef {
        id: "C01",
        rule: "mixed-op histories through the real entrypoint with plain SPL tokens; after EVERY successful instruction (1) claims inequality \
               vault_X >= protocol_fee_owed_X + sum_p(fee_owed + pending fees + floor(exact withdrawal)) computed with BigUint from independently decoded \
               accounts, (2) drain replay on a clone: update-fees, decrease-all, collect-fees for every position in a generated order interleaved with \
               collect-protocol-fees, every step must succeed (judge: the real SPL Token processor), (3) over every closed run of consecutive swaps by one \
               trader the cumulative (dA, dB) is never >=0 in both with one >0; (4) two_hop_solvency: two pools sharing a mint, a generated history on each,                then a two-hop swap (v1 / v2, both modes, price limits on either leg): after a successful two-hop both pools satisfy (1) and survive (2).  Non-trivial history = >=2 positions, a swap crossing an initialized tick, \
               and a decrease/collect/reposition after it; non-trivial run = >=3 consecutive swaps.  Distinct = hash of the case.  Liquidity of an increase is \
               drawn by magnitude or as the exact inverse image of a token amount on a boundary of the u64 result type (0,1,2,2^32-1,2^32,2^63-1,2^63,2^64-2,2^64-1,2^64,2^64+1).",
        assumptions: vec!["nsvm runtime, shims and SPL processors as in DESIGN.md §5", "one instruction per transaction"],
        subs: vec![
            sub("histories", 8000, 150_000, case_strategy, |c: &SolvencyCase, l: &mut Local| check_case(c, l)),
            sub("swap_runs", 20_000, 500_000, run_case_strategy, |c: &SolvencyCase, l: &mut Local| check_run_case(c, l)),
            sub("two_hop_solvency", 20_000, 500_000, two_hop_case_strategy, |c: &super::c17::TwoHopCase, l: &mut Local| check_two_hop_solvency(c, l)),
        ],
    }
}
