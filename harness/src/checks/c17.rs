//! C17 — a two-hop swap equals its two single swaps with a matching intermediate amount.
//! Also hosts the two-hop part of C03 (bounds and thresholds on the outer amounts).
use crate::history::*;
use crate::model::*;
use crate::rt::Bank;
use crate::runner::*;
use crate::world::{SwapParams, TwoHopParams, World};
use proptest::prelude::*;
use serde::{Deserialize, Serialize};
use serde_json::json;
use solana_program::pubkey::Pubkey;

#[derive(Clone, Debug, Serialize, Deserialize, Hash)]
pub struct TwoHopCase {
    pub hist1: HistoryCase,
    pub spec2: WorldSpec,
    pub ops2: Vec<Op>,
    pub share_a: bool,
    pub forward: bool,
    pub trader: u8,
    pub amount: u64,
    pub exact_in: bool,
    pub limit_one: LimitSel,
    pub limit_two: LimitSel,
    pub v2: bool,
    /// 0 = well-formed; 1 = same pool twice; 2 = second leg's direction flipped (legs do not share the intermediate mint)
    pub malformed: u8,
    /// bit 0 / bit 1: the Oracle account of leg one / leg two is passed READ-ONLY, in the two-hop and in that leg's single swap alike;
    /// bit 2 / bit 3: the Oracle account of leg one / leg two is replaced by the OTHER leg's pool's Oracle address, likewise in both
    #[serde(default)]
    pub readonly_oracle: u8,
}

/// the instruction with the named account demoted to read-only
fn demote(mut ix: solana_program::instruction::Instruction, key: &Pubkey) -> solana_program::instruction::Instruction {
    for m in ix.accounts.iter_mut() {
        if m.pubkey == *key {
            m.is_writable = false;
        }
    }
    ix
}

fn demote_oracles(w: &World, mut ix: solana_program::instruction::Instruction, c: &TwoHopCase, p_one: usize, p_two: usize) -> solana_program::instruction::Instruction {
    let (o1, o2) = (w.pools[p_one].oracle, w.pools[p_two].oracle);
    if c.readonly_oracle & 1 != 0 {
        ix = demote(ix, &o1);
    }
    if c.readonly_oracle & 2 != 0 {
        ix = demote(ix, &o2);
    }
    // substitution by position: the first occurrence of o1 is leg one's slot, the occurrence of o2 leg two's
    if c.readonly_oracle & 12 != 0 && o1 != o2 {
        let (i1, i2) = (ix.accounts.iter().position(|m| m.pubkey == o1), ix.accounts.iter().position(|m| m.pubkey == o2));
        if let (Some(i1), true) = (i1, c.readonly_oracle & 4 != 0) {
            ix.accounts[i1].pubkey = o2;
        }
        if let (Some(i2), true) = (i2, c.readonly_oracle & 8 != 0) {
            ix.accounts[i2].pubkey = o1;
        }
    }
    ix
}

pub struct Setup {
    pub h: Hist,
    pub p_one: usize,
    pub p_two: usize,
    pub user: usize,
    pub params: TwoHopParams,
    pub v2: bool,
    pub m_in: Pubkey,
    pub m_mid: Pubkey,
    pub m_out: Pubkey,
}

pub fn setup(c: &TwoHopCase, l: &mut Local) -> Option<Setup> {
    let mut h = Hist::build(&c.hist1.spec)?;
    for op in &c.hist1.ops {
        h.exec(op);
    }
    let p1 = h.pool;
    let Some(mut ctx2) = h.add_second_pool(&c.spec2, c.share_a) else {
        l.count("second_pool_rejected");
        return None;
    };
    let p2 = ctx2.pool;
    h.switch(&mut ctx2);
    for op in &c.ops2 {
        h.exec(op);
    }
    // which pool is leg one
    let shared = h.w.mint_of(p1, c.share_a).key;
    let (p_one, p_two) = if c.forward { (p1, p2) } else { (p2, p1) };
    let a_to_b_one = h.w.pools[p_one].mint_b.key == shared;
    let mut a_to_b_two = h.w.pools[p_two].mint_a.key == shared;
    // limits are resolved with the respective pool's context active (h currently holds pool 2's context)
    let (lim_one, lim_two);
    if c.forward {
        lim_two = h.resolve_limit(&c.limit_two, a_to_b_two);
        h.switch(&mut ctx2);
        lim_one = h.resolve_limit(&c.limit_one, a_to_b_one);
    } else {
        lim_one = h.resolve_limit(&c.limit_one, a_to_b_one);
        h.switch(&mut ctx2);
        lim_two = h.resolve_limit(&c.limit_two, a_to_b_two);
    }
    let user = h.traders[c.trader as usize % h.traders.len()];
    let v2 = c.v2 || h.w.pools[p1].mint_a.program != crate::world::TOKEN || h.w.pools[p1].mint_b.program != crate::world::TOKEN || h.w.pools[p2].mint_a.program != crate::world::TOKEN || h.w.pools[p2].mint_b.program != crate::world::TOKEN;
    let m_in = if a_to_b_one { h.w.pools[p_one].mint_a.key } else { h.w.pools[p_one].mint_b.key };
    let m_out = if a_to_b_two { h.w.pools[p_two].mint_b.key } else { h.w.pools[p_two].mint_a.key };
    let mut p_two_eff = p_two;
    match c.malformed {
        1 => p_two_eff = p_one,
        2 => a_to_b_two = !a_to_b_two,
        _ => {}
    }
    // dust: amounts 1..=4 stand for "the smallest input for which leg one delivers exactly that many units" (found by dry runs), so that
    // leg two receives an amount that is all fee and does not move its pool's price
    let mut amount = c.amount;
    if c.exact_in && c.amount <= 4 && c.malformed == 0 {
        let want = c.amount;
        let mut cands: Vec<u64> = (1..=48).collect();
        cands.extend((6..44).map(|b| 1u64 << b));
        for a in cands {
            let mut dry = h.w.clone();
            let sp = SwapParams { amount: a, threshold: 0, sqrt_price_limit: lim_one, exact_in: true, a_to_b: a_to_b_one };
            let v2d = c.v2 || h.w.pools[p_one].mint_a.program != crate::world::TOKEN || h.w.pools[p_one].mint_b.program != crate::world::TOKEN;
            match single(&mut dry, p_one, user, &sp, v2d) {
                Ok((_, out)) if out == want => {
                    amount = a;
                    l.count("dust_two_hop_leg_one_delivers_1_to_4_units");
                    break;
                }
                Ok((_, out)) if out > want => break,
                Ok(_) => {}
                Err(_) => break,
            }
        }
        SINGLE_EVENTS.with(|e| e.borrow_mut().clear());
    }
    let params = TwoHopParams { amount, threshold: SwapParams::neutral_threshold(c.exact_in), exact_in: c.exact_in, a_to_b_one, a_to_b_two, limit_one: lim_one, limit_two: lim_two };
    Some(Setup { h, p_one, p_two: p_two_eff, user, params, v2, m_in, m_mid: shared, m_out })
}

fn bal(w: &World, user: usize, mint: &Pubkey) -> u64 {
    w.users[user].tokens.iter().find(|(m, _)| m == mint).map(|(_, t)| w.balance(t)).unwrap_or(0)
}

thread_local! {
    /// Traded events of the single swaps executed by `single` since the last `take`
    static SINGLE_EVENTS: std::cell::RefCell<Vec<super::c06::TradedEv>> = const { std::cell::RefCell::new(vec![]) };
}

fn single(w: &mut World, pool: usize, user: usize, sp: &SwapParams, v2: bool) -> Result<(u64, u64), u64> {
    single_ro(w, pool, user, sp, v2, false)
}

fn single_ro(w: &mut World, pool: usize, user: usize, sp: &SwapParams, v2: bool, readonly_oracle: bool) -> Result<(u64, u64), u64> {
    single_tampered(w, pool, user, sp, v2, readonly_oracle, None)
}

fn single_tampered(w: &mut World, pool: usize, user: usize, sp: &SwapParams, v2: bool, readonly_oracle: bool, oracle_instead: Option<Pubkey>) -> Result<(u64, u64), u64> {
    let pl = w.pools[pool].clone();
    let (mi, mo) = if sp.a_to_b { (pl.mint_a.key, pl.mint_b.key) } else { (pl.mint_b.key, pl.mint_a.key) };
    let (i0, o0) = (bal(w, user, &mi), bal(w, user, &mo));
    let mut ix = if v2 { w.ix_swap_v2(pool, user, sp) } else { w.ix_swap(pool, user, sp) };
    if readonly_oracle {
        ix = demote(ix, &pl.oracle);
    }
    if let Some(other) = oracle_instead {
        for m in ix.accounts.iter_mut() {
            if m.pubkey == pl.oracle {
                m.pubkey = other;
            }
        }
    }
    let o = w.exec(&ix);
    if !o.ok() {
        return Err(o.code().unwrap());
    }
    SINGLE_EVENTS.with(|e| e.borrow_mut().extend(o.events.iter().filter_map(|x| super::c06::parse_traded(x))));
    Ok((i0 - bal(w, user, &mi), bal(w, user, &mo) - o0))
}

fn diff_banks(a: &Bank, b: &Bank) -> Option<String> {
    for (k, va) in &a.accounts {
        match b.accounts.get(k) {
            None => return Some(format!("account {k} exists only after the two-hop")),
            Some(vb) if va != vb => {
                let first = va.data.iter().zip(vb.data.iter()).position(|(x, y)| x != y);
                return Some(format!("account {k} (owner {}, {} bytes) differs at byte {:?}", va.owner, va.data.len(), first));
            }
            _ => {}
        }
    }
    for k in b.accounts.keys() {
        if !a.accounts.contains_key(k) {
            return Some(format!("account {k} exists only after the two single swaps"));
        }
    }
    None
}

pub struct Observed {
    pub two_hop_ok: bool,
    pub singles_ok: bool,
    pub matched: bool,
    pub in1: u64,
    pub out2: u64,
}

pub fn check_case(c: &TwoHopCase, l: &mut Local, bounds_only: bool) -> Result<(), String> {
    let Some(s) = setup(c, l) else { return Ok(()) };
    let p = &s.params;
    // --- clone A: the two-hop ---
    let mut wa = s.h.w.clone();
    let (in0, mid0, out0) = (bal(&wa, s.user, &s.m_in), bal(&wa, s.user, &s.m_mid), bal(&wa, s.user, &s.m_out));
    let ix = demote_oracles(&wa, wa.ix_two_hop(s.p_one, s.p_two, s.user, p, s.v2), c, s.p_one, s.p_two);
    let oa = wa.exec(&ix);
    if c.readonly_oracle != 0 {
        l.count("oracle_passed_read_only");
    }
    if c.malformed != 0 {
        l.count(if c.malformed == 1 { "malformed/same_pool_twice" } else { "malformed/no_shared_intermediate" });
        if oa.ok() {
            return Err(format!("two-hop accepted although {}", if c.malformed == 1 { "both legs name the same pool" } else { "the legs do not share the intermediate mint" }));
        }
        l.nontrivial(hash_of(c));
        return Ok(());
    }
    // A fee-bearing INTERMEDIATE mint is charged once by the two-hop (vault to vault) and twice by two single swaps (through the
    // trader), so equality with the singles is not claimed there; the trader-facing clauses are decided on the two-hop alone.
    if s.h.w.fee_in_force(&s.m_mid).is_some() {
        return check_fee_two_hop(c, &s, &oa, (in0, mid0, out0), (bal(&wa, s.user, &s.m_in), bal(&wa, s.user, &s.m_mid), bal(&wa, s.user, &s.m_out)), l);
    }
    // --- clone B: the two singles with a matching intermediate amount ---
    SINGLE_EVENTS.with(|e| e.borrow_mut().clear());
    let mut wb = s.h.w.clone();
    let neutral = |amount: u64, a_to_b: bool, limit: u128, exact_in: bool| SwapParams { amount, threshold: SwapParams::neutral_threshold(exact_in), sqrt_price_limit: limit, exact_in, a_to_b };
    let (ro1, ro2) = (c.readonly_oracle & 1 != 0, c.readonly_oracle & 2 != 0);
    let (orc1, orc2) = (s.h.w.pools[s.p_one].oracle, s.h.w.pools[s.p_two].oracle);
    let sub1 = (c.readonly_oracle & 4 != 0 && orc1 != orc2).then_some(orc2);
    let sub2 = (c.readonly_oracle & 8 != 0 && orc1 != orc2).then_some(orc1);
    let singles: Result<((u64, u64), (u64, u64)), (u8, u64)> = if p.exact_in {
        match single_tampered(&mut wb, s.p_one, s.user, &neutral(p.amount, p.a_to_b_one, p.limit_one, true), s.v2, ro1, sub1) {
            Err(e) => Err((1, e)),
            Ok(r1) => match single_tampered(&mut wb, s.p_two, s.user, &neutral(r1.1, p.a_to_b_two, p.limit_two, true), s.v2, ro2, sub2) {
                Err(e) => Err((2, e)),
                Ok(r2) => Ok((r1, r2)),
            },
        }
    } else {
        // learn leg two's input by a dry run, then execute leg one (exact-out of that amount) and leg two
        let mut dry = s.h.w.clone();
        match single_tampered(&mut dry, s.p_two, s.user, &neutral(p.amount, p.a_to_b_two, p.limit_two, false), s.v2, ro2, sub2) {
            Err(e) => Err((2, e)),
            Ok(d2) => match single_tampered(&mut wb, s.p_one, s.user, &neutral(d2.0, p.a_to_b_one, p.limit_one, false), s.v2, ro1, sub1) {
                Err(e) => Err((1, e)),
                Ok(r1) => match single_tampered(&mut wb, s.p_two, s.user, &neutral(p.amount, p.a_to_b_two, p.limit_two, false), s.v2, ro2, sub2) {
                    Err(e) => Err((2, e)),
                    Ok(r2) => Ok((r1, r2)),
                },
            },
        }
    };
    if let Err((leg, 1)) = &singles {
        // a leg executed alone needs the trader to hold its whole input; the two-hop passes the intermediate token through.
        // A single that fails only for the trader's funds says nothing about the two-hop.
        l.count(&format!("skipped_leg{leg}_trader_funds"));
        return Ok(());
    }
    match (&singles, oa.ok()) {
        (Err((leg, code)), true) => return Err(format!("two-hop succeeded although leg {leg} fails on its own with {code}")),
        (Err((leg, code)), false) => {
            l.count(&format!("both_fail/leg{leg}/{code}"));
            if c.readonly_oracle & 12 != 0 {
                l.count("foreign_oracle_refused_by_two_hop_and_single_alike");
                l.nontrivial(hash_of(c));
            }
            if c.readonly_oracle & 3 != 0 && matches!(code, 3006 | 2000) {
                l.count("read_only_oracle_refused_by_two_hop_and_single_alike");
                l.nontrivial(hash_of(c));
            }
            return Ok(());
        }
        _ => {}
    }
    let (r1, r2) = singles.unwrap();
    // intermediate amounts: leg one's output must be exactly leg two's input
    let matched = r1.1 == r2.0;
    if !matched {
        l.count("intermediate_mismatch");
        if oa.ok() {
            return Err(format!("two-hop succeeded although leg one delivers {} and leg two consumes {}", r1.1, r2.0));
        }
        l.nontrivial(hash_of(c));
        return Ok(());
    }
    if !oa.ok() {
        // not claimed by the property; tracked as generator health
        l.count(&format!("two_hop_failed_though_singles_match/{}", oa.code().unwrap()));
        return Ok(());
    }
    // trader: pays only leg one's input, receives only leg two's output, intermediate nets to zero
    let (in1, mid1, out1) = (bal(&wa, s.user, &s.m_in), bal(&wa, s.user, &s.m_mid), bal(&wa, s.user, &s.m_out));
    if s.m_in != s.m_out {
        if in0 - in1 != r1.0 || out1 - out0 != r2.1 {
            return Err(format!("two-hop moved (in {}, out {}) but the single swaps move (in {}, out {})", in0 - in1, out1 - out0, r1.0, r2.1));
        }
    }
    if mid1 != mid0 {
        return Err(format!("trader's intermediate token balance changed by {}", mid1 as i128 - mid0 as i128));
    }
    if !bounds_only {
        if let Some(d) = diff_banks(&wa.bank, &wb.bank) {
            return Err(format!("state after the two-hop differs from the two single swaps: {d}"));
        }
        // the trade records of the two legs are those of the two single swaps (C06: the record reports exactly the amounts moved)
        let key = |e: &super::c06::TradedEv| (e.whirlpool, e.a_to_b, e.input_amount, e.output_amount);
        let mut ea: Vec<super::c06::TradedEv> = oa.events.iter().filter_map(|x| super::c06::parse_traded(x)).collect();
        // exact-out: the dry run of leg two also went through `single`; only the last two records belong to the executed singles
        let mut eb: Vec<super::c06::TradedEv> = SINGLE_EVENTS.with(|e| e.borrow().clone());
        let n = eb.len();
        if n > 2 {
            eb = eb.split_off(n - 2);
        }
        ea.sort_by_key(key);
        eb.sort_by_key(key);
        if ea != eb {
            return Err(format!("trade records of the two-hop {ea:?} differ from those of the two single swaps {eb:?}"));
        }
        l.count("trade_records_compared");
    }
    // outer bounds (C03) and thresholds
    if p.exact_in && in0 - in1 > p.amount {
        return Err("two-hop exact-in took more than specified".into());
    }
    if !p.exact_in && out1 - out0 > p.amount && s.m_in != s.m_out {
        return Err("two-hop exact-out delivered more than specified".into());
    }
    let realised = if p.exact_in { r2.1 } else { r1.0 };
    for t in [realised.saturating_sub(1), realised, realised.saturating_add(1)] {
        let mut w = s.h.w.clone();
        let pt = TwoHopParams { threshold: t, ..p.clone() };
        let ix = demote_oracles(&w, w.ix_two_hop(s.p_one, s.p_two, s.user, &pt, s.v2), c, s.p_one, s.p_two);
        let ok = w.exec(&ix).ok();
        let admits = if p.exact_in { t <= realised } else { t >= realised };
        if ok != admits {
            return Err(format!("two-hop with threshold {t}: accepted={ok}, realised {} {realised}", if p.exact_in { "output" } else { "input" }));
        }
    }
    let crossed = oa.steps.iter().filter(|st| st.crossed_initialized_tick.is_some()).count();
    l.count(&format!("equal/{}/{}{}/{}", if p.exact_in { "in" } else { "out" }, if p.a_to_b_one { "a2b" } else { "b2a" }, if p.a_to_b_two { "_a2b" } else { "_b2a" }, if s.v2 { "v2" } else { "v1" }));
    if crossed >= 1 {
        l.count("with_tick_crossing");
    }
    l.nontrivial(hash_of(c));
    l.sample(|| json!({"spec1": c.hist1.spec, "spec2": c.spec2, "params": p, "leg1": [r1.0, r1.1], "leg2": [r2.0, r2.1], "crossings": crossed}));
    Ok(())
}

/// two-hop over pools whose intermediate mint carries a transfer fee: amount bounds, intermediate nets to zero, and the threshold
/// is applied to what the trader actually receives (exact-in) / pays (exact-out)
fn check_fee_two_hop(c: &TwoHopCase, s: &Setup, oa: &crate::rt::Outcome, before: (u64, u64, u64), after: (u64, u64, u64), l: &mut Local) -> Result<(), String> {
    let p = &s.params;
    if !oa.ok() {
        l.count(&format!("fee_intermediate/two_hop_rejected/{}", oa.code().unwrap_or(0)));
        return Ok(());
    }
    if s.m_in == s.m_out {
        l.count("fee_intermediate/round_trip_pair_skipped");
        return Ok(());
    }
    let (paid, received) = (before.0.saturating_sub(after.0), after.2.saturating_sub(before.2));
    if after.1 != before.1 {
        return Err(format!("trader's intermediate token balance changed by {}", after.1 as i128 - before.1 as i128));
    }
    if p.exact_in && paid > p.amount {
        return Err(format!("two-hop exact-in took {paid} > specified {}", p.amount));
    }
    if !p.exact_in && received > p.amount {
        return Err(format!("two-hop exact-out delivered {received} > specified {}", p.amount));
    }
    let realised = if p.exact_in { received } else { paid };
    for t in [realised.saturating_sub(1), realised, realised.saturating_add(1)] {
        let mut w = s.h.w.clone();
        let pt = TwoHopParams { threshold: t, ..p.clone() };
        let ix = w.ix_two_hop(s.p_one, s.p_two, s.user, &pt, s.v2);
        let ok = w.exec(&ix).ok();
        let admits = if p.exact_in { t <= realised } else { t >= realised };
        if ok != admits {
            return Err(format!("two-hop (fee-bearing intermediate mint) with threshold {t}: accepted={ok}, the trader's realised {} is {realised}", if p.exact_in { "output" } else { "input" }));
        }
    }
    l.count(&format!("fee_intermediate/thresholds_checked/{}", if p.exact_in { "in" } else { "out" }));
    l.nontrivial(hash_of(c));
    Ok(())
}

pub fn case_strategy() -> BoxedStrategy<TwoHopCase> {
    // 0 SPL, 1 Token-2022, 2 mixed, 3 Token-2022 with transfer fees (each mint with or without a fee schedule)
    let mk = prop_oneof![4 => Just(0u8), 1 => Just(1u8), 1 => Just(2u8), 3 => Just(3u8)];
    let tf = || prop_oneof![1 => Just(None), 2 => tf_strategy()];
    (
        // adaptive pools: one in three is created through a permissioned tier with a trade-enable time (already past, about
        // now, or still ahead when the two-hop runs), so "a leg that is not yet tradable" occurs for either leg
        (history_strategy(false, false, 14), mk.clone(), prop_oneof![2 => Just(None), 1 => prop_oneof![Just(0u32), 1u32..100, 10_000u32..200_000].prop_map(Some)], tf(), tf()).prop_map(|(mut h, k, d, tf1, tf2)| {
            h.spec.mint_kind = k;
            if k == 3 {
                h.spec.tf1 = tf1;
                h.spec.tf2 = tf2;
            }
            if h.spec.adaptive.is_some() {
                h.spec.trade_enable_delay = d;
            }
            h
        }),
        (with_adaptive(spec_strategy(false, false), 4), mk, prop_oneof![2 => Just(None), 1 => prop_oneof![Just(0u32), 1u32..100, 10_000u32..200_000].prop_map(Some)], tf()).prop_map(|(mut s, k, d, tf2)| {
            s.mint_kind = k;
            if k == 3 {
                s.tf2 = tf2;
            }
            if s.adaptive.is_some() {
                s.trade_enable_delay = d;
            }
            s
        }),
        prop::collection::vec(
            (0u8..3, kind_strategy(), range_strategy(), liquidity_strategy())
                .prop_map(|(lp, kind, range, liquidity)| vec![Op::Open { lp, kind, range }, Op::Increase { pos: u16::MAX, liquidity, variant: IncVariant::V1 }]),
            1..=4,
        )
        .prop_map(|v| v.into_iter().flatten().collect::<Vec<Op>>()),
        prop::collection::vec(op_strategy(false), 0..=8),
        (any::<bool>(), any::<bool>(), 0u8..2, prop_oneof![5 => swap_amount_strategy(), 2 => 1u64..=4, 1 => (1u64..=3000)], any::<bool>()),
        (prop_oneof![3 => Just(LimitSel::None), 1 => limit_strategy()], prop_oneof![3 => Just(LimitSel::None), 1 => limit_strategy()], any::<bool>(), prop_oneof![12 => Just(0u8), 1 => Just(1u8), 1 => Just(2u8)], prop_oneof![10 => Just(0u8), 1 => Just(1u8), 1 => Just(2u8), 1 => Just(3u8), 1 => Just(4u8), 1 => Just(8u8), 1 => Just(12u8)]),
    )
        .prop_map(|(hist1, spec2, mut pre2, ops2, (share_a, forward, trader, amount, exact_in), (limit_one, limit_two, v2, malformed, readonly_oracle))| {
            // positions of pool two are opened by the same LPs; position indexes are world-global, so the prelude's
            // `pos: u16::MAX` addresses the position just opened
            pre2.extend(ops2);
            let (mut hist1, mut spec2, mut v2) = (hist1, spec2, v2);
            // dust two-hops (leg two receives an all-fee amount): half of them over SPL mints through the v1 instruction, with an
            // adaptive-fee pool as second leg, where "nothing traded" must still refresh the adaptive-fee state like a single swap does
            if amount <= 4 && exact_in && trader == 0 {
                hist1.spec.mint_kind = 0;
                spec2.mint_kind = 0;
                v2 = false;
                let leg_two = if forward { &mut spec2 } else { &mut hist1.spec };
                if leg_two.adaptive.is_none() {
                    leg_two.adaptive = Some(crate::world2::AfConstants::sane(leg_two.tick_spacing));
                }
            }
            TwoHopCase { hist1, spec2, ops2: pre2, share_a, forward, trader, amount, exact_in, limit_one, limit_two, v2, malformed, readonly_oracle }
        })
        .boxed()
}

pub fn def() -> CheckDef {
    CheckDef {
        id: "C17",
        rule: "two pools sharing a mint (mint-key order random, so all four direction combinations occur; SPL Token, extension-free Token-2022 mints and Token-2022 transfer-fee mints), each \
               with its own generated history (static or adaptive-fee; a third of the adaptive pools are permissioned with a trade-enable time past / now / ahead); then a two-hop (v1/v2, both modes, optional price limits) on clone A and the two single swaps with the matching \
               intermediate amount on clone B (exact-out: leg two's input learned by a dry run): the COMPLETE account stores must be byte-equal (pools, tick \
               arrays, vaults, every token account); trader pays only leg one's input, receives only leg two's output, intermediate nets to zero; failure \
               equivalences: either single fails / intermediate amounts differ / same pool twice / no shared mint / threshold missed by one => two-hop fails; when the INTERMEDIATE mint carries a transfer fee (charged once by the two-hop, twice by two singles) only the trader-facing clauses are decided: amount bounds, intermediate nets to zero, threshold applied to what the trader really receives / pays.  \
               Non-trivial = compared-equal case, or a mismatch/malformed case that was rejected; distinct = hash of the case.",
        assumptions: vec!["nsvm runtime as in DESIGN.md §5", "one leg may be an adaptive-fee pool (oracle accounts compared byte for byte as well)"],
        subs: vec![sub("two_hop", 30_000, 600_000, case_strategy, |c: &TwoHopCase, l: &mut Local| check_case(c, l, false))],
    }
}
