//! C08 — liquidity converts to token amounts exactly: up on deposit, down on withdrawal.
use crate::gen;
use crate::history::*;
use crate::model::*;
use crate::runner::*;
use crate::world::*;
use anchor_lang::AccountSerialize;
use num_bigint::BigUint;
use num_traits::{One, ToPrimitive, Zero};
use proptest::prelude::*;
use serde::{Deserialize, Serialize};
use serde_json::json;
use whirlpool::manager::liquidity_manager::calculate_liquidity_token_deltas;
use whirlpool::math::{estimate_max_liquidity_from_token_amounts, sqrt_price_from_tick_index, tick_index_from_sqrt_price};
use whirlpool::pinocchio::verif_export as pe;
use whirlpool::state::Position;

#[derive(Clone, Debug, Serialize, Deserialize, Hash)]
pub struct FnCase {
    pub tick_spacing: u16,
    pub lower: i32,
    pub upper: i32,
    /// 0 on lower bound, 1 on upper bound, 2 shifted at lower, 3 shifted at upper, 4 inside, 5 anywhere,
    /// 6 strictly inside the tick of the upper bound, 7 just below the lower bound, 8 strictly inside the tick of the lower bound,
    /// 9 / 10 inside the range a few price units (1 .. 2^40) from the upper / lower bound
    pub state: u8,
    #[serde(with = "crate::ser::u128s")]
    pub price_seed: u128,
    #[serde(with = "crate::ser::u128s")]
    pub liquidity: u128,
    pub max_a: u64,
    pub max_b: u64,
    /// 1 / 2: token A's / token B's maximum is replaced by an EXACT-FIT budget (a multiple of the smallest budget for which the exact
    /// liquidity quotient is an integer, when that fits 64 bits); 3: both
    #[serde(default)]
    pub fit: u8,
}

/// smallest positive budget m for which `budget x num / den` is an integer (den / gcd(num, den)), if it fits 64 bits
fn exact_fit_unit(num: &BigUint, den: &BigUint) -> Option<u64> {
    use num_integer::Integer;
    let g = num.gcd(den);
    (den / g).to_u64().filter(|m| *m > 0)
}

/// exact-fit budgets for the state of `c`: token A's quotient is max_a x pu x pe / (2^64 (pu - pe)), token B's max_b x 2^64 / (pe - pl)
/// (pe = the price clamped to the range)
pub fn exact_fit_budgets(p: u128, pl: u128, pu: u128, seed: u128) -> (Option<u64>, Option<u64>) {
    let pe = p.clamp(pl, pu);
    let k = |m: u64, s: u64| -> u64 {
        let top = u64::MAX / m;
        // small multiples mostly; any multiple sometimes
        let mult = if s & 1 == 0 { 1 + (s >> 1) % top.min(1000) } else { 1 + (s >> 1) % top };
        m * mult
    };
    let a = if pe < pu { exact_fit_unit(&(b(pu) * b(pe)), &(pow2(64) * b(pu - pe))).map(|m| k(m, seed as u64)) } else { None };
    let bb = if pe > pl { exact_fit_unit(&pow2(64), &b(pe - pl)).map(|m| k(m, (seed >> 64) as u64)) } else { None };
    (a, bb)
}

fn fits(l: &BigUint, p: u128, pl: u128, pu: u128, ma: u64, mb: u64) -> bool {
    let pc = p.clamp(pl, pu);
    let a = if pc < pu { ceil_div(&((l << 64u32) * b(pu - pc)), &(b(pc) * b(pu))) } else { BigUint::zero() };
    let bb = if pl < pc { ceil_div(&(l * b(pc - pl)), &pow2(64)) } else { BigUint::zero() };
    a <= BigUint::from(ma) && bb <= BigUint::from(mb)
}

/// largest liquidity whose (rounded-up) cost fits both maxima, by bisection on the monotone exact cost
pub fn largest_liquidity(p: u128, pl: u128, pu: u128, ma: u64, mb: u64) -> BigUint {
    let mut lo = BigUint::zero(); // fits
    let mut hi = BigUint::one() << 200u32; // does not fit (unless cost is identically 0, impossible for pl < pu)
    if fits(&hi, p, pl, pu, ma, mb) {
        return hi;
    }
    while &hi - &lo > BigUint::one() {
        let mid = (&lo + &hi) >> 1u32;
        if fits(&mid, p, pl, pu, ma, mb) {
            lo = mid;
        } else {
            hi = mid;
        }
    }
    lo
}

/// the (tick, sqrt price) pool state a case stands for
pub fn resolve_state(c: &FnCase) -> Option<(i32, u128)> {
    let (lo, hi) = (c.lower, c.upper);
    let (pl, pu) = (sqrt_price_from_tick_index(lo), sqrt_price_from_tick_index(hi));
    let within = |t: i32| -> u128 {
        // a price strictly inside tick t (between p(t) and p(t+1)), from the price seed
        let (a, b2) = (sqrt_price_from_tick_index(t), sqrt_price_from_tick_index((t + 1).min(MAX_TICK)));
        if b2 > a + 1 { a + 1 + c.price_seed % (b2 - a - 1) } else { a }
    };
    // a price a few units (log-uniform distance 1 .. 2^40) inside the range next to a bound: one token's exact amount is a tiny fraction
    let near = |from_upper: bool| -> (i32, u128) {
        let bits = (c.price_seed % 41) as u32;
        let d = 1 + ((c.price_seed >> 64) & ((1u128 << bits) - 1));
        let p = if from_upper { pu.saturating_sub(d).max(pl) } else { pl.saturating_add(d).min(pu) };
        (tick_index_from_sqrt_price(&p), p)
    };
    let (tick, p) = match c.state % 11 {
        9 => near(true),
        10 => near(false),
        6 => (hi, within(hi)),
        7 => (lo - 1, pl - 1),
        8 => (lo, within(lo)),
        0 => (lo, pl),
        1 => (hi, pu),
        2 => (lo - 1, pl),
        3 => (hi - 1, pu),
        4 => {
            let p = pl + c.price_seed % (pu - pl);
            (tick_index_from_sqrt_price(&p), p)
        }
        _ => {
            let p = MIN_SQRT_PRICE + c.price_seed % (MAX_SQRT_PRICE - MIN_SQRT_PRICE + 1);
            (tick_index_from_sqrt_price(&p), p)
        }
    };
    if tick < MIN_TICK {
        return None;
    }
    Some((tick, p))
}

pub fn check_fn(c: &FnCase, l: &mut Local) -> Result<(), String> {
    let (lo, hi) = (c.lower, c.upper);
    let (pl, pu) = (sqrt_price_from_tick_index(lo), sqrt_price_from_tick_index(hi));
    let Some((tick, p)) = resolve_state(c) else { return Ok(()) };
    let shifted = matches!(c.state % 11, 2 | 3);
    let liq = c.liquidity;
    let mut pos = Position::default();
    pos.tick_lower_index = lo;
    pos.tick_upper_index = hi;
    let mut pos_bytes = vec![];
    pos.try_serialize(&mut pos_bytes).map_err(|e| format!("{e:?}"))?;
    let pv = unsafe { &*(pos_bytes.as_ptr() as *const pe::whirlpool::MemoryMappedPosition) };
    let mut paid: Option<(u64, u64)> = None;
    if liq > 0 && liq <= i128::MAX as u128 {
        for add in [true, false] {
            let delta = if add { liq as i128 } else { -(liq as i128) };
            let ra = calculate_liquidity_token_deltas(tick, p, &pos, delta);
            let rp = pe::manager_liquidity_manager::pino_calculate_liquidity_token_deltas(tick, p, pv, delta);
            match (&ra, &rp) {
                (Ok(x), Ok(y)) if x == y => {}
                (Err(_), Err(_)) => {}
                _ => return Err(format!("Anchor and Pinocchio disagree on token deltas: {:?} vs {:?}", ra.as_ref().ok(), rp.as_ref().ok())),
            }
            let Ok((da, db)) = ra else {
                l.count("delta_err");
                let (ea, eb) = position_amounts(liq, p, pl, pu, add);
                let edge = BigUint::one() << 64u32;
                if ea == edge || eb == edge {
                    l.count("delta_err_exact_amount_rounds_to_2^64");
                    l.nontrivial(hash_of(&(c.tick_spacing, lo, hi, tick, p, liq, add)));
                }
                continue;
            };
            let (ea, eb) = position_amounts(liq, p, pl, pu, add);
            if da >= u64::MAX - 1 || db >= u64::MAX - 1 {
                l.count("delta_ok_amount_at_u64_max");
            }
            if BigUint::from(da) != ea || BigUint::from(db) != eb {
                return Err(format!(
                    "{} of L={liq} over [{lo},{hi}] at price {p} (tick {tick}): program ({da}, {db}), exact amounts rounded {} give ({ea}, {eb})",
                    if add { "deposit" } else { "withdrawal" },
                    if add { "up" } else { "down" }
                ));
            }
            // one-sidedness
            if p <= pl && db != 0 {
                return Err("token B involved although the price is at/below the range".into());
            }
            if p >= pu && da != 0 {
                return Err("token A involved although the price is at/above the range".into());
            }
            if add {
                paid = Some((da, db));
            } else if let Some((pa, pb)) = paid {
                if da > pa || db > pb {
                    return Err(format!("round trip returns ({da}, {db}) > paid ({pa}, {pb})"));
                }
                if pa - da > 1 || pb - db > 1 {
                    return Err(format!("round trip loses more than one unit per token: paid ({pa}, {pb}) returned ({da}, {db})"));
                }
            }
            l.count("delta_ok");
            if (da > 0 && db > 0) || shifted || liq >> 64 != 0 {
                l.count(if shifted { "delta_ok_shifted_state" } else if liq >> 64 != 0 { "delta_ok_L>=2^64" } else { "delta_ok_both_tokens" });
                l.nontrivial(hash_of(&(c.tick_spacing, lo, hi, tick, p, liq, add)));
                l.sample(|| json!({"lower": lo, "upper": hi, "tick": tick, "sqrt_price": p.to_string(), "liquidity": liq.to_string(), "add": add, "amounts": [da, db]}));
            }
        }
    }
    // liquidity from token maxima = the largest liquidity whose cost fits both
    match estimate_max_liquidity_from_token_amounts(p, lo, hi, c.max_a, c.max_b) {
        Ok(ls) => {
            let best = largest_liquidity(p, pl, pu, c.max_a, c.max_b);
            if BigUint::from(ls) != best {
                // the true maximum may exceed u128 only for degenerate maxima; report anything else
                if best.bits() <= 128 {
                    return Err(format!("liquidity for maxima ({}, {}) over [{lo},{hi}] at price {p}: program {ls}, largest fitting liquidity {best}", c.max_a, c.max_b));
                }
                l.count("estimate_true_max_exceeds_u128");
            }
            l.count("estimate_ok");
            {
                // exact-fit budgets: the exact quotient of the binding token is an integer
                let pe = p.clamp(pl, pu);
                let ia = pe < pu && ((b(pu) * b(pe) * c.max_a) % (pow2(64) * b(pu - pe))).is_zero() && c.max_a > 0;
                let ib = pe > pl && ((pow2(64) * c.max_b) % b(pe - pl)).is_zero() && c.max_b > 0;
                if ia {
                    l.count("estimate_ok_token_a_budget_fits_exactly");
                }
                if ib {
                    l.count("estimate_ok_token_b_budget_fits_exactly");
                }
            }
            l.nontrivial(hash_of(&(lo, hi, p, c.max_a, c.max_b)));
        }
        Err(_) => l.count("estimate_err"),
    }
    Ok(())
}

fn fn_case() -> BoxedStrategy<FnCase> {
    prop::sample::select(vec![1u16, 2, 8, 64, 128, 256])
        .prop_flat_map(|ts| {
            let tsi = ts as i32;
            let maxk = MAX_TICK / tsi;
            // liquidity: by magnitude, or the inverse image of a token amount on a boundary of the result type
            let target = prop_oneof![3 => Just(None), 1 => (any::<bool>(), 0usize..AMOUNT_TARGETS.len(), any::<u32>()).prop_map(Some)];
            // exact-fit budgets: one case in four; half of those over a range with a bound on tick 0 (price 2^64), where such budgets are small
            let fit = prop_oneof![12 => Just((0u8, 0u8)), 4 => (1u8..=3, 0u8..4)];
            (Just(ts), -maxk..=maxk, prop_oneof![2 => 1i32..=200, 1 => 1i32..=(2 * maxk)], 0u8..11, any::<u128>(), gen::bits_u128(110), gen::bits_u64(64), gen::bits_u64(64), target, fit)
        })
        .prop_map(|(ts, lo_k, w, state, price_seed, liquidity, max_a, max_b, target, (fit, zero_bound))| {
            let tsi = ts as i32;
            let maxk = MAX_TICK / tsi;
            let (lo_k, w) = match (fit, zero_bound) {
                (0, _) | (_, 2..) => (lo_k, w),
                (_, 0) => (0, w),
                _ => (-w.min(maxk), w.min(maxk)),
            };
            let hi_k = (lo_k.saturating_add(w)).min(maxk);
            let lo_k = if hi_k == lo_k { lo_k - 1 } else { lo_k };
            let mut c = FnCase { tick_spacing: ts, lower: lo_k * tsi, upper: hi_k * tsi, state, price_seed, liquidity, max_a, max_b, fit };
            if fit != 0 {
                if let Some((_, p)) = resolve_state(&c) {
                    let (pl, pu) = (sqrt_price_from_tick_index(c.lower), sqrt_price_from_tick_index(c.upper));
                    let (fa, fb) = exact_fit_budgets(p, pl, pu, price_seed.rotate_left(37) ^ liquidity);
                    if let (true, Some(a)) = (fit & 1 != 0, fa) {
                        c.max_a = a;
                        if fit == 1 && max_b & 1 == 0 {
                            c.max_b = u64::MAX;
                        }
                    }
                    if let (true, Some(bb)) = (fit & 2 != 0, fb) {
                        c.max_b = bb;
                        if fit == 2 && max_a & 1 == 0 {
                            c.max_a = u64::MAX;
                        }
                    }
                }
            }
            if let (Some((token_a, ti, frac)), Some((_, p))) = (target, resolve_state(&c)) {
                let (pl, pu) = (sqrt_price_from_tick_index(c.lower), sqrt_price_from_tick_index(c.upper));
                if let Some(lq) = liquidity_for_amount(p, pl, pu, token_a, AMOUNT_TARGETS[ti], frac) {
                    c.liquidity = lq;
                }
            }
            c
        })
        .boxed()
}

// ---------------------------------------------------------------------------------------------------
// instruction level: thresholds one unit either side, by-token-amounts adds exactly L*

#[derive(Clone, Debug, Serialize, Deserialize, Hash)]
pub struct IxCase {
    pub hist: HistoryCase,
    pub pos: u16,
    #[serde(with = "crate::ser::u128s")]
    pub liquidity: u128,
    pub dec_frac: u16,
    pub max_a: u64,
    pub max_b: u64,
    pub v2: bool,
}

const OVERFLOW_CODES: &[u64] = &[6030, 6033, 6017, 6014, 6008, 1];

pub fn check_ix(c: &IxCase, l: &mut Local) -> Result<(), String> {
    let Some(mut h) = Hist::build(&c.hist.spec) else { return Ok(()) };
    for op in &c.hist.ops {
        h.exec(op);
    }
    let open = h.open_positions();
    if open.is_empty() {
        l.count("no_position");
        return Ok(());
    }
    let p = open[pick(c.pos, open.len())];
    let info = h.w.positions[p].clone();
    let st = h.w.pool_state(h.pool);
    let (pl, pu) = (sqrt_price_from_tick_index(info.lower), sqrt_price_from_tick_index(info.upper));
    let pool = h.w.pools[h.pool].clone();
    let owner = info.owner;
    let (ta, tb) = (h.w.user_token_existing(owner, &pool.mint_a.key), h.w.user_token_existing(owner, &pool.mint_b.key));
    let v2 = c.v2 || h.needs_v2();
    let bal = |w: &World| (w.balance(&ta), w.balance(&tb), w.balance(&pool.vault_a), w.balance(&pool.vault_b));
    // transfer-fee mints: the caller's maximum is compared with the fee-INCLUDED amount requested from them, the caller's minimum with
    // the fee-EXCLUDED amount they receive (C16); without a fee both are the curve amounts
    let (tfa, tfb) = (pool.mint_a.transfer_fee, pool.mint_b.transfer_fee);
    let inc = |tf, c: u64| super::c16::smallest_included(tf, c);
    let exc = |tf, r: u64| r - super::c16::fee_of(tf, r);
    // ---- increase with token maxima exactly at / one below the cost
    let (ca, cb) = position_amounts(c.liquidity, st.sqrt_price, pl, pu, true);
    if let (Some(ca), Some(cb)) = (ca.to_u64(), cb.to_u64()) {
        let (a0, b0, va0, vb0) = bal(&h.w);
        if let (Some(ia), Some(ib)) = (inc(tfa, ca), inc(tfb, cb)) {
            if ia <= a0 && ib <= b0 && c.liquidity > 0 {
                let mut w = h.w.clone();
                let o = w.exec(&w.ix_increase(p, c.liquidity, ia, ib, v2));
                if !o.ok() {
                    // the exact cost fits 64 bits here, so TokenMaxExceeded (6017, also the program's "amount exceeds u64" code) is never legitimate
                    if !OVERFLOW_CODES.contains(&o.code().unwrap()) || o.code() == Some(6017) {
                        return Err(format!("increase of L={} with maxima equal to the exact cost ({ca}, {cb}) [requested from the owner: ({ia}, {ib})] failed: {:?} {:?}", c.liquidity, o.result, o.logs.last()));
                    }
                    l.count("increase_overflow_rejected");
                } else {
                    let (a1, b1, va1, vb1) = bal(&w);
                    if (a0 - a1, b0 - b1, va1 - va0, vb1 - vb0) != (ia, ib, ca, cb) {
                        return Err(format!("increase took ({}, {}) from the owner and gave ({}, {}) to the vaults; the exact cost rounded up is ({ca}, {cb}), requested incl. transfer fee ({ia}, {ib})", a0 - a1, b0 - b1, va1 - va0, vb1 - vb0));
                    }
                    l.count("increase_at_cost_ok");
                    for (which, ma, mb) in [("A", ia.wrapping_sub(1), ib), ("B", ia, ib.wrapping_sub(1))] {
                        if (which == "A" && ca == 0) || (which == "B" && cb == 0) {
                            continue;
                        }
                        let mut w = h.w.clone();
                        if w.exec(&w.ix_increase(p, c.liquidity, ma, mb, v2)).ok() {
                            return Err(format!("increase accepted although the cost exceeds the caller's maximum of token {which} by one"));
                        }
                        l.count("increase_below_cost_rejected");
                    }
                    l.nontrivial(hash_of(&(hash_of(c), 1u8)));
                }
            }
        }
    }
    // ---- decrease with minima exactly at / one above the return
    let cur = h.w.position_state(p).map(|s| s.liquidity).unwrap_or(0);
    let dl: u128 = ((b(cur) * (c.dec_frac as u32 + 1)) >> 16u32).to_u128().unwrap_or(cur);
    if dl > 0 && !matches!(decode_frozen(&h.w, &info), Some(true)) {
        let (ra, rb) = position_amounts(dl, st.sqrt_price, pl, pu, false);
        if let (Some(ra), Some(rb)) = (ra.to_u64(), rb.to_u64()) {
            let (a0, b0, va0, vb0) = bal(&h.w);
            let (ea, eb) = (exc(tfa, ra), exc(tfb, rb));
            let mut w = h.w.clone();
            let o = w.exec(&w.ix_decrease(p, dl, ea, eb, v2));
            if !o.ok() {
                if !OVERFLOW_CODES.contains(&o.code().unwrap()) || o.code() == Some(6017) {
                    return Err(format!("decrease of L={dl} with minima equal to what the owner receives ({ea}, {eb}) of the exact return ({ra}, {rb}) failed: {:?} {:?}", o.result, o.logs.last()));
                }
            } else {
                let (a1, b1, va1, vb1) = bal(&w);
                if (a1 - a0, b1 - b0, va0 - va1, vb0 - vb1) != (ea, eb, ra, rb) {
                    return Err(format!("decrease gave ({}, {}) to the owner and took ({}, {}) from the vaults; the exact amount rounded down is ({ra}, {rb}), net of transfer fee ({ea}, {eb})", a1 - a0, b1 - b0, va0 - va1, vb0 - vb1));
                }
                l.count("decrease_at_return_ok");
                for (which, ma, mb) in [("A", ea.saturating_add(1), eb), ("B", ea, eb.saturating_add(1))] {
                    let mut w = h.w.clone();
                    if w.exec(&w.ix_decrease(p, dl, ma, mb, v2)).ok() {
                        return Err(format!("decrease accepted although it returns one unit less than the caller's minimum of token {which}"));
                    }
                    l.count("decrease_above_return_rejected");
                }
                l.nontrivial(hash_of(&(hash_of(c), 2u8)));
            }
        }
    }
    // ---- liquidity amounts beyond the signed 128-bit range name no withdrawal (2^128 - k must not be read as +k): always refused
    for amt in [u128::MAX, u128::MAX - (c.liquidity % 1_000_000), (1u128 << 127) | (c.liquidity >> 1), (1u128 << 127) + 1] {
        for is_v2 in [v2, true] {
            let mut w = h.w.clone();
            let before = w.position_state(p).map(|s| s.liquidity);
            if w.exec(&w.ix_decrease(p, amt, 0, 0, is_v2)).ok() {
                return Err(format!("decrease of liquidity amount {amt} (>= 2^127) accepted; position liquidity {before:?} -> {:?}", w.position_state(p).map(|s| s.liquidity)));
            }
            let mut w = h.w.clone();
            if amt > i128::MAX as u128 && w.exec(&w.ix_increase(p, amt, u64::MAX, u64::MAX, is_v2)).ok() {
                return Err(format!("increase of liquidity amount {amt} (>= 2^127) accepted"));
            }
        }
        l.count("out_of_range_liquidity_amount_refused");
    }
    // ---- by token amounts: adds exactly the largest fitting liquidity.  Maxima: generated, and (second pass) exactly what the generated
    //      liquidity costs incl. transfer fee, so that the request meets the caller's maximum with equality
    let exact_maxima = match position_amounts(c.liquidity, st.sqrt_price, pl, pu, true) {
        (a, b2) => a.to_u64().and_then(|x| inc(tfa, x)).zip(b2.to_u64().and_then(|x| inc(tfb, x))),
    };
    // third pass: EXACT-FIT budgets on the live state (the binding token's exact liquidity quotient is an integer), where they fit 64 bits
    let (fa, fb) = exact_fit_budgets(st.sqrt_price, pl, pu, ((c.max_a as u128) << 64) | c.max_b as u128);
    let fit_a = fa.and_then(|x| inc(tfa, x)).map(|x| (x, if c.max_b & 1 == 0 { u64::MAX } else { c.max_b }));
    let fit_b = fb.and_then(|x| inc(tfb, x)).map(|x| (if c.max_a & 1 == 0 { u64::MAX } else { c.max_a }, x));
    for (pass, (max_a, max_b)) in [Some((c.max_a, c.max_b)), exact_maxima, fit_a, fit_b].into_iter().enumerate().filter_map(|(i, m)| m.map(|m| (i, m))) {
        if pass >= 2 {
            l.count(if pass == 2 { "by_amounts_exact_fit_budget_a_offered" } else { "by_amounts_exact_fit_budget_b_offered" });
        }
        // the maxima bound what is requested from the owner incl. transfer fee: the curve amounts may use what is left after the fee
        let best = largest_liquidity(st.sqrt_price, pl, pu, exc(tfa, max_a), exc(tfb, max_b));
        let (a0, b0, _, _) = bal(&h.w);
        let mut w = h.w.clone();
        let o = w.exec(&w.ix_increase_by_amounts(p, max_a, max_b, MIN_SQRT_PRICE, MAX_SQRT_PRICE));
        if o.ok() {
            let after = w.position_state(p).map(|s| s.liquidity).unwrap_or(0);
            let added = after - cur;
            if BigUint::from(added) != best {
                return Err(format!("by-token-amounts with maxima ({}, {}) added {added}, the largest fitting liquidity is {best}", max_a, max_b));
            }
            let (a1, b1, _, _) = bal(&w);
            let (ea, eb) = position_amounts(added, st.sqrt_price, pl, pu, true);
            let want = (ea.to_u64().and_then(|x| inc(tfa, x)), eb.to_u64().and_then(|x| inc(tfb, x)));
            if (Some(a0 - a1), Some(b0 - b1)) != want {
                return Err(format!("by-token-amounts took ({}, {}) from the owner, exact cost of the added liquidity is ({ea}, {eb}), incl. transfer fee {want:?}", a0 - a1, b0 - b1));
            }
            if a0 - a1 > max_a || b0 - b1 > max_b {
                return Err("by-token-amounts took more than the caller's maximum".into());
            }
            l.count("by_amounts_ok");
            l.nontrivial(hash_of(&(hash_of(c), 3u8)));
            // price-bound slippage: a window that excludes the current price must be refused
            let mut w = h.w.clone();
            if st.sqrt_price < MAX_SQRT_PRICE && w.exec(&w.ix_increase_by_amounts(p, max_a, max_b, st.sqrt_price + 1, MAX_SQRT_PRICE)).ok() {
                return Err("by-token-amounts accepted although the price is below the caller's minimum price".into());
            }
            let mut w = h.w.clone();
            if st.sqrt_price > MIN_SQRT_PRICE && w.exec(&w.ix_increase_by_amounts(p, max_a, max_b, MIN_SQRT_PRICE, st.sqrt_price - 1)).ok() {
                return Err("by-token-amounts accepted although the price is above the caller's maximum price".into());
            }
        } else {
            let code = o.code().unwrap();
            if best.is_zero() {
                l.count("by_amounts_zero_liquidity_rejected");
            } else if code == 6017 {
                return Err(format!("by-token-amounts with maxima ({max_a}, {max_b}) failed with TokenMaxExceeded although it chooses the liquidity itself (largest fitting: {best})"));
            } else if OVERFLOW_CODES.contains(&code) || code == 6059 {
                l.count("by_amounts_rejected_overflow_or_funds");
            } else {
                return Err(format!("by-token-amounts with maxima ({}, {}) failed with {code} although liquidity {best} fits", max_a, max_b));
            }
        }
    }
    Ok(())
}

// ---------------------------------------------------------------------------------------------------
// reposition_liquidity_v2: the withdrawal side is held to the caller's minima, the deposit side to the caller's maxima

#[derive(Clone, Debug, Serialize, Deserialize, Hash)]
pub struct RepoCase {
    pub hist: HistoryCase,
    pub pos: u16,
    pub range: RangeSel,
    #[serde(with = "crate::ser::u128s")]
    pub liquidity: u128,
    /// 0 = the generated liquidity; 1 = the largest liquidity whose cost fits what the existing range pays out (net transfers near or
    /// exactly zero); 2 = that plus one; 3 = the existing liquidity
    pub sizing: u8,
}

pub fn check_reposition(c: &RepoCase, l: &mut Local) -> Result<(), String> {
    use super::c16::{fee_of, smallest_included};
    let Some(mut h) = Hist::build(&c.hist.spec) else { return Ok(()) };
    for op in &c.hist.ops {
        h.exec(op);
    }
    let open = h.open_positions();
    if open.is_empty() {
        return Ok(());
    }
    let p = open[pick(c.pos, open.len())];
    let info = h.w.positions[p].clone();
    if matches!(decode_frozen(&h.w, &info), Some(true)) {
        return Ok(());
    }
    let (nlo, nhi) = h.resolve_range(&c.range);
    h.ensure_array(nlo);
    h.ensure_array(nhi);
    let st = h.w.pool_state(h.pool);
    let pool = h.w.pools[h.pool].clone();
    let cur = h.w.position_state(p).map(|s| s.liquidity).unwrap_or(0);
    let ts = st.tick_spacing as i32;
    if nlo >= nhi || nlo % ts != 0 || nhi % ts != 0 || nlo < MIN_TICK || nhi > MAX_TICK || (nlo, nhi) == (info.lower, info.upper) {
        l.count("reposition/invalid_or_same_range");
        return Ok(());
    }
    let (pl, pu) = (sqrt_price_from_tick_index(info.lower), sqrt_price_from_tick_index(info.upper));
    let (npl, npu) = (sqrt_price_from_tick_index(nlo), sqrt_price_from_tick_index(nhi));
    let (wa, wb) = position_amounts(cur, st.sqrt_price, pl, pu, false);
    let (Some(wa), Some(wb)) = (wa.to_u64(), wb.to_u64()) else { return Ok(()) };
    let liq = match c.sizing % 4 {
        1 => largest_liquidity(st.sqrt_price, npl, npu, wa, wb).to_u128().unwrap_or(c.liquidity),
        2 => largest_liquidity(st.sqrt_price, npl, npu, wa, wb).to_u128().unwrap_or(c.liquidity).saturating_add(1),
        3 => cur,
        _ => c.liquidity,
    };
    if liq == 0 {
        return Ok(());
    }
    let (ca, cb) = position_amounts(liq, st.sqrt_price, npl, npu, true);
    let (Some(ca), Some(cb)) = (ca.to_u64(), cb.to_u64()) else {
        l.count("reposition/cost_exceeds_u64");
        return Ok(());
    };
    let (tfa, tfb) = (pool.mint_a.transfer_fee, pool.mint_b.transfer_fee);
    // what the caller's bounds are compared with: withdrawal net of the transfer fee; new-range cost plus the fee on the net amount sent
    let min_of = |tf, w: u64| w - fee_of(tf, w);
    let max_of = |tf, w: u64, cst: u64| -> Option<u64> {
        if cst > w {
            let inc = smallest_included(tf, cst - w)?;
            cst.checked_add(fee_of(tf, inc))
        } else {
            Some(cst)
        }
    };
    let (min_a, min_b) = (min_of(tfa, wa), min_of(tfb, wb));
    let (Some(max_a), Some(max_b)) = (max_of(tfa, wa, ca), max_of(tfb, wb, cb)) else { return Ok(()) };
    let owner = info.owner;
    let (ta, tb) = (h.w.user_token_existing(owner, &pool.mint_a.key), h.w.user_token_existing(owner, &pool.mint_b.key));
    let run = |mins: (u64, u64), maxs: (u64, u64)| -> (crate::rt::Outcome, World) {
        let mut w = h.w.clone();
        let o = w.exec(&w.ix_reposition(p, nlo, nhi, liq, mins.0, mins.1, maxs.0, maxs.1));
        (o, w)
    };
    let (o, w1) = run((min_a, min_b), (max_a, max_b));
    if !o.ok() {
        let code = o.code().unwrap();
        // refusals for other reasons (funds, liquidity overflow, full-range-only pools ...) say nothing about the thresholds
        if code == 6017 || code == 6018 {
            return Err(format!("reposition of L={cur} [{}, {}] into L={liq} [{nlo}, {nhi}] at price {} with minima ({min_a}, {min_b}) = what the old range returns ({wa}, {wb}) and maxima ({max_a}, {max_b}) = what the new range costs ({ca}, {cb}) failed with {code}", info.lower, info.upper, st.sqrt_price));
        }
        l.count(&format!("reposition/refused/{code}"));
        return Ok(());
    }
    // net movements of the owner's accounts
    let d = |k: &solana_program::pubkey::Pubkey| w1.balance(k) as i128 - h.w.balance(k) as i128;
    for (name, k, tf, wd, cst) in [("A", &ta, tfa, wa, ca), ("B", &tb, tfb, wb, cb)] {
        let want: i128 = if cst > wd { -(smallest_included(tf, cst - wd).unwrap_or(0) as i128) } else { ((wd - cst) - fee_of(tf, wd - cst)) as i128 };
        if d(k) != want {
            return Err(format!("reposition moved {} of token {name} for the owner; old range returns {wd}, new range costs {cst}: expected {want}", d(k)));
        }
    }
    // the record the program emits reports exactly these amounts (C16: user-facing quantities in events equal the amounts moved)
    {
        use anchor_lang::Discriminator;
        let ev = o.events.iter().find(|e| e.len() == 186 && e[..8] == *whirlpool::events::LiquidityRepositioned::DISCRIMINATOR).ok_or("no LiquidityRepositioned event")?;
        let d = &ev[8..];
        let u64_at = |o: usize| u64::from_le_bytes(d[o..o + 8].try_into().unwrap());
        let i32_at = |o: usize| i32::from_le_bytes(d[o..o + 4].try_into().unwrap());
        let u128_at = |o: usize| u128::from_le_bytes(d[o..o + 16].try_into().unwrap());
        let leg = |tf, wd: u64, cst: u64| -> (u64, u64, bool) {
            if cst >= wd {
                let inc = smallest_included(tf, cst - wd).unwrap_or(0);
                (inc, fee_of(tf, inc), true)
            } else {
                (wd - cst, fee_of(tf, wd - cst), false)
            }
        };
        let got = (
            (d[0..32].to_vec(), d[32..64].to_vec()),
            (i32_at(64), i32_at(68), i32_at(72), i32_at(76)),
            (u128_at(80), u128_at(96)),
            (u64_at(112), u64_at(120), u64_at(128), u64_at(136)),
            (u64_at(144), u64_at(152), d[160] != 0),
            (u64_at(161), u64_at(169), d[177] != 0),
        );
        let want = (
            (pool.key.to_bytes().to_vec(), info.position.to_bytes().to_vec()),
            (info.lower, info.upper, nlo, nhi),
            (cur, liq),
            (wa, wb, ca, cb),
            leg(tfa, wa, ca),
            leg(tfb, wb, cb),
        );
        if got != want {
            return Err(format!("LiquidityRepositioned event {got:?} differs from what the instruction did {want:?}"));
        }
        l.count("reposition/event_checked");
    }
    l.count("reposition/at_bounds_ok");
    if wa == ca && wa > 0 || wb == cb && wb > 0 {
        l.count("reposition/one_token_nets_to_zero");
    }
    for (what, mins, maxs, applies) in [
        ("minimum of token A", (min_a.saturating_add(1), min_b), (max_a, max_b), true),
        ("minimum of token B", (min_a, min_b.saturating_add(1)), (max_a, max_b), true),
        ("maximum of token A", (min_a, min_b), (max_a.wrapping_sub(1), max_b), ca > 0),
        ("maximum of token B", (min_a, min_b), (max_a, max_b.wrapping_sub(1)), cb > 0),
    ] {
        if !applies {
            continue;
        }
        if run(mins, maxs).0.ok() {
            return Err(format!(
                "reposition accepted although it misses the caller's {what} by one: old range L={cur} [{}, {}] returns ({wa}, {wb}), new range L={liq} [{nlo}, {nhi}] costs ({ca}, {cb}), minima {mins:?}, maxima {maxs:?}",
                info.lower, info.upper
            ));
        }
        l.count("reposition/one_off_bound_rejected");
    }
    l.nontrivial(hash_of(c));
    l.sample(|| json!({"spec": c.hist.spec, "old": [info.lower, info.upper], "new": [nlo, nhi], "L_old": cur.to_string(), "L_new": liq.to_string(), "returns": [wa, wb], "costs": [ca, cb]}));
    Ok(())
}

pub fn repo_case() -> BoxedStrategy<RepoCase> {
    let plain = (history_strategy(false, false, 16), prop_oneof![3 => Just(0u8), 1 => Just(1u8)]).prop_map(|(mut h, mk)| {
        h.spec.mint_kind = mk;
        h
    });
    let hist = prop_oneof![3 => plain, 2 => with_fee_mints(history_strategy(false, false, 16))];
    (hist, any::<u16>(), range_strategy(), liquidity_strategy(), 0u8..4).prop_map(|(hist, pos, range, liquidity, sizing)| RepoCase { hist, pos, range, liquidity, sizing }).boxed()
}

fn decode_frozen(w: &World, info: &PosInfo) -> Option<bool> {
    crate::decode::token_state(&w.bank.get(&info.token_account).data).map(|s| s == 2)
}

fn ix_case() -> BoxedStrategy<IxCase> {
    let plain = (history_strategy(false, false, 16), prop_oneof![3 => Just(0u8), 1 => Just(1u8)]).prop_map(|(mut h, mk)| {
        h.spec.mint_kind = mk;
        h
    });
    let hist = prop_oneof![3 => plain, 2 => with_fee_mints(history_strategy(false, false, 16))];
    (hist, any::<u16>(), liquidity_strategy(), any::<u16>(), gen::bits_u64(60), gen::bits_u64(60), any::<bool>())
        .prop_map(|(hist, pos, liquidity, dec_frac, max_a, max_b, v2)| IxCase { hist, pos, liquidity, dec_frac, max_a, max_b, v2 })
        .boxed()
}

pub fn def() -> CheckDef {
    CheckDef {
        id: "C08",
        rule: "function level: generated (tick spacing, usable lower<upper, state in {on lower bound, on upper bound, shifted at lower, shifted at upper, inside, anywhere, inside the range 1..2^40 price units from either bound}, \
               +-L of any magnitude up to 2^110 or (one in four) the exact inverse image of a token amount on a boundary of the u64 result type, token maxima of any magnitude) on BOTH implementations (Pinocchio through H1): amounts equal the price-based exact \
               amounts (A over [clamp(p),pu], B over [pl,clamp(p)]) rounded up for +L and down for -L, one-sidedness, round trip returns <= paid and loses <= 1 per \
               token, estimate == largest liquidity whose cost fits both maxima (bisection on BigUint).  Instruction level on states reached by generated \
               histories (SPL, Token-2022 and transfer-fee / transfer-hook mints: maxima are compared with the fee-included request, minima with the fee-excluded receipt): increase with token_max = cost succeeds and moves exactly the cost, cost-1 fails; decrease with token_min = return succeeds, return+1 \
               fails; by-token-amounts adds exactly the largest fitting liquidity, respects the price window; reposition_liquidity_v2 (SPL and Token-2022 fee mints; new liquidity generated, equal to the old, or sized so that what the old range pays out just covers the new range): accepted with minima = what the old range returns (net of transfer fee) and maxima = what the new range costs (plus the fee on the net amount sent), owner's balances move by exactly the net amounts, the LiquidityRepositioned event reports exactly these quantities, each bound missed by one is refused.  Non-trivial (fn) = Ok with both tokens non-zero, or \
               shifted state, or L >= 2^64; (ix) = each boundary pair evaluated.",
        assumptions: vec!["H1 re-export hook for the Pinocchio copy", "nsvm runtime as in DESIGN.md §5"],
        subs: vec![
            sub("token_deltas_and_estimate", 1_500_000, 300_000_000, fn_case, |c: &FnCase, l: &mut Local| check_fn(c, l)),
            sub("instruction_thresholds", 16_000, 400_000, ix_case, |c: &IxCase, l: &mut Local| check_ix(c, l)),
            sub("reposition_thresholds", 16_000, 400_000, repo_case, |c: &RepoCase, l: &mut Local| check_reposition(c, l)),
        ],
    }
}
