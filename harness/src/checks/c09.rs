//! C09 — tick index <-> sqrt-price conversions over the whole supported range.
use crate::model::*;
use crate::runner::*;
use num_bigint::BigUint;
use proptest::prelude::*;
use serde::{Deserialize, Serialize};
use serde_json::json;
use whirlpool::math::{sqrt_price_from_tick_index, tick_index_from_sqrt_price};

const N_TICKS: u64 = (MAX_TICK - MIN_TICK + 1) as u64;

/// exact statement of |p(t+1)/p(t) / sqrt(1.0001) - 1| <= 2^-32
fn ratio_ok(p0: u128, p1: u128) -> bool {
    let lo = BigUint::from((1u64 << 32) - 1).pow(2) * 10001u32 * b(p0) * b(p0);
    let mid = pow2(64) * 10000u32 * b(p1) * b(p1);
    let hi = BigUint::from((1u64 << 32) + 1).pow(2) * 10001u32 * b(p0) * b(p0);
    lo <= mid && mid <= hi
}

pub fn check_tick(t: i32) -> Result<(), String> {
    let p = sqrt_price_from_tick_index(t);
    if t == MIN_TICK && p != MIN_SQRT_PRICE {
        return Err(format!("p(MIN_TICK)={p} != published minimum"));
    }
    if t == MAX_TICK && p != MAX_SQRT_PRICE {
        return Err(format!("p(MAX_TICK)={p} != published maximum"));
    }
    if !(MIN_SQRT_PRICE..=MAX_SQRT_PRICE).contains(&p) {
        return Err(format!("p({t})={p} outside the published bounds"));
    }
    // round trip and one unit either side
    let back = tick_index_from_sqrt_price(&p);
    if back != t {
        return Err(format!("tick_of(p({t})) = {back}"));
    }
    if t > MIN_TICK {
        let below = tick_index_from_sqrt_price(&(p - 1));
        if below != t - 1 {
            return Err(format!("tick_of(p({t})-1) = {below}, expected {}", t - 1));
        }
    }
    if t < MAX_TICK {
        let pn = sqrt_price_from_tick_index(t + 1);
        if pn <= p {
            return Err(format!("not strictly increasing at {t}: p={p} next={pn}"));
        }
        if !ratio_ok(p, pn) {
            return Err(format!("step ratio at {t} is off sqrt(1.0001) by more than 2^-32: p={p} next={pn}"));
        }
        let above = tick_index_from_sqrt_price(&(p + 1));
        let want = if p + 1 == pn { t + 1 } else { t };
        if above != want {
            return Err(format!("tick_of(p({t})+1) = {above}, expected {want}"));
        }
    }
    Ok(())
}

#[derive(Clone, Debug, Serialize, Deserialize)]
pub struct PriceCase {
    #[serde(with = "crate::ser::u128s")]
    pub sqrt_price: u128,
}

pub fn check_price(c: &PriceCase, l: &mut Local) -> Result<(), String> {
    let x = c.sqrt_price;
    let t = tick_index_from_sqrt_price(&x);
    if !(MIN_TICK..=MAX_TICK).contains(&t) {
        return Err(format!("tick_of({x}) = {t} outside tick bounds"));
    }
    let p = sqrt_price_from_tick_index(t);
    if p > x {
        return Err(format!("tick_of({x}) = {t} but p({t}) = {p} > x"));
    }
    if t < MAX_TICK {
        let pn = sqrt_price_from_tick_index(t + 1);
        if pn <= x {
            return Err(format!("tick_of({x}) = {t} but p({}) = {pn} <= x", t + 1));
        }
    } else if x != MAX_SQRT_PRICE {
        return Err(format!("tick_of({x}) = MAX_TICK for a price below the maximum"));
    }
    l.count(if p == x { "on_boundary" } else { "interior" });
    l.nontrivial(fnv(&x.to_le_bytes()));
    l.sample(|| json!({"sqrt_price": x.to_string(), "tick": t}));
    Ok(())
}

/// Mantissas (Q1.63, 64 significant bits) that drive the inverse conversion's iterated-squaring log2 loop onto its decision
/// boundaries: a value whose square is within a few units of 2.0 (the "append a one bit and halve" decision), or the smallest /
/// largest mantissa, reached after 0..=13 squarings.  Built backwards with exact integer square roots, keeping a small window of
/// neighbours at every level (a variant of the loop that rounds differently follows a slightly different path).  Random prices hit
/// such mantissas with probability about 2^-58 per octave; here they are enumerated.
pub fn log2_boundary_mantissas() -> &'static Vec<u64> {
    static L: std::sync::OnceLock<Vec<u64>> = std::sync::OnceLock::new();
    L.get_or_init(|| {
        let isqrt = |x: &BigUint| -> u128 { x.sqrt().try_into().unwrap() };
        let (lo, hi) = (1u128 << 63, (1u128 << 64) - 1);
        let root2 = isqrt(&pow2(127));
        let mut level: std::collections::BTreeSet<u128> = std::collections::BTreeSet::new();
        for base in [root2, lo, hi] {
            for d in -3i128..=3 {
                let v = (base as i128 + d).clamp(lo as i128, hi as i128) as u128;
                level.insert(v);
            }
        }
        let mut all: std::collections::BTreeSet<u128> = level.clone();
        for depth in 1..=13 {
            let w: i128 = if depth <= 2 { 2 } else { 1 };
            let mut next = std::collections::BTreeSet::new();
            for v in &level {
                for s in [63u32, 64] {
                    let r0 = isqrt(&(b(*v) << s));
                    for d in -w..=w {
                        let r = r0 as i128 + d;
                        if r < lo as i128 || r > hi as i128 {
                            continue;
                        }
                        let r = r as u128;
                        // the shift this mantissa really takes
                        let sq = b(r) * b(r);
                        let halves = sq >= pow2(127);
                        if halves == (s == 64) {
                            next.insert(r);
                        }
                    }
                }
            }
            all.extend(next.iter().cloned());
            level = next;
        }
        all.into_iter().map(|v| v as u64).collect()
    })
}

/// the i-th enumerated price: mantissa x octave (most significant bit 32..=95) x low-bit filling (zeros / ones)
pub fn log2_boundary_price(i: u64) -> Option<u128> {
    let m = log2_boundary_mantissas();
    let (mi, rest) = (i / 128, i % 128);
    let (msb, ones) = (32 + (rest / 2) as u32, rest % 2 == 1);
    let r = *m.get(mi as usize)? as u128;
    let p = if msb >= 63 {
        let k = msb - 63;
        (r << k) | if ones && k > 0 { (1u128 << k) - 1 } else { 0 }
    } else {
        r >> (63 - msb)
    };
    (MIN_SQRT_PRICE..=MAX_SQRT_PRICE).contains(&p).then_some(p)
}

fn price_strategy() -> BoxedStrategy<PriceCase> {
    let span = MAX_SQRT_PRICE - MIN_SQRT_PRICE;
    prop_oneof![
        // uniform over the price interval
        any::<u128>().prop_map(move |r| MIN_SQRT_PRICE + r % (span + 1)),
        // log-uniform: uniform bit length 33..=96
        (33u32..=96, any::<u128>()).prop_map(|(bits, r)| {
            let v = (r >> (128 - bits)) | (1u128 << (bits - 1));
            v.clamp(MIN_SQRT_PRICE, MAX_SQRT_PRICE)
        }),
        // near a random tick boundary
        (MIN_TICK..=MAX_TICK, -3i64..=3).prop_map(|(t, d)| {
            let p = sqrt_price_from_tick_index(t) as i128 + d as i128;
            (p.max(MIN_SQRT_PRICE as i128) as u128).min(MAX_SQRT_PRICE)
        }),
        // bit-structured values (the inverse normalises to 64 significant bits and iterates on them)
        crate::gen::structured_u128(96).prop_map(|v| v.clamp(MIN_SQRT_PRICE, MAX_SQRT_PRICE)),
    ]
    .prop_map(|sqrt_price| PriceCase { sqrt_price })
    .boxed()
}

pub fn def() -> CheckDef {
    CheckDef {
        id: "C09",
        rule: "forward domain: every tick in [-443636, 443636] enumerated (monotone, endpoints, exact-integer 2^-32 step-ratio \
               inequality, inverse at p(t) and p(t)±1); every tick is a distinct non-trivial case.  inverse domain: random sqrt-prices \
               (uniform, log-uniform, near boundaries, bit-structured: 2^n±d, runs of ones, all-ones prefixes) checked for p(t) <= x < p(t+1); distinct = distinct price.  inverse_log2_boundaries: the same bracket \
               oracle on an enumerated set of prices whose 64-bit mantissa drives the iterated-squaring log2 loop onto a decision boundary (square within a few units of 2.0, smallest / largest \
               mantissa) after 0..=13 squarings: pre-images built backwards with exact integer square roots and a window of neighbours per level, in every octave, low bits all zero / all one.",
        assumptions: vec!["x86-64 and SBF code generation agree on safe integer code"],
        subs: vec![
            Sub {
                name: "forward_all_ticks",
                run: Box::new(|ctx| {
                    run_enum(ctx, "forward_all_ticks", N_TICKS, |i, l| {
                        let t = MIN_TICK + i as i32;
                        check_tick(t).map_err(|m| (json!({"tick": t}), m))?;
                        l.nontrivial(i);
                        l.sample(|| json!({"tick": t, "sqrt_price": sqrt_price_from_tick_index(t).to_string()}));
                        Ok(())
                    })
                }),
                replay: Box::new(|v| {
                    let t = v["tick"].as_i64().ok_or("bad case")? as i32;
                    check_tick(t)
                }),
            },
            sub("inverse_random", 16_000_000, 1_000_000_000, price_strategy, |c: &PriceCase, l: &mut Local| check_price(c, l)),
            Sub {
                name: "inverse_log2_boundaries",
                run: Box::new(|ctx| {
                    let n = log2_boundary_mantissas().len() as u64 * 128;
                    run_enum(ctx, "inverse_log2_boundaries", n, |i, l| {
                        let Some(p) = log2_boundary_price(i) else {
                            l.count("outside_price_bounds");
                            return Ok(());
                        };
                        // a panic of the conversion (arithmetic overflow in a debug build) is a failure of the case as well
                        let c = PriceCase { sqrt_price: p };
                        match crate::rt::try_call(|| check_price(&c, l)) {
                            Ok(r) => r.map_err(|m| (json!(c), m)),
                            Err(pm) => Err((json!(c), format!("tick_of({p}) panicked: {pm}"))),
                        }
                    })
                }),
                replay: Box::new(|v| {
                    let c: PriceCase = serde_json::from_value(v.clone()).map_err(|e| e.to_string())?;
                    check_price(&c, &mut Local::default())
                }),
            },
        ],
    }
}
