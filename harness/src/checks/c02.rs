//! C02 — one swap step (`compute_swap`) against the exact rational curve.
use crate::gen;
use crate::model::*;
use crate::runner::*;
use num_bigint::BigUint;
use num_traits::ToPrimitive;
use proptest::prelude::*;
use serde::{Deserialize, Serialize};
use serde_json::json;
use whirlpool::math::compute_swap;

#[derive(Clone, Debug, Serialize, Deserialize)]
pub struct StepCase {
    pub amount: u64,
    pub fee_rate: u32,
    #[serde(with = "crate::ser::u128s")]
    pub liquidity: u128,
    #[serde(with = "crate::ser::u128s")]
    pub p_cur: u128,
    #[serde(with = "crate::ser::u128s")]
    pub p_target: u128,
    pub exact_in: bool,
    /// direction flag; for p_cur != p_target always `p_target < p_cur` (what every caller passes)
    pub a_to_b: bool,
}

pub fn check_step(c: &StepCase, l: &mut Local) -> Result<(), String> {
    let (amount, fee, liq, p0, p1, exact_in, a_to_b) = (c.amount, c.fee_rate, c.liquidity, c.p_cur, c.p_target, c.exact_in, c.a_to_b);
    // a panic aborts the transaction on-chain: an unsuccessful computation like an error return
    let r = match crate::rt::try_call(|| compute_swap(amount, fee, liq, p0, p1, exact_in, a_to_b)) {
        Ok(Ok(r)) => r,
        Ok(Err(_)) => {
            l.count("err");
            return Ok(()); // only successful computations are constrained
        }
        Err(_) => {
            l.count("err_panic");
            return Ok(());
        }
    };
    l.count("ok");
    let next = r.next_price;
    if p0 == p1 {
        // a step whose target is the current price must be empty
        if r.amount_in != 0 || r.amount_out != 0 || r.fee_amount != 0 || next != p0 {
            return Err(format!("empty segment moved something: {r:?}"));
        }
        l.count("empty_segment");
        return Ok(());
    }
    // 1. direction / bounds
    let in_range = if a_to_b { next <= p0 && next >= p1 } else { next >= p0 && next <= p1 };
    if !in_range {
        return Err(format!("next price {next} outside [current, target]"));
    }
    // 2. amounts for the move actually made
    let (in_frac, out_frac) = if a_to_b { (a_frac(liq, p0, next), b_frac(liq, p0, next)) } else { (b_frac(liq, p0, next), a_frac(liq, p0, next)) };
    let in_exact_ceil = ceil_div(&in_frac.0, &in_frac.1);
    let out_exact_floor = &out_frac.0 / &out_frac.1;
    if BigUint::from(r.amount_in) != in_exact_ceil {
        return Err(format!("amount_in {} != ceil(exact input) {in_exact_ceil}", r.amount_in));
    }
    let want_out = if !exact_in && out_exact_floor > BigUint::from(amount) { BigUint::from(amount) } else { out_exact_floor.clone() };
    if BigUint::from(r.amount_out) != want_out {
        return Err(format!("amount_out {} != floor(exact output) (capped) {want_out}", r.amount_out));
    }
    // 3. fee and tightness
    let net = net_of_fee(amount, fee);
    let fee_formula = fee_on_input(r.amount_in, fee);
    if next != p1 {
        l.count("stopped_short");
        if exact_in {
            if r.amount_in as u128 + r.fee_amount as u128 != amount as u128 {
                return Err(format!("stopped short but budget not consumed: in {} + fee {} != {amount}", r.amount_in, r.fee_amount));
            }
            if in_exact_ceil > net {
                return Err(format!("curve input {in_exact_ceil} exceeds budget net of fee {net}"));
            }
            let further = if a_to_b { next - 1 } else { next + 1 };
            let f = if a_to_b { a_frac(liq, p0, further) } else { b_frac(liq, p0, further) };
            if ceil_div(&f.0, &f.1) <= net {
                return Err(format!("price could have moved one more unit within the net budget {net} (next={next})"));
            }
        } else {
            if r.amount_out != amount {
                return Err(format!("stopped short but delivered {} of {amount}", r.amount_out));
            }
            if next != p0 {
                let back = if a_to_b { next + 1 } else { next - 1 };
                let f = if a_to_b { b_frac(liq, p0, back) } else { a_frac(liq, p0, back) };
                if &f.0 / &f.1 >= BigUint::from(amount) {
                    return Err(format!("price moved further than the exact-out request needs (next={next})"));
                }
            }
            if BigUint::from(r.fee_amount) != fee_formula {
                return Err(format!("fee {} != ceil(in*r/(1-r)) {fee_formula}", r.fee_amount));
            }
        }
    } else {
        l.count("reached_target");
        if exact_in && in_exact_ceil > net {
            return Err(format!("max step: curve input {in_exact_ceil} exceeds net budget {net}"));
        }
        if BigUint::from(r.fee_amount) != fee_formula {
            // allowed alternative: exact-in step that lands on the target by rounding and is charged the remainder
            return Err(format!("fee {} != ceil(in*r/(1-r)) {fee_formula} on a step that reached its target", r.fee_amount));
        }
        if exact_in && r.amount_in as u128 + r.fee_amount as u128 > amount as u128 {
            return Err(format!("max step took more than the budget: {} + {} > {amount}", r.amount_in, r.fee_amount));
        }
    }
    if liq > 0 && next != p0 {
        let bucket = if liq >> 96 != 0 { "L>=2^96" } else if liq >> 64 != 0 { "L_2^64..2^96" } else { "L<2^64" };
        l.count(&format!("nontrivial/{}/{}/{}", if exact_in { "in" } else { "out" }, if a_to_b { "a2b" } else { "b2a" }, bucket));
        if next != p1 {
            l.count("nontrivial_stopped_short");
        }
        if p0.min(p1) < MIN_SQRT_PRICE + 3 || p0.max(p1) > MAX_SQRT_PRICE - 3 {
            l.count("nontrivial_near_bound");
        }
        l.nontrivial(hash_of(&(amount, fee, liq, p0, p1, exact_in)));
        l.sample(|| json!({"case": c, "result": {"amount_in": r.amount_in, "amount_out": r.amount_out, "fee": r.fee_amount, "next_price": next.to_string()}}));
    }
    Ok(())
}

/// how the step's amount is chosen relative to the exact cost of reaching the target
#[derive(Clone, Debug)]
enum AmtSel {
    Free(u64),
    NearCost(i8),
    NearGross(i8),
}

pub fn step_strategy() -> BoxedStrategy<StepCase> {
    let amt = prop_oneof![
        3 => gen::amount_u64().prop_map(AmtSel::Free),
        3 => (-2i8..=2).prop_map(AmtSel::NearCost),
        3 => (-2i8..=2).prop_map(AmtSel::NearGross),
    ];
    // liquidity: by magnitude, or the inverse image of a whole-segment token amount on a boundary of the u64 result type
    let liq_target = prop_oneof![4 => Just(None), 1 => (any::<bool>(), 0usize..AMOUNT_TARGETS.len(), any::<u32>()).prop_map(Some)];
    (gen::sqrt_price(), gen::liquidity_u128(), gen::fee_rate(100_000), any::<bool>(), amt, any::<bool>(), liq_target)
        .prop_flat_map(|(p0, liq, fee, exact_in, amt, flag, lt)| {
            let tgt = prop_oneof![12 => gen::target_price(p0), 1 => Just(p0)];
            (Just((p0, liq, fee, exact_in, amt, flag, lt)), tgt)
        })
        .prop_map(|((p0, liq, fee, exact_in, amt, flag, lt), p1)| {
            let liq = match lt {
                Some((token_a, ti, frac)) if p0 != p1 => {
                    let (lo, hi) = (p0.min(p1), p0.max(p1));
                    liquidity_for_amount(if token_a { lo } else { hi }, lo, hi, token_a, AMOUNT_TARGETS[ti], frac).unwrap_or(liq)
                }
                _ => liq,
            };
            let a_to_b = if p1 == p0 { flag } else { p1 < p0 };
            let fixed_is_a = a_to_b == exact_in;
            let (n, d) = if fixed_is_a { a_frac(liq, p0, p1) } else { b_frac(liq, p0, p1) };
            let cost = if exact_in { ceil_div(&n, &d) } else { &n / &d };
            let near = |base: BigUint, dlt: i8| -> u64 {
                let v = if dlt >= 0 { base + dlt as u64 } else { let m = BigUint::from((-dlt) as u64); if base >= m { base - m } else { BigUint::from(0u8) } };
                v.to_u64().unwrap_or(u64::MAX)
            };
            let amount = match amt {
                AmtSel::Free(a) => a,
                AmtSel::NearCost(dlt) => near(cost, dlt),
                AmtSel::NearGross(dlt) => {
                    let base = if exact_in && fee < FEE_DEN { ceil_div(&(&cost * FEE_DEN), &BigUint::from(FEE_DEN - fee)) } else { cost };
                    near(base, dlt)
                }
            };
            StepCase { amount, fee_rate: fee, liquidity: liq, p_cur: p0, p_target: p1, exact_in, a_to_b }
        })
        .boxed()
}

// ---------------------------------------------------------------------------------------------------
// the 256-bit long division every amount above rests on

#[derive(Clone, Debug, Serialize, Deserialize, Hash)]
pub struct DivCase {
    pub n: [u64; 4],
    pub d: [u64; 4],
}

fn words_to_big(w: &[u64; 4]) -> BigUint {
    w.iter().rev().fold(BigUint::from(0u8), |acc, x| (acc << 64u32) + BigUint::from(*x))
}
fn big_to_words(v: &BigUint) -> [u64; 4] {
    let d = v.to_u64_digits();
    let mut w = [0u64; 4];
    for (i, x) in d.iter().take(4).enumerate() {
        w[i] = *x;
    }
    w
}

pub fn check_div(c: &DivCase, l: &mut Local) -> Result<(), String> {
    use whirlpool::math::U256Muldiv;
    let mk = |w: &[u64; 4]| U256Muldiv::new(((w[3] as u128) << 64) | w[2] as u128, ((w[1] as u128) << 64) | w[0] as u128);
    let (n, d) = (words_to_big(&c.n), words_to_big(&c.d));
    if d == BigUint::from(0u8) {
        return Ok(());
    }
    let (nn, dd) = (mk(&c.n), mk(&c.d));
    // a panic aborts the transaction: an unsuccessful computation, which the property does not constrain (counted)
    let Ok((q, r)) = crate::rt::try_call(|| nn.div(dd, true)) else {
        l.count("division_panicked");
        return Ok(());
    };
    let got_q = [q.get_word(0), q.get_word(1), q.get_word(2), q.get_word(3)];
    let got_r = [r.get_word(0), r.get_word(1), r.get_word(2), r.get_word(3)];
    let (wq, wr) = (&n / &d, &n % &d);
    if words_to_big(&got_q) != wq || words_to_big(&got_r) != wr {
        return Err(format!("{n} / {d}: program quotient {} remainder {}, exact {wq} remainder {wr}", words_to_big(&got_q), words_to_big(&got_r)));
    }
    let (nw, dw) = (c.n.iter().rposition(|x| *x != 0).map(|i| i + 1).unwrap_or(0), c.d.iter().rposition(|x| *x != 0).map(|i| i + 1).unwrap_or(0));
    l.count(&format!("dividend_words_{nw}/divisor_words_{dw}"));
    if dw >= 2 && nw >= dw {
        l.nontrivial(hash_of(c));
        l.sample(|| json!({"n": n.to_string(), "d": d.to_string(), "q": wq.to_string()}));
    }
    Ok(())
}

fn div_strategy() -> BoxedStrategy<DivCase> {
    // words that drive schoolbook division into its correction steps
    let word = || prop_oneof![3 => any::<u64>(), 1 => Just(0u64), 1 => Just(1u64), 1 => Just(u64::MAX), 1 => Just(u64::MAX - 1), 1 => Just(1u64 << 63), 1 => Just((1u64 << 63) - 1), 1 => Just((1u64 << 63) + 1), 1 => crate::gen::structured_u128(64).prop_map(|v| v as u64)];
    let words = move || (word(), word(), word(), word(), 1usize..=4).prop_map(|(a, b2, c, d, n)| {
        let mut w = [a, b2, c, d];
        for x in w.iter_mut().skip(n) {
            *x = 0;
        }
        w
    });
    prop_oneof![
        // independent operands
        2 => (words(), words()).prop_map(|(n, d)| DivCase { n, d }),
        // dividend = q * d + r with r in {0, 1, d-1, d-2, random < d}: quotient digits on the edge of the estimate
        3 => (words(), words(), 0u8..5, any::<u64>()).prop_map(|(q, d, rk, rr)| {
            let (qb, db) = (words_to_big(&q), words_to_big(&d));
            if db == BigUint::from(0u8) {
                return DivCase { n: q, d };
            }
            let r = match rk {
                0 => BigUint::from(0u8),
                1 => BigUint::from(1u8).min(&db - 1u8),
                2 => &db - 1u8,
                3 => if db > BigUint::from(1u8) { &db - 2u8 } else { BigUint::from(0u8) },
                _ => BigUint::from(rr) % &db,
            };
            // keep the dividend within 256 bits by shortening the quotient
            let mut qq = qb;
            let limit = BigUint::from(1u8) << 256u32;
            while &qq * &db + &r >= limit {
                qq >>= 7u32;
            }
            DivCase { n: big_to_words(&(&qq * &db + &r)), d }
        }),
    ]
    .boxed()
}

pub fn def() -> CheckDef {
    CheckDef {
        id: "C02",
        rule: "compute_swap on generated (amount, fee rate 0..=100000, liquidity with uniform bit length 0..=128, current/target sqrt-price pairs \
               incl. tick boundaries ±2 units, near-equal pairs and the protocol bounds; amounts incl. the exact bigint cost of reaching the target \
               ±2 and that cost grossed up by the fee ±2; one liquidity in five is the exact inverse image of a whole-segment token amount on a boundary \
               of the u64 result type).  Oracle: exact rational curve amounts (BigUint), rounding direction, one-unit tightness, \
               budget consumption.  Non-trivial = Ok result with L>0 and a price move; distinct = hash of all inputs.  wide_division: the program's 256-bit long \
               division (every amount above is one such division) against big-integer quotient and remainder on operands built to sit on the edges of the \
               quotient-digit estimate (words 0, 1, 2^63, 2^63±1, 2^64-1, dividends q*d + {0, 1, d-2, d-1}); a panic is an unsuccessful computation (counted, not constrained).",
        assumptions: vec![
            "only Ok results are constrained (the property says so)",
            "direction flag is the one every caller passes (a_to_b <=> target < current); for target == current both flags are generated",
        ],
        subs: vec![
            sub("step", 16_000_000, 1_600_000_000, step_strategy, |c: &StepCase, l: &mut Local| check_step(c, l)),
            sub("wide_division", 8_000_000, 800_000_000, div_strategy, |c: &DivCase, l: &mut Local| check_div(c, l)),
        ],
    }
}
