use crate::runner::CheckDef;
pub mod c02;
pub mod c05;
pub mod c09;
pub mod hist;

pub fn all() -> Vec<CheckDef> {
    vec![c02::def(), c05::def(), c09::def()]
}
