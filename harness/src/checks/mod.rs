use crate::runner::CheckDef;
pub mod c09;

pub fn all() -> Vec<CheckDef> {
    vec![c09::def()]
}
