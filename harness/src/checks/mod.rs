use crate::runner::CheckDef;
pub mod c01;
pub mod c02;
pub mod c03;
pub mod c04;
pub mod c05;
pub mod c06;
pub mod c07;
pub mod c08;
pub mod c09;
pub mod c10;
pub mod c11;
pub mod c12;
pub mod c13;
pub mod c14;
pub mod c15;
pub mod c16;
pub mod c17;
pub mod c18;
pub mod c19;
pub mod c20;
pub mod c20q;
pub mod hist;

pub fn all() -> Vec<CheckDef> {
    vec![c01::def(), c02::def(), c03::def(), c04::def(), c05::def(), c06::def(), c07::def(), c08::def(), c09::def(), c10::def(), c11::def(), c12::def(), c13::def(), c14::def(), c15::def(), c16::def(), c17::def(), c18::def(), c19::def(), c20::def()]
}
