//! C16 — with transfer-fee tokens the pool still receives and pays the curve amounts.
use crate::gen;
use crate::model::*;
use crate::runner::*;
use crate::world::*;
use anchor_lang::prelude::{AccountInfo, InterfaceAccount};
use proptest::prelude::*;
use serde::{Deserialize, Serialize};
use serde_json::json;
use solana_program::pubkey::Pubkey;
use spl_token_2022::extension::transfer_fee::TransferFee;
use whirlpool::pinocchio::verif_export as pe;
use whirlpool::util::{calculate_transfer_fee_excluded_amount, calculate_transfer_fee_included_amount};

#[derive(Clone, Debug, Serialize, Deserialize, Hash)]
pub struct FeeSched {
    pub epoch: u64,
    pub max: u64,
    pub bp: u16,
}

#[derive(Clone, Debug, Serialize, Deserialize, Hash)]
pub struct FeeFnCase {
    pub older: FeeSched,
    pub newer: FeeSched,
    pub clock_epoch: u64,
    pub amount: u64,
    /// extension type numbers placed before / after the TransferFeeConfig entry
    pub before: Vec<u16>,
    pub after: Vec<u16>,
    pub has_fee_config: bool,
}

fn filler_len(ty: u16) -> usize {
    match ty {
        18 | 20 | 22 | 14 => 64,
        10 => 52,
        3 | 12 => 32,
        25 => 56,
        26 => 33,
        6 => 1,
        _ => 24,
    }
}

pub fn mint_bytes(c: &FeeFnCase, authority: &Pubkey) -> Vec<u8> {
    let mut d = vec![0u8; 82];
    d[0..4].copy_from_slice(&1u32.to_le_bytes());
    d[4..36].copy_from_slice(authority.as_ref());
    d[44] = 6;
    d[45] = 1;
    if !c.has_fee_config && c.before.is_empty() && c.after.is_empty() {
        return d; // a mint without extensions is the bare 82-byte base state
    }
    d.resize(165, 0);
    d.push(1);
    let mut push = |ty: u16, v: &[u8], d: &mut Vec<u8>| {
        d.extend_from_slice(&ty.to_le_bytes());
        d.extend_from_slice(&(v.len() as u16).to_le_bytes());
        d.extend_from_slice(v);
    };
    for t in &c.before {
        push(*t, &vec![0xabu8; filler_len(*t)], &mut d);
    }
    if c.has_fee_config {
        let mut v = vec![0u8; 108];
        v[0..32].copy_from_slice(authority.as_ref());
        v[32..64].copy_from_slice(authority.as_ref());
        v[72..80].copy_from_slice(&c.older.epoch.to_le_bytes());
        v[80..88].copy_from_slice(&c.older.max.to_le_bytes());
        v[88..90].copy_from_slice(&c.older.bp.to_le_bytes());
        v[90..98].copy_from_slice(&c.newer.epoch.to_le_bytes());
        v[98..106].copy_from_slice(&c.newer.max.to_le_bytes());
        v[106..108].copy_from_slice(&c.newer.bp.to_le_bytes());
        push(1, &v, &mut d);
    }
    for t in &c.after {
        push(*t, &vec![0xcdu8; filler_len(*t)], &mut d);
    }
    if d.len() == 355 {
        // 355 bytes is the multisig length; the token program never produces a mint of that size (it pads)
        d.extend_from_slice(&[0u8; 4]);
    }
    d
}

/// the model's own fee arithmetic: min(ceil(z * bp / 10000), max)
pub fn model_fee(s: &FeeSched, z: u64) -> u64 {
    if s.bp == 0 || z == 0 {
        return 0;
    }
    let raw = (z as u128 * s.bp as u128 + 9999) / 10000;
    raw.min(s.max as u128) as u64
}

pub fn check_fn(c: &FeeFnCase, l: &mut Local) -> Result<(), String> {
    let mut clock = solana_program::clock::Clock::default();
    clock.epoch = c.clock_epoch;
    crate::rt::set_thread_clock(&clock);
    let key = Pubkey::new_from_array([5u8; 32]);
    let auth = Pubkey::new_from_array([6u8; 32]);
    let mut data = mint_bytes(c, &auth);
    let data_for_pino = data.clone();
    let mut lamports = 1_000_000u64;
    let owner = TOKEN22;
    let info = AccountInfo::new(&key, false, false, &mut lamports, &mut data, &owner, false, 0);
    let mint: InterfaceAccount<anchor_spl::token_interface::Mint> = InterfaceAccount::try_from(&info).map_err(|e| format!("harness: generated mint does not deserialize: {e:?}"))?;
    // schedule in force by the published rule
    let sched = if !c.has_fee_config { None } else if c.clock_epoch >= c.newer.epoch { Some(&c.newer) } else { Some(&c.older) };
    let fee = |z: u64| -> u64 {
        match sched {
            None => 0,
            Some(s) => {
                let m = model_fee(s, z);
                // ground truth: the token program's own arithmetic
                let tf = TransferFee { epoch: s.epoch.into(), maximum_fee: s.max.into(), transfer_fee_basis_points: s.bp.into() };
                debug_assert_eq!(tf.calculate_fee(z), Some(m));
                tf.calculate_fee(z).unwrap_or(m)
            }
        }
    };
    if let Some(s) = sched {
        let tf = TransferFee { epoch: s.epoch.into(), maximum_fee: s.max.into(), transfer_fee_basis_points: s.bp.into() };
        if tf.calculate_fee(c.amount) != Some(model_fee(s, c.amount)) {
            return Err(format!("harness: model fee {} differs from the token program's {:?}", model_fee(s, c.amount), tf.calculate_fee(c.amount)));
        }
    }
    // ---- removing the fee
    let ea = calculate_transfer_fee_excluded_amount(&mint, c.amount).map_err(|e| format!("{e:?}"));
    let ep = crate::rt::with_pino_account(&key, &owner, 1_000_000, &data_for_pino, |pi| pe::util_token::pino_calculate_transfer_fee_excluded_amount(pi, c.amount).map_err(u64::from));
    match (&ea, &ep) {
        (Ok(a), Ok(p)) => {
            if (a.amount, a.transfer_fee) != (p.amount, p.transfer_fee) {
                return Err(format!("excluded amount: Anchor ({}, {}) vs Pinocchio ({}, {})", a.amount, a.transfer_fee, p.amount, p.transfer_fee));
            }
            if a.amount as u128 + a.transfer_fee as u128 != c.amount as u128 {
                return Err(format!("excluded {} + fee {} != {}", a.amount, a.transfer_fee, c.amount));
            }
            if a.transfer_fee != fee(c.amount) {
                return Err(format!("fee on {} is {}, the schedule in force at epoch {} gives {}", c.amount, a.transfer_fee, c.clock_epoch, fee(c.amount)));
            }
        }
        (Err(_), Err(_)) => l.count("excluded_both_err"),
        _ => return Err(format!("excluded amount: Anchor ok={} Pinocchio ok={}", ea.is_ok(), ep.is_ok())),
    }
    // ---- adding the fee: the smallest amount whose fee-reduced value is the requested one
    let ia = calculate_transfer_fee_included_amount(&mint, c.amount).map_err(|e| format!("{e:?}"));
    let ip = crate::rt::with_pino_account(&key, &owner, 1_000_000, &data_for_pino, |pi| pe::util_token::pino_calculate_transfer_fee_included_amount(pi, c.amount).map_err(u64::from));
    match (&ia, &ip) {
        (Ok(a), Ok(p)) => {
            if (a.amount, a.transfer_fee) != (p.amount, p.transfer_fee) {
                return Err(format!("included amount: Anchor ({}, {}) vs Pinocchio ({}, {})", a.amount, a.transfer_fee, p.amount, p.transfer_fee));
            }
            let z = a.amount;
            if z - fee(z) != c.amount {
                return Err(format!("requesting {z} leaves {} after the fee, the pool needs {}", z - fee(z), c.amount));
            }
            if a.transfer_fee != fee(z) {
                return Err(format!("reported fee {} but the fee on {z} is {}", a.transfer_fee, fee(z)));
            }
            if z > 0 && c.amount > 0 && (z - 1) - fee(z - 1) >= c.amount {
                return Err(format!("{z} is not the smallest request: {} already leaves {} >= {}", z - 1, (z - 1) - fee(z - 1), c.amount));
            }
            let class = match sched {
                None => "no_fee_config",
                Some(s) if s.bp == 10000 => "fee_100_percent",
                Some(s) if fee(z) == s.max && s.bp > 0 => "max_fee_binding",
                Some(s) if s.bp == 0 => "zero_bp",
                _ => "proportional_fee",
            };
            l.count(&format!("included_ok/{class}"));
            if sched.is_some() {
                l.nontrivial(hash_of(c));
                l.sample(|| json!({"case": c, "included": [a.amount, a.transfer_fee]}));
            }
        }
        (Err(_), Err(_)) => l.count("included_both_err"),
        _ => return Err(format!("included amount: Anchor ok={} Pinocchio ok={}", ia.is_ok(), ip.is_ok())),
    }
    if c.has_fee_config {
        l.count(if c.clock_epoch >= c.newer.epoch { "newer_schedule" } else { "older_schedule" });
        if c.clock_epoch == c.newer.epoch {
            l.count("clock_exactly_at_newer_epoch");
        }
    }
    Ok(())
}

fn sched() -> BoxedStrategy<FeeSched> {
    (
        0u64..200,
        prop_oneof![1 => Just(0u64), 2 => 0u64..100, 3 => gen::bits_u64(64), 1 => Just(u64::MAX)],
        prop_oneof![1 => Just(0u16), 1 => Just(1u16), 1 => Just(100u16), 1 => Just(5000u16), 1 => Just(9999u16), 2 => Just(10000u16), 4 => 0u16..=10000],
    )
        .prop_map(|(epoch, max, bp)| FeeSched { epoch, max, bp })
        .boxed()
}

fn fn_case() -> BoxedStrategy<FeeFnCase> {
    let filler = prop::collection::vec(prop::sample::select(vec![18u16, 10, 3, 12, 25, 26, 6, 20, 14]), 0..3);
    (sched(), sched(), 0u64..200, gen::amount_u64(), filler.clone(), filler, prop_oneof![9 => Just(true), 1 => Just(false)], any::<bool>())
        .prop_map(|(older, mut newer, clock_epoch, amount, before, mut after, has_fee_config, at_boundary)| {
            if at_boundary {
                newer.epoch = clock_epoch.saturating_add(older.epoch % 2);
            }
            // an extension type appears once
            let mut seen: std::collections::BTreeSet<u16> = before.iter().copied().collect();
            after.retain(|t| seen.insert(*t));
            let mut b2 = vec![];
            let mut seen2 = std::collections::BTreeSet::new();
            for t in before {
                if seen2.insert(t) {
                    b2.push(t);
                }
            }
            FeeFnCase { older, newer, clock_epoch, amount, before: b2, after, has_fee_config }
        })
        .boxed()
}

// ---------------------------------------------------------------------------------------------------
// instruction level: pools over real Token-2022 transfer-fee mints

use super::hist::*;
use crate::history::*;
use anchor_lang::Discriminator;
use num_bigint::BigUint;
use num_traits::ToPrimitive;

pub fn fee_of(tf: Option<(u16, u64)>, z: u64) -> u64 {
    match tf {
        None => 0,
        Some((bp, max)) => model_fee(&FeeSched { epoch: 0, max, bp }, z),
    }
}

/// smallest z with z - fee(z) == y (g(z) = z - fee(z) is non-decreasing in steps of 0/1)
pub fn smallest_included(tf: Option<(u16, u64)>, y: u64) -> Option<u64> {
    if y == 0 {
        return Some(0);
    }
    let g = |z: u64| z - fee_of(tf, z);
    if g(u64::MAX) < y {
        return None;
    }
    let (mut lo, mut hi) = (0u64, u64::MAX); // g(lo) < y <= g(hi)
    while hi - lo > 1 {
        let mid = lo + (hi - lo) / 2;
        if g(mid) >= y {
            hi = mid;
        } else {
            lo = mid;
        }
    }
    Some(hi)
}

#[derive(Default)]
pub struct FeeTokenMonitor {
    pub transfers_in: u32,
    pub transfers_out: u32,
    pub swaps: u32,
    pub partial_exact_in: u32,
    pub liquidity_ops: u32,
    pub events_checked: u32,
    pub fee_binding: u32,
    pub fee_nonbinding: u32,
}

struct Flow {
    user_delta: i128,
    vault_delta: i128,
}

impl FeeTokenMonitor {
    /// reconcile one token of one instruction; returns (user debit (+) / credit (-), vault delta)
    fn reconcile(&mut self, what: &str, tf: Option<(u16, u64)>, user_acct: &solana_program::pubkey::Pubkey, vault: &solana_program::pubkey::Pubkey, mint: &solana_program::pubkey::Pubkey, h: &Hist, pre: &Snap, post: &Snap) -> Result<Flow, String> {
        let ud = post.balances[user_acct] as i128 - pre.balances[user_acct] as i128;
        let vd = post.balances[vault] as i128 - pre.balances[vault] as i128;
        let wv = post.withheld.get(vault).copied().unwrap_or(0) as i128 - pre.withheld.get(vault).copied().unwrap_or(0) as i128;
        let wu = post.withheld.get(user_acct).copied().unwrap_or(0) as i128 - pre.withheld.get(user_acct).copied().unwrap_or(0) as i128;
        // nobody else's balance of this mint moves
        for (k, before) in &pre.balances {
            if k == user_acct || k == vault {
                continue;
            }
            if crate::decode::token_mint_of(&h.w.bank.get(k).data) == Some(*mint) && post.balances[k] != *before {
                return Err(format!("{what}: an uninvolved account {k} of the mint changed"));
            }
        }
        if ud + vd + wv + wu != 0 {
            return Err(format!("{what}: tokens not conserved: user {ud:+} vault {vd:+} withheld {:+}", wv + wu));
        }
        if vd > 0 {
            // user -> vault of z = -ud
            let z = (-ud) as u64;
            let f = fee_of(tf, z);
            if vd != (z - f) as i128 || wv != f as i128 || wu != 0 {
                return Err(format!("{what}: user sent {z}, fee should be {f}: vault received {vd}, withheld on the vault {wv}"));
            }
            self.transfers_in += 1;
            if let Some((bp, max)) = tf {
                if bp > 0 && f == max {
                    self.fee_binding += 1;
                } else if f > 0 {
                    self.fee_nonbinding += 1;
                }
            }
        } else if vd < 0 {
            let z = (-vd) as u64;
            let f = fee_of(tf, z);
            if ud != (z - f) as i128 || wu != f as i128 || wv != 0 {
                return Err(format!("{what}: vault sent {z}, fee should be {f}: user received {ud}, withheld on the user account {wu}"));
            }
            self.transfers_out += 1;
        } else if ud != 0 || wv != 0 || wu != 0 {
            return Err(format!("{what}: vault unchanged but user {ud:+} withheld {:+}", wv + wu));
        }
        Ok(Flow { user_delta: ud, vault_delta: vd })
    }
}

fn liq_event(ev: &[u8], disc: &[u8]) -> Option<(u128, [u64; 4])> {
    if ev.len() != 8 + 32 + 32 + 4 + 4 + 16 + 32 || &ev[..8] != disc {
        return None;
    }
    let d = &ev[8..];
    let u = |o: usize| u64::from_le_bytes(d[o..o + 8].try_into().unwrap());
    Some((u128::from_le_bytes(d[72..88].try_into().unwrap()), [u(88), u(96), u(104), u(112)]))
}

impl Monitor for FeeTokenMonitor {
    fn after(&mut self, h: &Hist, pre: &Snap, post: &Snap, op: &Op, r: &OpResult, _l: &mut Local) -> Result<(), String> {
        if r.did != Did::Ok {
            return Ok(());
        }
        let Some(u) = r.user else { return Ok(()) };
        let pl = &h.w.pools[h.pool];
        let (tfa, tfb) = (pl.mint_a.transfer_fee, pl.mint_b.transfer_fee);
        let (ua, ub) = (h.w.user_token_existing(u, &pl.mint_a.key), h.w.user_token_existing(u, &pl.mint_b.key));
        let name = op_name(op);
        if !matches!(op, Op::Swap { .. } | Op::SwapBack { .. } | Op::SwapExact { .. } | Op::Increase { .. } | Op::Decrease { .. } | Op::Reposition { .. } | Op::CollectFees { .. } | Op::CollectProtocolFees { .. }) {
            return Ok(());
        }
        let fa = self.reconcile(&format!("{name} token A"), tfa, &ua, &pl.vault_a, &pl.mint_a.key, h, pre, post)?;
        let fb = self.reconcile(&format!("{name} token B"), tfb, &ub, &pl.vault_b, &pl.mint_b.key, h, pre, post)?;
        let o = r.outcome.as_ref().unwrap();
        let (pl_lo, pl_hi) = r.pos.map(|p| (h.w.positions[p].lower, h.w.positions[p].upper)).unwrap_or((0, 0));
        match op {
            Op::Swap { .. } | Op::SwapBack { .. } | Op::SwapExact { .. } => {
                let sp = r.swap.as_ref().unwrap();
                let total_in: u64 = o.steps.iter().map(|s| s.amount_in + s.fee_amount).sum();
                let total_out: u64 = o.steps.iter().map(|s| s.amount_out).sum();
                let (fin, fout, tf_in, tf_out) = if sp.a_to_b { (&fa, &fb, tfa, tfb) } else { (&fb, &fa, tfb, tfa) };
                if fin.vault_delta != total_in as i128 {
                    return Err(format!("swap: the input vault received {} but the curve amount plus fee is {total_in}", fin.vault_delta));
                }
                if fout.vault_delta != -(total_out as i128) {
                    return Err(format!("swap: the output vault paid {} but the curve output is {total_out}", -fout.vault_delta));
                }
                let debit = (-fin.user_delta) as u64;
                let credit = fout.user_delta as u64;
                if sp.exact_in {
                    if debit > sp.amount {
                        return Err(format!("exact-in swap debited {debit} > stated {}", sp.amount));
                    }
                    let full = debit == sp.amount;
                    if !full {
                        self.partial_exact_in += 1;
                        if Some(debit) != smallest_included(tf_in, total_in) {
                            return Err(format!("partial exact-in fill requested {debit} from the user; the smallest amount leaving {total_in} after the fee is {:?}", smallest_included(tf_in, total_in)));
                        }
                    }
                } else {
                    if credit > sp.amount {
                        return Err(format!("exact-out swap credited {credit} > requested {}", sp.amount));
                    }
                    if Some(debit) != smallest_included(tf_in, total_in) {
                        return Err(format!("exact-out swap requested {debit} from the user; the smallest amount leaving {total_in} after the fee is {:?}", smallest_included(tf_in, total_in)));
                    }
                    let filled = post.pool.sqrt_price != sp.sqrt_price_limit || sp.sqrt_price_limit == 0;
                    if filled && credit != sp.amount && sp.sqrt_price_limit == 0 {
                        return Err(format!("exact-out swap without limit delivered {credit} to the user instead of {}", sp.amount));
                    }
                }
                // the trade record
                let evs: Vec<_> = o.events.iter().filter_map(|e| super::c06::parse_traded(e)).collect();
                if evs.len() != 1 {
                    return Err(format!("{} Traded events", evs.len()));
                }
                let e = &evs[0];
                if e.input_amount != debit || e.input_transfer_fee != fee_of(tf_in, debit) || e.output_amount != total_out || e.output_transfer_fee != fee_of(tf_out, total_out) {
                    return Err(format!("trade record (in {}, in fee {}, out {}, out fee {}) differs from the amounts moved (debit {debit}, fee {}, vault out {total_out}, fee {})", e.input_amount, e.input_transfer_fee, e.output_amount, e.output_transfer_fee, fee_of(tf_in, debit), fee_of(tf_out, total_out)));
                }
                if e.output_amount - e.output_transfer_fee != credit {
                    return Err("trade record: output minus fee is not what the user received".into());
                }
                self.events_checked += 1;
                self.swaps += 1;
            }
            Op::Increase { .. } | Op::Decrease { .. } => {
                let p = r.pos.unwrap();
                let (l0, l1) = (pre.positions[p].as_ref().map(|s| s.liquidity).unwrap_or(0), post.positions[p].as_ref().map(|s| s.liquidity).unwrap_or(0));
                let (plp, pup) = (whirlpool::math::sqrt_price_from_tick_index(pl_lo), whirlpool::math::sqrt_price_from_tick_index(pl_hi));
                if l1 >= l0 {
                    let (ca, cb) = position_amounts(l1 - l0, pre.pool.sqrt_price, plp, pup, true);
                    if BigUint::from(fa.vault_delta.max(0) as u128) != ca || BigUint::from(fb.vault_delta.max(0) as u128) != cb {
                        return Err(format!("deposit: vaults received ({}, {}) but the liquidity costs ({ca}, {cb})", fa.vault_delta, fb.vault_delta));
                    }
                    for (f, tf, c) in [(&fa, tfa, ca.to_u64()), (&fb, tfb, cb.to_u64())] {
                        if let Some(c) = c {
                            if Some((-f.user_delta) as u64) != smallest_included(tf, c) {
                                return Err(format!("deposit requested {} from the user; the smallest amount leaving {c} after the fee is {:?}", -f.user_delta, smallest_included(tf, c)));
                            }
                        }
                    }
                    if let Op::Increase { variant: IncVariant::ByAmounts { max_a, max_b }, .. } = op {
                        if (-fa.user_delta) as u64 > *max_a || (-fb.user_delta) as u64 > *max_b {
                            return Err("by-token-amounts debited more than the stated maximum".into());
                        }
                    }
                    if let Some((liq, [a, b2, fa_e, fb_e])) = o.events.iter().find_map(|e| liq_event(e, whirlpool::events::LiquidityIncreased::DISCRIMINATOR)) {
                        if liq != l1 - l0 || a != (-fa.user_delta) as u64 || b2 != (-fb.user_delta) as u64 || fa_e != fee_of(tfa, a) || fb_e != fee_of(tfb, b2) {
                            return Err(format!("LiquidityIncreased event ({liq}, {a}, {b2}, {fa_e}, {fb_e}) differs from the amounts moved"));
                        }
                        self.events_checked += 1;
                    } else {
                        return Err("no LiquidityIncreased event".into());
                    }
                } else {
                    let (ra, rb) = position_amounts(l0 - l1, pre.pool.sqrt_price, plp, pup, false);
                    if BigUint::from((-fa.vault_delta).max(0) as u128) != ra || BigUint::from((-fb.vault_delta).max(0) as u128) != rb {
                        return Err(format!("withdrawal: vaults paid ({}, {}) but the liquidity returns ({ra}, {rb})", -fa.vault_delta, -fb.vault_delta));
                    }
                    if let Some((liq, [a, b2, fa_e, fb_e])) = o.events.iter().find_map(|e| liq_event(e, whirlpool::events::LiquidityDecreased::DISCRIMINATOR)) {
                        if liq != l0 - l1 || a != (-fa.vault_delta) as u64 || b2 != (-fb.vault_delta) as u64 || a - fa_e != fa.user_delta as u64 || b2 - fb_e != fb.user_delta as u64 {
                            return Err(format!("LiquidityDecreased event ({liq}, {a}, {b2}, {fa_e}, {fb_e}) differs from the amounts moved"));
                        }
                        self.events_checked += 1;
                    } else {
                        return Err("no LiquidityDecreased event".into());
                    }
                }
                self.liquidity_ops += 1;
            }
            Op::CollectFees { .. } => {
                let p = r.pos.unwrap();
                if let Some(ps) = &pre.positions[p] {
                    if -fa.vault_delta != ps.fee_owed_a as i128 || -fb.vault_delta != ps.fee_owed_b as i128 {
                        return Err("collect_fees: vaults did not pay exactly the fees owed".into());
                    }
                }
            }
            Op::CollectProtocolFees { .. } => {
                if -fa.vault_delta != pre.pool.protocol_fee_owed_a as i128 || -fb.vault_delta != pre.pool.protocol_fee_owed_b as i128 {
                    return Err("collect_protocol_fees: vaults did not pay exactly the protocol fees owed".into());
                }
            }
            _ => {}
        }
        Ok(())
    }
}

pub fn check_pool_history(case: &HistoryCase, l: &mut Local) -> Result<(), String> {
    let mut m = FeeTokenMonitor::default();
    let stats = run_history(case, &mut [&mut m], l)?;
    count_stats(&stats, l);
    l.count_n("transfers_user_to_vault", m.transfers_in as u64);
    l.count_n("transfers_vault_to_user", m.transfers_out as u64);
    l.count_n("swaps_checked", m.swaps as u64);
    l.count_n("partial_exact_in_fills", m.partial_exact_in as u64);
    l.count_n("liquidity_ops_checked", m.liquidity_ops as u64);
    l.count_n("events_checked", m.events_checked as u64);
    l.count_n("transfers_with_binding_max_fee", m.fee_binding as u64);
    l.count_n("transfers_with_proportional_fee", m.fee_nonbinding as u64);
    for (n, tf) in [("tf1", case.spec.tf1), ("tf2", case.spec.tf2)] {
        if let Some((bp, _)) = tf {
            if bp == 10000 {
                l.count(&format!("{n}_100_percent"));
            }
        }
    }
    if m.swaps >= 1 && m.liquidity_ops >= 1 && (m.fee_binding + m.fee_nonbinding) > 0 {
        l.count("nontrivial_histories");
        l.nontrivial(hash_of(case));
        l.sample(|| json!({"spec": case.spec, "n_ops": case.ops.len(), "stats": format!("{stats:?}")}));
    }
    Ok(())
}


fn pool_history_case() -> BoxedStrategy<HistoryCase> {
    // current schedules plus (3 in 5) a scheduled change that is pending or already in force; SetTransferFee / AdvanceEpoch ops mid-history
    with_fee_mints(history_strategy(false, false, 30))
}

fn fee_pool_bounds_case() -> BoxedStrategy<super::c03::BoundsCase> {
    (pool_history_case(), 0u8..2, any::<bool>(), any::<bool>(), swap_amount_strategy(), limit_strategy())
        .prop_map(|(mut hist, trader, a_to_b, exact_in, amount, limit)| {
            hist.ops.truncate(20);
            super::c03::BoundsCase { hist, swap: super::c03::SwapSpec { trader, a_to_b, exact_in, amount, limit, v2: true } }
        })
        .boxed()
}

/// C17's two-pool cases over Token-2022 transfer-fee mints (input, intermediate and output mint each with or without a schedule)
fn fee_two_hop_case() -> BoxedStrategy<super::c17::TwoHopCase> {
    (super::c17::case_strategy(), crate::history::tf_strategy(), crate::history::tf_strategy(), crate::history::tf_strategy(), 0u8..8)
        .prop_map(|(mut c, a, b2, n, drop)| {
            c.malformed = 0;
            c.v2 = true;
            c.hist1.spec.mint_kind = 3;
            c.spec2.mint_kind = 3;
            // drop one schedule in some cases so that fee-free intermediate mints (full comparison with the single swaps) occur too
            c.hist1.spec.tf1 = if drop == 0 { None } else { a.or(Some((100, u64::MAX))) };
            c.hist1.spec.tf2 = if drop == 1 { None } else { b2.or(Some((250, 5000))) };
            c.spec2.tf2 = if drop == 2 { None } else { n.or(Some((10_000, 777))) };
            c
        })
        .boxed()
}

pub fn def() -> CheckDef {
    CheckDef {
        id: "C16",
        rule: "function level: generated TransferFeeConfig (bp 0..=10000 incl. 100 %, any maximum, older/newer schedule around the clock epoch incl. clock == newer epoch) placed \
               among other TLV entries of a Token-2022 mint, any u64 amount; Anchor helpers (through a real InterfaceAccount<Mint>) and the Pinocchio ports (through a real \
               Pinocchio AccountInfo) must agree; excluded + fee == included; fee == the schedule in force (token program's calculate_fee as ground truth, cross-checked \
               with the harness's own arithmetic); the fee-included request z satisfies z - fee(z) == y and (z-1) - fee(z-1) < y (smallest, by monotonicity).  \
               Instruction level (`pools` sub-check): pools over real Token-2022 fee mints (fee changes scheduled through the real SetTransferFee, pending or in force, epochs advancing mid-history), swaps / liquidity instructions judged on balances, withheld fees and events; two_hop_swap_v2 over fee mints (`two_hop_thresholds`): thresholds judged on what the trader really receives / pays.  \
               Non-trivial = Ok result with a fee schedule present.",
        assumptions: vec!["H1 re-export hook for the Pinocchio copies", "the Clock sysvar is the harness's thread clock"],
        subs: vec![
            sub("fee_functions", 2_000_000, 200_000_000, fn_case, |c: &FeeFnCase, l: &mut Local| check_fn(c, l)),
            sub("pools", 15_000, 300_000, pool_history_case, |c: &HistoryCase, l: &mut Local| check_pool_history(c, l)),
            sub("pool_swap_thresholds", 10_000, 300_000, fee_pool_bounds_case, |c: &super::c03::BoundsCase, l: &mut Local| super::c03::check_case(c, l)),
            // two_hop_swap_v2 over fee mints: the threshold is judged on what the trader really receives / pays (realised -1 / 0 / +1),
            // amount bounds, intermediate nets to zero; with a fee-free intermediate mint also equality with the two single swaps
            // reposition_liquidity_v2 over fee / hook mints: bounds, net movements and the LiquidityRepositioned event (C08's sub-check, run
            // here over fee mints only for the C16 clauses)
            sub("reposition_fee_mints", 8_000, 200_000, || super::c08::repo_case().prop_map(|mut c| { if c.hist.spec.mint_kind != 3 { c.hist.spec.mint_kind = 3; c.hist.spec.tf1 = Some((100, u64::MAX)); c.hist.spec.tf2 = Some((250, 5000)); } c }).boxed(), |c: &super::c08::RepoCase, l: &mut Local| super::c08::check_reposition(c, l)),
            sub("two_hop_thresholds", 12_000, 300_000, fee_two_hop_case, |c: &super::c17::TwoHopCase, l: &mut Local| super::c17::check_case(c, l, false)),
        ],
    }
}
