//! C03 — swaps honour the trader's amount, price-limit and slippage bounds.
use super::hist::*;
use crate::history::*;
use crate::model::*;
use crate::runner::*;
use crate::world::SwapParams;
use proptest::prelude::*;
use serde::{Deserialize, Serialize};
use serde_json::json;

#[derive(Clone, Debug, Serialize, Deserialize, Hash)]
pub struct SwapSpec {
    pub trader: u8,
    pub a_to_b: bool,
    pub exact_in: bool,
    pub amount: u64,
    pub limit: LimitSel,
    pub v2: bool,
}

#[derive(Clone, Debug, Serialize, Deserialize, Hash)]
pub struct BoundsCase {
    pub hist: HistoryCase,
    pub swap: SwapSpec,
}

struct Nop;
impl Monitor for Nop {
    fn after(&mut self, _: &Hist, _: &Snap, _: &Snap, _: &Op, _: &OpResult, _: &mut Local) -> Result<(), String> {
        Ok(())
    }
}

pub struct Realised {
    pub paid: u64,
    pub received: u64,
}

/// run one swap on a clone; returns realised (paid, received) from the trader's balances, or the error code
pub fn try_swap(h: &Hist, user: usize, sp: &SwapParams, v2: bool) -> (crate::world::World, Result<Realised, u64>, crate::rt::Outcome) {
    let mut w = h.w.clone();
    let pl = w.pools[h.pool].clone();
    let (ta, tb) = (w.user_token_existing(user, &pl.mint_a.key), w.user_token_existing(user, &pl.mint_b.key));
    let (a0, b0) = (w.balance(&ta), w.balance(&tb));
    let ix = if v2 { w.ix_swap_v2(h.pool, user, sp) } else { w.ix_swap(h.pool, user, sp) };
    let o = w.exec(&ix);
    if !o.ok() {
        let c = o.code().unwrap();
        return (w, Err(c), o);
    }
    let (a1, b1) = (w.balance(&ta), w.balance(&tb));
    let (paid, received) = if sp.a_to_b { (a0 as i128 - a1 as i128, b1 as i128 - b0 as i128) } else { (b0 as i128 - b1 as i128, a1 as i128 - a0 as i128) };
    (w, Ok(Realised { paid: paid.max(0) as u64, received: received.max(0) as u64 }), o)
}

pub fn check_case(c: &BoundsCase, l: &mut Local) -> Result<(), String> {
    let Some(mut h) = Hist::build(&c.hist.spec) else {
        l.count("world_build_rejected");
        return Ok(());
    };
    for op in &c.hist.ops {
        h.exec(op);
    }
    let s = &c.swap;
    let user = h.traders[s.trader as usize % h.traders.len()];
    let v2 = s.v2 || h.needs_v2();
    let limit = h.resolve_limit(&s.limit, s.a_to_b);
    let neutral = SwapParams { amount: s.amount, threshold: SwapParams::neutral_threshold(s.exact_in), sqrt_price_limit: limit, exact_in: s.exact_in, a_to_b: s.a_to_b };
    let pre = h.w.pool_state(h.pool);
    let (w1, res, out) = try_swap(&h, user, &neutral, v2);
    let thresholds = |real: Option<&Realised>| -> Vec<u64> {
        let r = real.map(|r| if s.exact_in { r.received } else { r.paid }).unwrap_or(s.amount);
        vec![r.saturating_sub(1), r, r.saturating_add(1), 0, u64::MAX]
    };
    match res {
        Err(code) => {
            l.count(&format!("neutral_rejected/{code}"));
            // no threshold can turn a failing swap into a succeeding one
            for t in thresholds(None) {
                let sp = SwapParams { threshold: t, ..neutral.clone() };
                if let (_, Ok(_), _) = try_swap(&h, user, &sp, v2) {
                    return Err(format!("swap fails with the neutral threshold (code {code}) but succeeds with threshold {t}"));
                }
            }
            Ok(())
        }
        Ok(real) => {
            let post = w1.pool_state(h.pool);
            // amount bounds
            if s.exact_in && real.paid > s.amount {
                return Err(format!("exact-in swap took {} > specified {}", real.paid, s.amount));
            }
            if !s.exact_in && real.received > s.amount {
                return Err(format!("exact-out swap delivered {} > specified {}", real.received, s.amount));
            }
            // price bounds
            let bound = if s.a_to_b { MIN_SQRT_PRICE } else { MAX_SQRT_PRICE };
            let eff_limit = if limit == 0 { bound } else { limit };
            if !(MIN_SQRT_PRICE..=MAX_SQRT_PRICE).contains(&post.sqrt_price) {
                return Err(format!("price {} outside protocol bounds", post.sqrt_price));
            }
            if s.a_to_b {
                if post.sqrt_price > pre.sqrt_price {
                    return Err("a->b swap raised the price".into());
                }
                if post.sqrt_price < eff_limit {
                    return Err(format!("price {} moved below the limit {eff_limit}", post.sqrt_price));
                }
            } else {
                if post.sqrt_price < pre.sqrt_price {
                    return Err("b->a swap lowered the price".into());
                }
                if post.sqrt_price > eff_limit {
                    return Err(format!("price {} moved above the limit {eff_limit}", post.sqrt_price));
                }
            }
            let used = if s.exact_in { real.paid } else { real.received };
            let stopped_at_limit = post.sqrt_price == eff_limit;
            if used < s.amount {
                l.count("partial_fill");
                if !stopped_at_limit {
                    return Err(format!("used {used} of {} but the final price {} is not the limit/bound {eff_limit}", s.amount, post.sqrt_price));
                }
                if !s.exact_in && limit == 0 {
                    return Err(format!("exact-out swap without a limit delivered only {used} of {}", s.amount));
                }
            }
            // thresholds: accept <=> the threshold admits the realised amount
            for t in thresholds(Some(&real)) {
                let sp = SwapParams { threshold: t, ..neutral.clone() };
                let (w2, r2, _) = try_swap(&h, user, &sp, v2);
                let admits = if s.exact_in { t <= real.received } else { t >= real.paid };
                match (admits, &r2) {
                    (true, Err(code)) => return Err(format!("threshold {t} admits the realised amount (paid {}, received {}) but the swap failed with {code}", real.paid, real.received)),
                    (false, Ok(_)) => {
                        return Err(format!(
                            "swap completed although {} (paid {}, received {}, threshold {t})",
                            if s.exact_in { "the output is below the stated minimum" } else { "the input is above the stated maximum" },
                            real.paid,
                            real.received
                        ))
                    }
                    (true, Ok(r)) => {
                        if r.paid != real.paid || r.received != real.received || w2.pool_state(h.pool) != post {
                            return Err("the threshold changed the outcome of the swap".into());
                        }
                    }
                    (false, Err(_)) => {}
                }
            }
            let crossed = out.steps.iter().any(|st| st.crossed_initialized_tick.is_some());
            l.count(&format!("ok/{}/{}/{}", if s.exact_in { "in" } else { "out" }, if s.a_to_b { "a2b" } else { "b2a" }, if v2 { "v2" } else { "v1" }));
            if stopped_at_limit {
                l.count("stopped_at_limit_or_bound");
            }
            if crossed {
                l.count("crossed_initialized_tick");
            }
            if h.needs_v2() {
                l.count("token2022_pool");
            }
            if crossed || stopped_at_limit {
                l.nontrivial(hash_of(c));
                l.sample(|| json!({"spec": c.hist.spec, "prefix_ops": c.hist.ops.len(), "swap": c.swap, "limit": limit.to_string(), "paid": real.paid, "received": real.received}));
            }
            Ok(())
        }
    }
}

fn case_strategy() -> BoxedStrategy<BoundsCase> {
    // SPL Token, extension-free Token-2022, mixed, and Token-2022 mints with (different) transfer fees
    let plain = (history_strategy(false, false, 20), prop_oneof![3 => Just(0u8), 1 => Just(1u8), 1 => Just(2u8)]).prop_map(|(mut h, mk)| {
        h.spec.mint_kind = mk;
        h
    });
    let hist = prop_oneof![5 => plain, 2 => with_fee_mints(history_strategy(false, false, 20))];
    let swap = (0u8..2, any::<bool>(), any::<bool>(), swap_amount_strategy(), limit_strategy(), any::<bool>())
        .prop_map(|(trader, a_to_b, exact_in, amount, limit, v2)| SwapSpec { trader, a_to_b, exact_in, amount, limit, v2 });
    (hist, swap).prop_map(|(hist, swap)| BoundsCase { hist, swap }).boxed()
}

pub fn def() -> CheckDef {
    CheckDef {
        id: "C03",
        rule: "a generated history prefix, then one swap (v1 / v2; SPL Token, extension-free Token-2022 mints, or Token-2022 transfer-fee mints with current and scheduled fee schedules) with generated amount, direction, mode and price \
               limit (none, exact price of an initialized / usable tick, offset, protocol bound); run once with a neutral threshold to learn the realised \
               amounts from the trader's balances, then on fresh clones with thresholds realised-1, realised, realised+1, 0 and u64::MAX: accepted <=> the \
               threshold admits the realised amount; on success amount bounds, direction, protocol bounds, limit, 'used less => price == limit/bound', \
               exact-out without limit fills completely.  Non-trivial = successful neutral run that crossed an initialized tick or stopped at the limit; \
               two-hop bounds are checked in the `two_hop` sub-check.",
        assumptions: vec!["nsvm runtime as in DESIGN.md §5"],
        subs: vec![
            sub("single", 24_000, 600_000, case_strategy, |c: &BoundsCase, l: &mut Local| check_case(c, l)),
            sub("two_hop", 16_000, 400_000, super::c17::case_strategy, |c: &super::c17::TwoHopCase, l: &mut Local| super::c17::check_case(c, l, true)),
        ],
    }
}
