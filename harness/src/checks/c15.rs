//! C15 — instructions act only on accounts that belong to the pool they name.
use super::c04::rich_spec_strategy;
use crate::rich::*;
use crate::runner::*;
use crate::world::*;
use serde_json::json;
use solana_program::pubkey::Pubkey;

/// well-formed accounts of the same type that belong to a different pool / mint / position / index
fn substitutes(r: &Rich, ent: &Entry, idx: usize, kind: &SlotKind, pool: usize) -> Vec<(&'static str, Pubkey)> {
    let w = &r.w;
    let cur = ent.ix.accounts[idx].pubkey;
    let pl = &w.pools[pool];
    let others: Vec<usize> = [r.p0, r.p1, r.pa].into_iter().filter(|p| *p != pool).collect();
    let mut out: Vec<(&'static str, Pubkey)> = vec![];
    let actor = if ent.name.starts_with("swap") || ent.name.starts_with("two_hop") || ent.name.starts_with("collect_protocol") { r.trader } else { r.owner };
    match kind {
        SlotKind::Whirlpool => {
            for o in &others {
                out.push(("another pool", w.pools[*o].key));
            }
        }
        SlotKind::VaultA | SlotKind::VaultB => {
            let (mint, other_vault) = if *kind == SlotKind::VaultA { (pl.mint_a.key, pl.vault_b) } else { (pl.mint_b.key, pl.vault_a) };
            out.push(("the pool's vault of the other token", other_vault));
            for o in &others {
                let op = &w.pools[*o];
                if op.mint_a.key == mint {
                    out.push(("another pool's vault of the same token", op.vault_a));
                }
                if op.mint_b.key == mint {
                    out.push(("another pool's vault of the same token", op.vault_b));
                }
            }
            out.push(("a user token account of the same mint", w.user_token_existing(r.attacker, &mint)));
            // right mint AND right authority (the pool), but not the pool's vault: a stray account anybody can create, and the pool's
            // reward vault when it pays a reward in this token
            for (sp, sm, t) in &r.stray {
                if *sp == pool && *sm == mint {
                    out.push(("a token account of the same mint owned by the pool that is not its vault", *t));
                }
            }
            for rw in &pl.rewards {
                if rw.mint.key == mint {
                    out.push(("the pool's reward vault holding the same token", rw.vault));
                }
            }
        }
        SlotKind::OwnerTokenA | SlotKind::OwnerTokenB => {
            let other_mint = if *kind == SlotKind::OwnerTokenA { pl.mint_b.key } else { pl.mint_a.key };
            out.push(("a token account of the pool's other mint", w.user_token_existing(actor, &other_mint)));
            out.push(("a token account of an unrelated mint", w.user_token_existing(actor, &r.spare_mint.key)));
        }
        SlotKind::MintA | SlotKind::MintB => {
            out.push(("the pool's other mint", if *kind == SlotKind::MintA { pl.mint_b.key } else { pl.mint_a.key }));
            out.push(("an unrelated mint", r.spare_mint.key));
        }
        SlotKind::TickArray => {
            // same start index, other pool (all pools of the world share spacing and price, hence array starts)
            let ts = pl.tick_spacing;
            let base = array_start(w.pool_state(pool).tick_current_index, ts);
            for k in -2i32..=2 {
                let s = base + k * 88 * ts as i32;
                if tick_array_pda(&pl.key, s) == cur {
                    for o in &others {
                        let cand = tick_array_pda(&w.pools[*o].key, s);
                        if w.bank.accounts.contains_key(&cand) {
                            out.push(("another pool's tick array with the same start index", cand));
                        }
                    }
                }
            }
        }
        SlotKind::Position => {
            for p in [r.pos_other_pool, r.pos_adaptive, r.pos_plain, r.pos_te] {
                let k = w.positions[p].position;
                if k != cur {
                    out.push(("another position", k));
                }
            }
        }
        SlotKind::PositionToken => {
            for p in [r.pos_other_pool, r.pos_plain, r.pos_te, r.pos_locked] {
                let k = w.positions[p].token_account;
                if k != cur {
                    out.push(("the token account of another position", k));
                }
            }
        }
        SlotKind::Oracle => {
            for o in &others {
                out.push(("another pool's oracle", w.pools[*o].oracle));
            }
        }
        SlotKind::RewardVault => {
            for (i, rw) in pl.rewards.iter().enumerate() {
                if rw.vault != cur {
                    let _ = i;
                    out.push(("the vault of another reward index", rw.vault));
                }
            }
            for o in &others {
                for rw in &w.pools[*o].rewards {
                    out.push(("another pool's reward vault", rw.vault));
                }
            }
            // right mint and right authority, not the reward's vault
            if let Some(cur_rw) = pl.rewards.iter().find(|rw| rw.vault == cur) {
                for (sp, sm, t) in &r.stray {
                    if *sp == pool && *sm == cur_rw.mint.key {
                        out.push(("a token account of the reward mint owned by the pool that is not the reward vault", *t));
                    }
                }
                if cur_rw.mint.key == pl.mint_a.key {
                    out.push(("the pool's token vault of the same mint", pl.vault_a));
                }
                if cur_rw.mint.key == pl.mint_b.key {
                    out.push(("the pool's token vault of the same mint", pl.vault_b));
                }
            }
        }
        SlotKind::RewardOwnerToken => {
            out.push(("a token account of another mint", w.user_token_existing(r.owner, &r.spare_mint.key)));
            for rw in &pl.rewards {
                let t = w.user_token_existing(r.owner, &rw.mint.key);
                if t != cur {
                    out.push(("a token account of the other reward's mint", t));
                }
            }
        }
        SlotKind::RewardMint => {
            for rw in &pl.rewards {
                if rw.mint.key != cur {
                    out.push(("the other reward's mint", rw.mint.key));
                }
            }
            out.push(("an unrelated mint", r.spare_mint.key));
        }
        SlotKind::TokenProgram => {
            out.push(("the token program that does not own the mint", if cur == TOKEN { TOKEN22 } else { TOKEN }));
            out.push(("a program that is not a token program", MEMO));
            out.push(("a program that accepts every instruction", crate::rt::obliging_program()));
        }
        SlotKind::MemoProgram => {
            out.push(("another program", SYS));
            out.push(("another program", TOKEN));
            out.push(("the legacy Memo v1 program", crate::rt::memo_v1_program()));
            out.push(("a program that accepts every instruction", crate::rt::obliging_program()));
        }
        SlotKind::SystemProgram => {
            out.push(("another program", MEMO));
            out.push(("a program that accepts every instruction", crate::rt::obliging_program()));
        }
        SlotKind::Config => {
            out.push(("another config", w.configs[r.cfg2].key));
        }
    }
    out.retain(|(_, k)| *k != cur);
    out
}

/// a v2 instruction built without remaining accounts (`remaining_accounts_info: None`, the last byte of its data), re-issued
/// with one slice of `accounts_type` naming `keys` appended after its accounts
pub fn with_supplemental(ix: &solana_program::instruction::Instruction, accounts_type: u8, keys: &[Pubkey]) -> solana_program::instruction::Instruction {
    let mut out = ix.clone();
    assert_eq!(out.data.pop(), Some(0), "instruction was built with remaining accounts already");
    out.data.push(1); // Some
    out.data.extend_from_slice(&1u32.to_le_bytes()); // one slice
    out.data.push(accounts_type);
    out.data.push(keys.len() as u8);
    for k in keys {
        out.accounts.push(solana_program::instruction::AccountMeta::new(*k, false));
    }
    out
}

/// Transfer-hook accounts travel in typed slices of the remaining accounts (one slice per transfer).  On a pool whose two mints use
/// DIFFERENT hook programs: a wrong program in a slice, a missing slice, the right program in the wrong slice must all be refused.
fn hook_slices(r: &Rich, l: &mut Local) -> Result<(), String> {
    let w = &r.w;
    let (h1, h2) = (crate::rt::hook_program(1), crate::rt::hook_program(2));
    let pl = &w.pools[r.p_hook];
    let prog_of = |a: bool| if a { pl.mint_a.hook.unwrap() } else { pl.mint_b.hook.unwrap() };
    let treasury_a = w.user_token_existing(r.trader, &pl.mint_a.key);
    let treasury_b = w.user_token_existing(r.trader, &pl.mint_b.key);
    let reward_dest = w.user_token_existing(r.owner, &pl.rewards[0].mint.key);
    let sp = SwapParams { amount: 1000, threshold: 0, sqrt_price_limit: 0, exact_in: true, a_to_b: true };
    let (lo, hi) = (w.positions[r.pos_hook].lower, w.positions[r.pos_hook].upper);
    let ts = pl.tick_spacing as i32;
    // (name, decorated baseline, [(accounts type, expected program)])
    let ab = vec![(0u8, prog_of(true)), (1u8, prog_of(false))];
    let list: Vec<(&str, solana_program::instruction::Instruction, Vec<(u8, Pubkey)>)> = vec![
        ("swap_v2", w.ix_swap_v2(r.p_hook, r.trader, &sp), ab.clone()),
        ("increase_liquidity_v2", w.ix_increase(r.pos_hook, 1000, u64::MAX, u64::MAX, true), ab.clone()),
        ("decrease_liquidity_v2", w.ix_decrease(r.pos_hook, 1000, 0, 0, true), ab.clone()),
        ("increase_liquidity_by_token_amounts_v2", w.ix_increase_by_amounts(r.pos_hook, 100_000, 100_000, crate::model::MIN_SQRT_PRICE, crate::model::MAX_SQRT_PRICE), ab.clone()),
        ("collect_fees_v2", w.ix_collect_fees(r.pos_hook, true), ab.clone()),
        ("collect_protocol_fees_v2", w.ix_collect_protocol_fees(r.p_hook, treasury_a, treasury_b, true), ab.clone()),
        ("collect_reward_v2", w.ix_collect_reward(r.pos_hook, 0, reward_dest, true), vec![(2u8, pl.rewards[0].mint.hook.unwrap())]),
        (
            "reposition_liquidity_v2",
            w.ix_reposition(r.pos_hook, lo - ts, hi + ts, 5000, 0, 0, u64::MAX, u64::MAX),
            vec![(9u8, prog_of(true)), (10u8, prog_of(false)), (11u8, prog_of(true)), (12u8, prog_of(false))],
        ),
    ];
    for (name, base_ix, slices) in list {
        let mut wc = w.clone();
        let o = wc.exec(&base_ix);
        // the variants below must be refused whatever the baseline does, so they are issued even when it fails
        let base_ok = o.ok();
        if !base_ok {
            l.count(&format!("VACUOUS_baseline_failed/hook/{name}/{}", o.code().unwrap_or(0)));
        } else {
            l.count("hook/baseline_ok");
        }
        // reposition moves each token in ONE direction only (the net of withdrawal and deposit): only that direction's slice is used
        let used: Vec<bool> = if name == "reposition_liquidity_v2" && base_ok {
            let (oa, ob) = (w.user_token_existing(r.owner, &pl.mint_a.key), w.user_token_existing(r.owner, &pl.mint_b.key));
            let (da, db) = (wc.balance(&oa) as i128 - w.balance(&oa) as i128, wc.balance(&ob) as i128 - w.balance(&ob) as i128);
            vec![da < 0, db < 0, da > 0, db > 0]
        } else {
            vec![true; slices.len()]
        };
        let bare = World::strip_remaining(base_ix.clone(), slices.len(), slices.len());
        let mut variants: Vec<(String, Vec<(u8, Vec<Pubkey>)>)> = vec![];
        let full: Vec<(u8, Vec<Pubkey>)> = slices.iter().map(|(t, p)| (*t, vec![*p])).collect();
        for (i, (t, p)) in slices.iter().enumerate() {
            if !used[i] {
                continue;
            }
            for (what, sub) in [("the other mint's hook program", if *p == h1 { h2 } else { h1 }), ("the memo program", MEMO), ("the token program", TOKEN22)] {
                let mut v = full.clone();
                v[i].1 = vec![sub];
                variants.push((format!("slice type {t} holds {what}"), v));
            }
            let mut v = full.clone();
            v.remove(i);
            variants.push((format!("slice type {t} is missing"), v));
            // the right program, but only in ANOTHER transfer's slice
            for (j, (t2, p2)) in slices.iter().enumerate() {
                if j != i && p2 != p {
                    let mut v = full.clone();
                    v[j].1 = vec![*p2, *p];
                    v[i].1 = vec![MEMO];
                    variants.push((format!("the hook program of slice type {t} is supplied only inside slice type {t2}"), v));
                }
            }
        }
        for (what, v) in variants {
            let ix = World::with_remaining(bare.clone(), &v);
            let mut wc = w.clone();
            let o = wc.exec(&ix);
            l.count("substituted/HookSlice");
            l.nontrivial(hash_of(&(name, &what, hash_of(&r.spec))));
            if o.ok() {
                return Err(format!("{name} on a pool with transfer-hook mints: accepted although {what}"));
            }
        }
    }
    Ok(())
}

pub fn check_world(spec: &RichSpec, l: &mut Local) -> Result<(), String> {
    let Some(r) = Rich::try_build(spec) else {
        l.count("world_build_refused");
        return Ok(());
    };
    hook_slices(&r, l)?;
    let cat = catalog(&r);
    let spec_h = hash_of(spec);
    let mut names = vec![];
    for ent in cat.iter().filter(|e| e.fund_moving) {
        let mut wc = r.w.clone();
        let base = wc.exec(&ent.ix);
        if !base.ok() {
            // a baseline the generated world does not admit says nothing about the property: counted, never reported
            l.count(&format!("VACUOUS_baseline_failed/{}/{}", ent.name, base.code().unwrap_or(0)));
            continue;
        }
        names.push(ent.name);
        for (idx, kind, pool) in &ent.slots {
            for (what, key) in substitutes(&r, ent, *idx, kind, *pool) {
                let mut ix = ent.ix.clone();
                ix.accounts[*idx].pubkey = key;
                let mut wc = r.w.clone();
                let o = wc.exec(&ix);
                l.count(&format!("substituted/{kind:?}"));
                l.nontrivial(hash_of(&(ent.name, idx, what, spec_h)));
                if o.ok() {
                    return Err(format!("{}: accepted {what} in account slot {idx} ({kind:?})", ent.name));
                }
            }
            // a WHOLE foreign position: the account of a position of another pool together with its own token account (held by the same
            // owner), with and without liquidity
            if *kind == SlotKind::Position {
                if let Some((tidx, _, _)) = ent.slots.iter().find(|(_, k, _)| *k == SlotKind::PositionToken) {
                    for (what, fp) in [("with liquidity", r.pos_other_pool), ("empty", r.pos_other_pool_empty), ("empty, token extensions", r.pos_other_pool_empty_te)] {
                        let f = &r.w.positions[fp];
                        if r.w.positions.iter().any(|p| p.position == ent.ix.accounts[*idx].pubkey && p.pool == f.pool) {
                            continue;
                        }
                        let mut ix = ent.ix.clone();
                        ix.accounts[*idx].pubkey = f.position;
                        ix.accounts[*tidx].pubkey = f.token_account;
                        let mut wc = r.w.clone();
                        l.count("substituted/WholeForeignPosition");
                        if wc.exec(&ix).ok() {
                            return Err(format!("{}: accepted a position of another pool ({what}) together with its own token account in slots {idx} / {tidx}", ent.name));
                        }
                    }
                }
            }
            if matches!(kind, SlotKind::TokenProgram | SlotKind::MemoProgram | SlotKind::SystemProgram) {
                continue;
            }
            let cur = ent.ix.accounts[*idx].pubkey;
            // type confusion: an account of ANOTHER type owned by the same program (whirlpool program accounts), or a mint where a token
            // account is expected and the reverse (token program accounts)
            let pl = &r.w.pools[*pool];
            let program_owned = matches!(kind, SlotKind::Whirlpool | SlotKind::TickArray | SlotKind::Position | SlotKind::Oracle | SlotKind::Config);
            let confusions: Vec<(&str, Pubkey)> = if program_owned {
                let base = array_start(r.w.pool_state(*pool).tick_current_index, pl.tick_spacing);
                vec![
                    (SlotKind::Whirlpool, "a whirlpool account", pl.key),
                    (SlotKind::Position, "a position account", r.w.positions[r.pos_plain].position),
                    (SlotKind::TickArray, "a tick array account", tick_array_pda(&pl.key, base)),
                    (SlotKind::Oracle, "an initialised oracle account", r.w.pools[r.pa].oracle),
                    (SlotKind::Config, "a config account", r.w.configs[r.cfg].key),
                    (SlotKind::SystemProgram, "a fee tier account", pl.fee_tier),
                ]
                .into_iter()
                .filter(|(k2, _, key)| k2 != kind && *key != cur && r.w.bank.accounts.get(key).map(|a| a.owner == WP && a.data.len() >= 8).unwrap_or(false))
                .map(|(_, what, key)| (what, key))
                .collect()
            } else if matches!(kind, SlotKind::MintA | SlotKind::MintB | SlotKind::RewardMint) {
                vec![("a token account where a mint is expected", if *kind == SlotKind::MintB { pl.vault_b } else { pl.vault_a })]
            } else {
                vec![("a mint where a token account is expected", if matches!(kind, SlotKind::VaultB | SlotKind::OwnerTokenB) { pl.mint_b.key } else { pl.mint_a.key })]
            };
            for (what, key) in confusions {
                let mut ix = ent.ix.clone();
                ix.accounts[*idx].pubkey = key;
                let mut wc = r.w.clone();
                l.count(&format!("type_confusion/{kind:?}"));
                if wc.exec(&ix).ok() {
                    return Err(format!("{}: accepted {what} in account slot {idx} ({kind:?})", ent.name));
                }
            }
            // a byte-identical copy of the RIGHT account under another owner (anybody can create one: the owning program alone decides the
            // bytes), at a fresh address
            let orig = r.w.bank.get(&cur);
            if !orig.data.is_empty() {
                let lookalike = {
                    // shares the last byte with the real owner (a careless comparison of program ids)
                    let mut b = [0x42u8; 32];
                    b[31] = orig.owner.to_bytes()[31];
                    Pubkey::new_from_array(b)
                };
                for (what, owner) in [("owned by a program that accepts every instruction", crate::rt::obliging_program()), ("owned by the system program", SYS), ("owned by a program whose id ends like the real owner's", lookalike)] {
                    let mut wc = r.w.clone();
                    let forged = Pubkey::new_unique();
                    wc.bank.set(forged, crate::rt::Acct { owner, ..orig.clone() });
                    let mut ix = ent.ix.clone();
                    ix.accounts[*idx].pubkey = forged;
                    l.count(&format!("forged_copy/{kind:?}"));
                    if wc.exec(&ix).ok() {
                        return Err(format!("{}: accepted a byte-identical copy of the right account {what} in account slot {idx} ({kind:?})", ent.name));
                    }
                }
            }
        }
        // v2 swaps take extra ("supplemental") tick arrays after the fixed slots: an initialized tick array of ANOTHER pool given
        // there must be rejected too, wherever its address sorts among the pool's own arrays
        let supp: &[(u8, usize)] = match ent.name {
            "swap_v2" => &[(6, 0)],
            "swap_v2(adaptive)" => &[(6, 2)],
            "two_hop_swap_v2" => &[(7, 0), (8, 1)],
            _ => &[],
        };
        for (accounts_type, which) in supp {
            let pool_key = r.w.pools[[r.p0, r.p1, r.pa][*which]].key;
            let foreign: Vec<Pubkey> = r
                .w
                .bank
                .accounts
                .iter()
                .filter(|(_, a)| a.owner == WP && a.data.len() >= 44)
                .filter_map(|(k, a)| {
                    use anchor_lang::Discriminator;
                    let owner_pool = if a.data[..8] == *whirlpool::state::FixedTickArray::DISCRIMINATOR && a.data.len() >= 9988 {
                        Pubkey::new_from_array(a.data[9956..9988].try_into().unwrap())
                    } else if a.data[..8] == *whirlpool::state::DynamicTickArray::DISCRIMINATOR {
                        Pubkey::new_from_array(a.data[12..44].try_into().unwrap())
                    } else {
                        return None;
                    };
                    (owner_pool != pool_key).then_some(*k)
                })
                .collect();
            let pool_idx = [r.p0, r.p1, r.pa][*which];
            let own_keys: Vec<Pubkey> = ent.slots.iter().filter(|(_, k, p)| *k == SlotKind::TickArray && *p == pool_idx).map(|(i, _, _)| ent.ix.accounts[*i].pubkey).collect();
            for (f, read_only) in foreign.into_iter().flat_map(|f| [(f, false), (f, true)]) {
                let mut ix = with_supplemental(&ent.ix, *accounts_type, &[f]);
                if read_only {
                    // the flag is the caller's choice: a foreign array must be refused however it is flagged
                    ix.accounts.last_mut().unwrap().is_writable = false;
                    l.count("substituted/SupplementalTickArray(read-only)");
                }
                let mut wc = r.w.clone();
                let o = wc.exec(&ix);
                l.count("substituted/SupplementalTickArray");
                if own_keys.iter().all(|k| *k < f) {
                    l.count("supplemental_foreign_array_sorting_after_all_own_arrays");
                }
                l.nontrivial(hash_of(&(ent.name, "supplemental", f, spec_h)));
                if o.ok() {
                    return Err(format!("{}: accepted a tick array of another pool as {}supplemental tick array (accounts type {accounts_type})", ent.name, if read_only { "read-only " } else { "" }));
                }
            }
            // positive control: one of the pool's own arrays repeated as a supplemental account changes nothing
            if let Some(own) = own_keys.first() {
                let ix = with_supplemental(&ent.ix, *accounts_type, &[*own]);
                let mut wc = r.w.clone();
                let o = wc.exec(&ix);
                if o.ok() {
                    l.count("supplemental_own_array_accepted");
                } else {
                    l.count(&format!("POSITIVE_CONTROL_FAILED/supplemental_own_array/{}/{}/{}", ent.name, accounts_type, o.code().unwrap_or(0)));
                }
            }
        }
        l.count("instructions_with_passing_baseline");
    }
    l.sample(|| json!({"world": spec, "instructions": names}));
    Ok(())
}

pub fn def() -> CheckDef {
    CheckDef {
        id: "C15",
        rule: "the rich world of C04 (three pools over overlapping mints and identical tick-array start indexes, second config, positions in every pool, two rewards per \
               pool); for every fund-moving instruction (swap v1/v2, adaptive swap, two-hop v1/v2, increase/decrease v1/v2, by-token-amounts, reposition, collect fees / \
               reward / protocol fees v1/v2, set-reward-emissions) a slot table tags each account; baseline must succeed, then every slot is substituted with \
               well-formed accounts of the same type belonging to another pool / mint / position / reward index / program (for vault slots also token accounts of the right mint whose authority IS the pool but which are not its vault: stray accounts, and the reward vault of a pool that pays a reward in its own token): every substituted call must fail; for the v2 swaps every initialized tick array of another pool is additionally offered as a *supplemental* tick array \
               (any position in the key order relative to the pool's own arrays) and must be refused; on a pool whose two mints carry DIFFERENT transfer-hook programs (executed natively) every v2 fund-moving instruction is re-issued with a wrong program in a hook slice, a missing slice, and the right program supplied only in another transfer's slice: all must be refused.  \
               The table is enumerated completely on every world; distinct non-trivial = (instruction, slot, substitute kind, world).",
        assumptions: vec!["nsvm runtime as in DESIGN.md §5", "slots where substitution is legitimate (funder, receiver, any destination of the right mint) are not in the table"],
        subs: vec![sub("table", 1600, 20_000, rich_spec_strategy, |c: &RichSpec, l: &mut Local| check_world(c, l))],
    }
}
