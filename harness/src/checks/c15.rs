//! C15 — instructions act only on accounts that belong to the pool they name.
use super::c04::rich_spec_strategy;
use crate::rich::*;
use crate::runner::*;
use crate::world::*;
use serde_json::json;
use solana_program::pubkey::Pubkey;

/// well-formed accounts of the same type that belong to a different pool / mint / position / index
fn substitutes(r: &Rich, ent: &Entry, idx: usize, kind: &SlotKind, pool: usize) -> Vec<(&'static str, Pubkey)> {
    let w = &r.w;
    let cur = ent.ix.accounts[idx].pubkey;
    let pl = &w.pools[pool];
    let others: Vec<usize> = [r.p0, r.p1, r.pa].into_iter().filter(|p| *p != pool).collect();
    let mut out: Vec<(&'static str, Pubkey)> = vec![];
    let actor = if ent.name.starts_with("swap") || ent.name.starts_with("two_hop") || ent.name.starts_with("collect_protocol") { r.trader } else { r.owner };
    match kind {
        SlotKind::Whirlpool => {
            for o in &others {
                out.push(("another pool", w.pools[*o].key));
            }
        }
        SlotKind::VaultA | SlotKind::VaultB => {
            let (mint, other_vault) = if *kind == SlotKind::VaultA { (pl.mint_a.key, pl.vault_b) } else { (pl.mint_b.key, pl.vault_a) };
            out.push(("the pool's vault of the other token", other_vault));
            for o in &others {
                let op = &w.pools[*o];
                if op.mint_a.key == mint {
                    out.push(("another pool's vault of the same token", op.vault_a));
                }
                if op.mint_b.key == mint {
                    out.push(("another pool's vault of the same token", op.vault_b));
                }
            }
            out.push(("a user token account of the same mint", w.user_token_existing(r.attacker, &mint)));
        }
        SlotKind::OwnerTokenA | SlotKind::OwnerTokenB => {
            let other_mint = if *kind == SlotKind::OwnerTokenA { pl.mint_b.key } else { pl.mint_a.key };
            out.push(("a token account of the pool's other mint", w.user_token_existing(actor, &other_mint)));
            out.push(("a token account of an unrelated mint", w.user_token_existing(actor, &r.spare_mint.key)));
        }
        SlotKind::MintA | SlotKind::MintB => {
            out.push(("the pool's other mint", if *kind == SlotKind::MintA { pl.mint_b.key } else { pl.mint_a.key }));
            out.push(("an unrelated mint", r.spare_mint.key));
        }
        SlotKind::TickArray => {
            // same start index, other pool (all pools of the world share spacing and price, hence array starts)
            let ts = pl.tick_spacing;
            let base = array_start(w.pool_state(pool).tick_current_index, ts);
            for k in -2i32..=2 {
                let s = base + k * 88 * ts as i32;
                if tick_array_pda(&pl.key, s) == cur {
                    for o in &others {
                        let cand = tick_array_pda(&w.pools[*o].key, s);
                        if w.bank.accounts.contains_key(&cand) {
                            out.push(("another pool's tick array with the same start index", cand));
                        }
                    }
                }
            }
        }
        SlotKind::Position => {
            for p in [r.pos_other_pool, r.pos_adaptive, r.pos_plain, r.pos_te] {
                let k = w.positions[p].position;
                if k != cur {
                    out.push(("another position", k));
                }
            }
        }
        SlotKind::PositionToken => {
            for p in [r.pos_other_pool, r.pos_plain, r.pos_te, r.pos_locked] {
                let k = w.positions[p].token_account;
                if k != cur {
                    out.push(("the token account of another position", k));
                }
            }
        }
        SlotKind::Oracle => {
            for o in &others {
                out.push(("another pool's oracle", w.pools[*o].oracle));
            }
        }
        SlotKind::RewardVault => {
            for (i, rw) in pl.rewards.iter().enumerate() {
                if rw.vault != cur {
                    let _ = i;
                    out.push(("the vault of another reward index", rw.vault));
                }
            }
            for o in &others {
                for rw in &w.pools[*o].rewards {
                    out.push(("another pool's reward vault", rw.vault));
                }
            }
        }
        SlotKind::RewardOwnerToken => {
            out.push(("a token account of another mint", w.user_token_existing(r.owner, &r.spare_mint.key)));
            for rw in &pl.rewards {
                let t = w.user_token_existing(r.owner, &rw.mint.key);
                if t != cur {
                    out.push(("a token account of the other reward's mint", t));
                }
            }
        }
        SlotKind::RewardMint => {
            for rw in &pl.rewards {
                if rw.mint.key != cur {
                    out.push(("the other reward's mint", rw.mint.key));
                }
            }
            out.push(("an unrelated mint", r.spare_mint.key));
        }
        SlotKind::TokenProgram => {
            out.push(("the token program that does not own the mint", if cur == TOKEN { TOKEN22 } else { TOKEN }));
            out.push(("a program that is not a token program", MEMO));
        }
        SlotKind::MemoProgram => {
            out.push(("another program", SYS));
            out.push(("another program", TOKEN));
        }
        SlotKind::SystemProgram => {
            out.push(("another program", MEMO));
        }
        SlotKind::Config => {
            out.push(("another config", w.configs[r.cfg2].key));
        }
    }
    out.retain(|(_, k)| *k != cur);
    out
}

pub fn check_world(spec: &RichSpec, l: &mut Local) -> Result<(), String> {
    let Some(r) = Rich::try_build(spec) else {
        l.count("world_build_refused");
        return Ok(());
    };
    let cat = catalog(&r);
    let spec_h = hash_of(spec);
    let mut names = vec![];
    for ent in cat.iter().filter(|e| e.fund_moving) {
        let mut wc = r.w.clone();
        let base = wc.exec(&ent.ix);
        if !base.ok() {
            // a baseline the generated world does not admit says nothing about the property: counted, never reported
            l.count(&format!("VACUOUS_baseline_failed/{}/{}", ent.name, base.code().unwrap_or(0)));
            continue;
        }
        names.push(ent.name);
        for (idx, kind, pool) in &ent.slots {
            for (what, key) in substitutes(&r, ent, *idx, kind, *pool) {
                let mut ix = ent.ix.clone();
                ix.accounts[*idx].pubkey = key;
                let mut wc = r.w.clone();
                let o = wc.exec(&ix);
                l.count(&format!("substituted/{kind:?}"));
                l.nontrivial(hash_of(&(ent.name, idx, what, spec_h)));
                if o.ok() {
                    return Err(format!("{}: accepted {what} in account slot {idx} ({kind:?})", ent.name));
                }
            }
        }
        l.count("instructions_with_passing_baseline");
    }
    l.sample(|| json!({"world": spec, "instructions": names}));
    Ok(())
}

pub fn def() -> CheckDef {
    CheckDef {
        id: "C15",
        rule: "the rich world of C04 (three pools over overlapping mints and identical tick-array start indexes, second config, positions in every pool, two rewards per \
               pool); for every fund-moving instruction (swap v1/v2, adaptive swap, two-hop v1/v2, increase/decrease v1/v2, by-token-amounts, reposition, collect fees / \
               reward / protocol fees v1/v2, set-reward-emissions) a slot table tags each account; baseline must succeed, then every slot is substituted with \
               well-formed accounts of the same type belonging to another pool / mint / position / reward index / program: every substituted call must fail.  \
               The table is enumerated completely on every world; distinct non-trivial = (instruction, slot, substitute kind, world).",
        assumptions: vec!["nsvm runtime as in DESIGN.md §5", "slots where substitution is legitimate (funder, receiver, any destination of the right mint) are not in the table"],
        subs: vec![sub("table", 1600, 20_000, rich_spec_strategy, |c: &RichSpec, l: &mut Local| check_world(c, l))],
    }
}
