//! C20 (instruction level) — the SDK's public quote functions vs what the program's instructions actually do on the same
//! on-chain state: swap_quote_by_input_token / swap_quote_by_output_token (incl. Token-2022 transfer fees, adaptive-fee pools,
//! fixed and dynamic tick arrays, absent arrays) against swap / swap_v2 executed through the real entrypoint, and
//! increase_/decrease_liquidity_quote against increase_/decrease_liquidity(_v2).
use super::c03::try_swap;
use super::c06::parse_traded;
use crate::decode;
use crate::history::*;
use crate::runner::*;
use crate::world::{swap_array_starts, tick_array_pda, SwapParams};
use orca_whirlpools_core as sdk;
use proptest::prelude::*;
use serde::{Deserialize, Serialize};
use serde_json::json;

#[derive(Clone, Debug, Serialize, Deserialize, Hash)]
pub struct QSwap {
    pub trader: u8,
    pub a_to_b: bool,
    pub exact_in: bool,
    pub amount: u64,
    pub v2: bool,
    pub slippage_bps: u16,
    /// how many further arrays (behind the start array, against the trade direction) the SDK is given on top of the program's three
    pub extra_behind: u8,
    /// liquidity quote part: position selector, liquidity, increase or decrease
    pub pos: u16,
    #[serde(with = "crate::ser::u128s")]
    pub liquidity: u128,
    pub increase: bool,
}

#[derive(Clone, Debug, Serialize, Deserialize, Hash)]
pub struct QuoteCase {
    pub hist: HistoryCase,
    pub q: QSwap,
}

fn quiet<R>(f: impl FnOnce() -> R) -> Result<R, String> {
    crate::rt::try_call(f)
}

fn tick_facade(t: &decode::TickD) -> sdk::TickFacade {
    sdk::TickFacade {
        initialized: t.initialized,
        liquidity_net: t.liquidity_net,
        liquidity_gross: t.liquidity_gross,
        fee_growth_outside_a: t.fee_growth_outside_a,
        fee_growth_outside_b: t.fee_growth_outside_b,
        reward_growths_outside: t.reward_growths_outside,
    }
}

/// the facade the SDK's clients build: decoded account (either encoding), or an all-default array for an account that does not exist
fn array_facade(h: &Hist, start: i32) -> Result<sdk::TickArrayFacade, String> {
    let key = tick_array_pda(&h.w.pools[h.pool].key, start);
    let mut ticks = [sdk::TickFacade::default(); 88];
    if h.w.bank.accounts.contains_key(&key) {
        let d = decode::tick_array(&h.w.bank.get(&key).data).map_err(|e| format!("harness: tick array {start}: {e}"))?;
        for (i, t) in d.ticks.iter().enumerate() {
            ticks[i] = tick_facade(t);
        }
    }
    Ok(sdk::TickArrayFacade { start_tick_index: start, ticks })
}

fn pack(v: Vec<sdk::TickArrayFacade>) -> Option<sdk::TickArrays> {
    let mut it = v.into_iter();
    Some(match it.len() {
        1 => sdk::TickArrays::One(it.next()?),
        2 => sdk::TickArrays::Two(it.next()?, it.next()?),
        3 => sdk::TickArrays::Three(it.next()?, it.next()?, it.next()?),
        4 => sdk::TickArrays::Four(it.next()?, it.next()?, it.next()?, it.next()?),
        5 => sdk::TickArrays::Five(it.next()?, it.next()?, it.next()?, it.next()?, it.next()?),
        6 => sdk::TickArrays::Six(it.next()?, it.next()?, it.next()?, it.next()?, it.next()?, it.next()?),
        _ => return None,
    })
}

fn sdk_fee(m: &crate::world::MintInfo) -> Option<sdk::TransferFee> {
    m.transfer_fee.map(|(bps, max)| sdk::TransferFee { fee_bps: bps, max_fee: max })
}

/// ground truth for a transfer fee: the token program's own schedule arithmetic
fn truth_fee(m: &crate::world::MintInfo, amount: u64) -> u64 {
    match m.transfer_fee {
        None => 0,
        Some((bps, max)) => {
            let tf = spl_token_2022::extension::transfer_fee::TransferFee { epoch: 0.into(), maximum_fee: max.into(), transfer_fee_basis_points: bps.into() };
            tf.calculate_fee(amount).unwrap_or(amount)
        }
    }
}

pub fn check_case(c: &QuoteCase, l: &mut Local) -> Result<(), String> {
    let Some(mut h) = Hist::build(&c.hist.spec) else {
        l.count("world_build_rejected");
        return Ok(());
    };
    for op in &c.hist.ops {
        h.exec(op);
    }
    check_swap_quote(&h, c, l)?;
    check_liquidity_quote(&mut h, c, l)
}

fn check_swap_quote(h: &Hist, c: &QuoteCase, l: &mut Local) -> Result<(), String> {
    let q = &c.q;
    let pl = h.w.pools[h.pool].clone();
    let st = h.w.pool_state(h.pool);
    let user = h.traders[q.trader as usize % h.traders.len()];
    let v2 = q.v2 || h.needs_v2();
    let ts = st.tick_spacing;
    // ---- SDK inputs, read from the accounts
    let mut starts = swap_array_starts(st.tick_current_index, ts, q.a_to_b);
    if starts.is_empty() {
        l.count("swap/no_array_in_range");
        return Ok(());
    }
    let n = 88 * ts as i32;
    for k in 1..=(q.extra_behind.min(3) as i32) {
        // against the trade direction, contiguous with the first array
        let s = if q.a_to_b { starts[0] + k * n } else { starts[0] - k * n };
        let min_start = crate::world::floor_div(crate::model::MIN_TICK, n) * n;
        if s >= min_start && s <= crate::model::MAX_TICK && starts.len() < 6 {
            starts.push(s);
        }
    }
    let mut facades = vec![];
    for s in &starts {
        facades.push(array_facade(h, *s)?);
    }
    let Some(tick_arrays) = pack(facades) else {
        return Err("harness: could not pack tick arrays".into());
    };
    let mut reward_infos = [sdk::WhirlpoolRewardInfoFacade::default(); 3];
    for i in 0..3 {
        reward_infos[i].emissions_per_second_x64 = st.rewards[i].emissions_per_second_x64;
        reward_infos[i].growth_global_x64 = st.rewards[i].growth_global_x64;
    }
    let wpf = sdk::WhirlpoolFacade {
        fee_tier_index_seed: st.fee_tier_index.to_le_bytes(),
        tick_spacing: ts,
        fee_rate: st.fee_rate,
        protocol_fee_rate: st.protocol_fee_rate,
        liquidity: st.liquidity,
        sqrt_price: st.sqrt_price,
        tick_current_index: st.tick_current_index,
        fee_growth_global_a: st.fee_growth_global_a,
        fee_growth_global_b: st.fee_growth_global_b,
        reward_last_updated_timestamp: st.reward_last_updated_timestamp,
        reward_infos,
    };
    let oracle = if pl.adaptive {
        let o = h.w.oracle_state(h.pool).ok_or("harness: adaptive pool without oracle account")?;
        if (h.w.bank.clock.unix_timestamp as u64) < o.trade_enable_timestamp {
            // trading not enabled yet: a state-level refusal the core quote functions do not model (checked by the high-level SDK)
            l.count("swap/skipped_trade_not_enabled");
            return Ok(());
        }
        Some(sdk::OracleFacade {
            trade_enable_timestamp: o.trade_enable_timestamp,
            adaptive_fee_constants: sdk::AdaptiveFeeConstantsFacade {
                filter_period: o.constants.filter_period,
                decay_period: o.constants.decay_period,
                reduction_factor: o.constants.reduction_factor,
                adaptive_fee_control_factor: o.constants.adaptive_fee_control_factor,
                max_volatility_accumulator: o.constants.max_volatility_accumulator,
                tick_group_size: o.constants.tick_group_size,
                major_swap_threshold_ticks: o.constants.major_swap_threshold_ticks,
            },
            adaptive_fee_variables: sdk::AdaptiveFeeVariablesFacade {
                last_reference_update_timestamp: o.variables.last_reference_update_timestamp,
                last_major_swap_timestamp: o.variables.last_major_swap_timestamp,
                volatility_reference: o.variables.volatility_reference,
                tick_group_index_reference: o.variables.tick_group_index_reference,
                volatility_accumulator: o.variables.volatility_accumulator,
            },
        })
    } else {
        None
    };
    let now = h.w.bank.clock.unix_timestamp as u64;
    let (tfa, tfb) = (sdk_fee(&pl.mint_a), sdk_fee(&pl.mint_b));
    let (m_in, m_out) = if q.a_to_b { (&pl.mint_a, &pl.mint_b) } else { (&pl.mint_b, &pl.mint_a) };
    let slippage = q.slippage_bps % 10_001;
    // by input: the specified token is the input token (A for a->b); by output: the specified token is the output token (B for a->b)
    let (amount, a_to_b, exact_in) = (q.amount, q.a_to_b, q.exact_in);
    let ta = tick_arrays.clone();
    let sdk_in = if exact_in { Some(quiet(move || sdk::swap_quote_by_input_token(amount, a_to_b, slippage, wpf, oracle, ta, now, tfa, tfb))) } else { None };
    let sdk_out = if !exact_in { Some(quiet(move || sdk::swap_quote_by_output_token(amount, !a_to_b, slippage, wpf, oracle, tick_arrays, now, tfa, tfb))) } else { None };

    // ---- the program, through the entrypoint
    let neutral = SwapParams { amount: q.amount, threshold: SwapParams::neutral_threshold(q.exact_in), sqrt_price_limit: 0, exact_in: q.exact_in, a_to_b: q.a_to_b };
    let (vin, vout) = if q.a_to_b { (pl.vault_a, pl.vault_b) } else { (pl.vault_b, pl.vault_a) };
    let (vin0, vout0) = (h.w.balance(&vin), h.w.balance(&vout));
    let (w1, res, out) = try_swap(h, user, &neutral, v2);
    let what = format!("swap {q:?} on pool state (price {}, tick {}, L {}, adaptive {}, fees {:?}/{:?})", st.sqrt_price, st.tick_current_index, st.liquidity, pl.adaptive, pl.mint_a.transfer_fee, pl.mint_b.transfer_fee);
    let class = format!("{}/{}/{}{}", if exact_in { "in" } else { "out" }, if pl.adaptive { "adaptive" } else { "static" }, if m_in.transfer_fee.is_some() || m_out.transfer_fee.is_some() { "fee_mint" } else { "plain" }, if q.extra_behind > 0 { "/extra_arrays" } else { "" });
    match res {
        Ok(real) => {
            let pool_in = w1.balance(&vin) - vin0;
            let pool_out = vout0 - w1.balance(&vout);
            let ev = out.events.iter().filter_map(|e| parse_traded(e)).next().ok_or("harness: no Traded event")?;
            let total_fee = ev.lp_fee as u128 + ev.protocol_fee as u128;
            if let Some(r) = sdk_in {
                let quote = match r {
                    Ok(Ok(x)) => x,
                    Ok(Err(e)) => return Err(format!("{what}: the program executes it (paid {}, received {}) but swap_quote_by_input_token fails with {e:?}", real.paid, real.received)),
                    Err(p) => return Err(format!("{what}: the program executes it but swap_quote_by_input_token panics: {p}")),
                };
                if quote.trade_fee as u128 != total_fee {
                    return Err(format!("{what}: total fee {total_fee} on-chain, quote says {}", quote.trade_fee));
                }
                if quote.token_est_out != real.received {
                    return Err(format!("{what}: trader received {} (pool paid out {pool_out}), quote estimated {}", real.received, quote.token_est_out));
                }
                // what reaches the pool from the quoted input (token program's fee arithmetic) is what the pool took in
                let reaches = quote.token_in - truth_fee(m_in, quote.token_in);
                if reaches != pool_in {
                    return Err(format!("{what}: the pool took in {pool_in} (trader paid {}), the quoted input {} delivers {reaches}", real.paid, quote.token_in));
                }
                if quote.token_in > q.amount {
                    return Err(format!("{what}: quoted input {} above the specified amount", quote.token_in));
                }
                if quote.token_in != real.paid {
                    // several fee-inclusive amounts can deliver the same net amount; the quote names the smallest
                    if m_in.transfer_fee.is_none() {
                        return Err(format!("{what}: trader paid {}, quote says {}", real.paid, quote.token_in));
                    }
                    l.count("swap/quoted_input_below_paid_same_net");
                }
                if quote.token_min_out > quote.token_est_out {
                    return Err(format!("{what}: slippage-adjusted minimum {} above the estimate {}", quote.token_min_out, quote.token_est_out));
                }
                // the quote used as the instruction's threshold must let the same swap through
                let sp = SwapParams { threshold: quote.token_min_out, ..neutral.clone() };
                if let (_, Err(code), _) = try_swap(h, user, &sp, v2) {
                    return Err(format!("{what}: with the quote's minimum output {} as threshold the swap fails ({code})", quote.token_min_out));
                }
            }
            if let Some(r) = sdk_out {
                let quote = match r {
                    Ok(Ok(x)) => x,
                    Ok(Err(e)) => return Err(format!("{what}: the program executes it (paid {}, received {}) but swap_quote_by_output_token fails with {e:?}", real.paid, real.received)),
                    Err(p) => return Err(format!("{what}: the program executes it but swap_quote_by_output_token panics: {p}")),
                };
                if quote.trade_fee as u128 != total_fee {
                    return Err(format!("{what}: total fee {total_fee} on-chain, quote says {}", quote.trade_fee));
                }
                if quote.token_out != real.received {
                    return Err(format!("{what}: trader received {} (pool paid out {pool_out}), quote says {}", real.received, quote.token_out));
                }
                let reaches = quote.token_est_in - truth_fee(m_in, quote.token_est_in);
                if reaches != pool_in {
                    return Err(format!("{what}: the pool took in {pool_in} (trader paid {}), the quoted input {} delivers {reaches}", real.paid, quote.token_est_in));
                }
                if quote.token_est_in != real.paid {
                    return Err(format!("{what}: trader paid {}, quote estimated {}", real.paid, quote.token_est_in));
                }
                if quote.token_max_in < quote.token_est_in {
                    return Err(format!("{what}: slippage-adjusted maximum {} below the estimate {}", quote.token_max_in, quote.token_est_in));
                }
                let sp = SwapParams { threshold: quote.token_max_in, ..neutral.clone() };
                if let (_, Err(code), _) = try_swap(h, user, &sp, v2) {
                    return Err(format!("{what}: with the quote's maximum input {} as threshold the swap fails ({code})", quote.token_max_in));
                }
            }
            l.count(&format!("swap/agree/{class}"));
            let crossed = out.steps.iter().filter(|s| s.crossed_initialized_tick.is_some()).count();
            if crossed > 0 {
                l.count("swap/agree_with_crossing");
            }
            if h.tick_arrays().iter().any(|a| a.dynamic) {
                l.count("swap/agree_with_dynamic_arrays");
            }
            l.nontrivial(hash_of(c));
            l.sample(|| json!({"spec": c.hist.spec, "prefix_ops": c.hist.ops.len(), "q": c.q, "paid": real.paid, "received": real.received, "fee": total_fee.to_string(), "crossings": crossed}));
        }
        Err(code) => {
            let quoted = match (&sdk_in, &sdk_out) {
                (Some(Ok(Ok(x))), _) => Some(format!("{x:?}")),
                (_, Some(Ok(Ok(x)))) => Some(format!("{x:?}")),
                _ => None,
            };
            match quoted {
                None => l.count(&format!("swap/both_refuse/{code}")),
                Some(x) => {
                    // the trader's own balance is not part of the state a quote is computed from
                    let funds = code == 1;
                    if code == 6057 || code == 6038 || funds {
                        l.count(&format!("swap/sdk_quotes_where_program_refuses/{code}"));
                    } else {
                        return Err(format!("{what}: the program refuses with {code} but the SDK quotes {x}"));
                    }
                }
            }
        }
    }
    Ok(())
}

fn check_liquidity_quote(h: &mut Hist, c: &QuoteCase, l: &mut Local) -> Result<(), String> {
    let q = &c.q;
    let open = h.open_positions();
    if open.is_empty() {
        return Ok(());
    }
    let pos = open[pick(q.pos, open.len())];
    let Some(pd) = h.w.position_state(pos) else { return Ok(()) };
    let pl = h.w.pools[h.pool].clone();
    let st = h.w.pool_state(h.pool);
    let owner = h.w.positions[pos].owner;
    let v2 = h.needs_v2() || q.v2;
    let (tfa, tfb) = (sdk_fee(&pl.mint_a), sdk_fee(&pl.mint_b));
    let slippage = q.slippage_bps % 10_001;
    let (ua, ub) = (h.w.user_token_existing(owner, &pl.mint_a.key), h.w.user_token_existing(owner, &pl.mint_b.key));
    let (a0, b0) = (h.w.balance(&ua), h.w.balance(&ub));
    let what = |s: &str| format!("{s} of L={} on [{}, {}] at price {} (tick {}), fees {:?}/{:?}", q.liquidity, pd.tick_lower_index, pd.tick_upper_index, st.sqrt_price, st.tick_current_index, pl.mint_a.transfer_fee, pl.mint_b.transfer_fee);
    // variant: 0 = quote by liquidity; 1 / 2 = quote from a token A / B amount (the liquidity is then the quote's own)
    let variant = (q.slippage_bps / 7) % 3;
    if q.increase {
        let (p, lo, hi, amt) = (st.sqrt_price, pd.tick_lower_index, pd.tick_upper_index, q.amount);
        let liq_in = q.liquidity;
        let sdkq = quiet(move || match variant {
            1 => sdk::increase_liquidity_quote_a(amt, slippage, p, lo, hi, tfa, tfb),
            2 => sdk::increase_liquidity_quote_b(amt, slippage, p, lo, hi, tfa, tfb),
            _ => sdk::increase_liquidity_quote(liq_in, slippage, p, lo, hi, tfa, tfb),
        });
        let liq = match (variant, &sdkq) {
            (0, _) => q.liquidity,
            (_, Ok(Ok(x))) => x.liquidity_delta,
            _ => {
                l.count("liquidity/increase_quote_from_amount_refused");
                return Ok(());
            }
        };
        if liq == 0 {
            l.count("liquidity/increase_quote_zero_liquidity");
            return Ok(());
        }
        // program with neutral maxima
        let mut w = h.w.clone();
        let o = w.exec(&w.ix_increase(pos, liq, u64::MAX, u64::MAX, v2));
        if o.ok() {
            let (paid_a, paid_b) = (a0 - w.balance(&ua), b0 - w.balance(&ub));
            let quote = match sdkq {
                Ok(Ok(x)) => x,
                other => return Err(format!("{}: the program accepts it (paid {paid_a}, {paid_b}) but the SDK's increase quote (variant {variant}) gives {other:?}", what("increase"))),
            };
            if quote.liquidity_delta != liq {
                return Err(format!("{}: quote reports liquidity {}", what("increase"), quote.liquidity_delta));
            }
            if (quote.token_est_a, quote.token_est_b) != (paid_a, paid_b) {
                return Err(format!("{} (L={liq}, quote variant {variant}): owner paid ({paid_a}, {paid_b}), quote estimated ({}, {})", what("increase"), quote.token_est_a, quote.token_est_b));
            }
            if quote.token_max_a < quote.token_est_a || quote.token_max_b < quote.token_est_b {
                return Err(format!("{}: slippage-adjusted maxima ({}, {}) below the estimates ({}, {})", what("increase"), quote.token_max_a, quote.token_max_b, quote.token_est_a, quote.token_est_b));
            }
            if variant == 1 && quote.token_est_a > q.amount || variant == 2 && quote.token_est_b > q.amount {
                l.count("liquidity/quote_from_amount_estimates_more_than_the_given_amount");
            }
            let mut w2 = h.w.clone();
            let o2 = w2.exec(&w2.ix_increase(pos, liq, quote.token_max_a, quote.token_max_b, v2));
            if !o2.ok() {
                return Err(format!("{}: with the quote's maxima ({}, {}) the increase fails ({:?})", what("increase"), quote.token_max_a, quote.token_max_b, o2.code()));
            }
            l.count(&format!("liquidity/increase_agree/variant{variant}"));
        } else {
            l.count(&format!("liquidity/increase_refused/{}", o.code().unwrap_or(0)));
        }
    } else {
        let (p, lo, hi, amt) = (st.sqrt_price, pd.tick_lower_index, pd.tick_upper_index, q.amount);
        let liq_in = q.liquidity.min(pd.liquidity);
        let sdkq = quiet(move || match variant {
            1 => sdk::decrease_liquidity_quote_a(amt, slippage, p, lo, hi, tfa, tfb),
            2 => sdk::decrease_liquidity_quote_b(amt, slippage, p, lo, hi, tfa, tfb),
            _ => sdk::decrease_liquidity_quote(liq_in, slippage, p, lo, hi, tfa, tfb),
        });
        let liq = match (variant, &sdkq) {
            (0, _) => liq_in,
            (_, Ok(Ok(x))) => x.liquidity_delta,
            _ => {
                l.count("liquidity/decrease_quote_from_amount_refused");
                return Ok(());
            }
        };
        if liq == 0 || liq > pd.liquidity {
            l.count("liquidity/decrease_quote_not_applicable");
            return Ok(());
        }
        let mut w = h.w.clone();
        let o = w.exec(&w.ix_decrease(pos, liq, 0, 0, v2));
        if o.ok() {
            let (got_a, got_b) = (w.balance(&ua) - a0, w.balance(&ub) - b0);
            let quote = match sdkq {
                Ok(Ok(x)) => x,
                other => return Err(format!("{}: the program accepts it (returned {got_a}, {got_b}) but decrease_liquidity_quote gives {other:?}", what("decrease"))),
            };
            if (quote.token_est_a, quote.token_est_b) != (got_a, got_b) {
                return Err(format!("{} (L={liq}, quote variant {variant}): owner received ({got_a}, {got_b}), quote estimated ({}, {})", what("decrease"), quote.token_est_a, quote.token_est_b));
            }
            if quote.token_min_a > quote.token_est_a || quote.token_min_b > quote.token_est_b {
                return Err(format!("{}: slippage-adjusted minima above the estimates", what("decrease")));
            }
            let mut w2 = h.w.clone();
            let o2 = w2.exec(&w2.ix_decrease(pos, liq, quote.token_min_a, quote.token_min_b, v2));
            if !o2.ok() {
                return Err(format!("{}: with the quote's minima ({}, {}) the decrease fails ({:?})", what("decrease"), quote.token_min_a, quote.token_min_b, o2.code()));
            }
            l.count(&format!("liquidity/decrease_agree/variant{variant}"));
        } else {
            l.count(&format!("liquidity/decrease_refused/{}", o.code().unwrap_or(0)));
        }
    }
    Ok(())
}

pub fn case_strategy() -> BoxedStrategy<QuoteCase> {
    let plain = (history_strategy(false, false, 16), prop_oneof![3 => Just(0u8), 1 => Just(1u8), 1 => Just(2u8)]).prop_map(|(mut h, mk)| {
        h.spec.mint_kind = mk;
        h
    });
    let hist = prop_oneof![5 => plain, 3 => with_fee_mints(history_strategy(false, false, 16))];
    let q = (
        (0u8..2, any::<bool>(), any::<bool>(), swap_amount_strategy(), any::<bool>()),
        prop_oneof![2 => Just(0u16), 2 => 0u16..=100, 1 => 0u16..=10_000, 1 => Just(10_000u16)],
        prop_oneof![2 => Just(0u8), 1 => 1u8..=3],
        any::<u16>(),
        liquidity_strategy(),
        any::<bool>(),
    )
        .prop_map(|((trader, a_to_b, exact_in, amount, v2), slippage_bps, extra_behind, pos, liquidity, increase)| QSwap { trader, a_to_b, exact_in, amount, v2, slippage_bps, extra_behind, pos, liquidity, increase });
    (hist, q).prop_map(|(hist, q)| QuoteCase { hist, q }).boxed()
}
