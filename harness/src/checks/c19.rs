//! C19 — pools exist only with in-bound parameters and over supported token mints.
use crate::decode;
use crate::gen;
use crate::model::*;
use crate::rt::Acct;
use crate::runner::*;
use crate::world::*;
use crate::world2::AfConstants;
use proptest::prelude::*;
use serde::{Deserialize, Serialize};
use serde_json::json;
use solana_program::pubkey::Pubkey;

// ---------------------------------------------------------------------------------------------------
// (a) parameter bounds over init/set sequences

#[derive(Clone, Debug, Serialize, Deserialize, Hash)]
pub enum ParamOp {
    InitFeeTier { tick_spacing: u16, rate: u16 },
    InitAdaptiveTier { index: u16, tick_spacing: u16, rate: u16, k: AfConstants, permissioned: bool },
    InitPool { tier: u8, #[serde(with = "crate::ser::u128s")] sqrt_price: u128, swap_mints: bool },
    InitPoolAdaptive { tier: u8, #[serde(with = "crate::ser::u128s")] sqrt_price: u128, trade_enable_offset: Option<i32> },
    SetFeeRate { pool: u8, rate: u16 },
    SetProtocolFeeRate { pool: u8, rate: u16 },
    SetDefaultFeeRate { tier: u8, rate: u16 },
    SetDefaultProtocolFeeRate { rate: u16 },
    SetDefaultBaseFeeRate { tier: u8, rate: u16 },
    SetPresetConstants { tier: u8, k: AfConstants },
    SetAdaptiveConstants { pool: u8, k: AfConstants, mask: u8 },
    SetFeeRateByDelegate { pool: u8, rate: u16 },
    /// swap on a pool without liquidity towards a protocol price bound
    PushPrice { pool: u8, a_to_b: bool, to_bound: bool, #[serde(with = "crate::ser::u128s")] offset: u128 },
}

#[derive(Clone, Debug, Serialize, Deserialize, Hash)]
pub struct ParamCase {
    pub default_protocol_fee_rate: u16,
    pub ops: Vec<ParamOp>,
}

fn constants_ok(tick_spacing: u16, k: &decode::AfConstantsD) -> Result<(), String> {
    if k.filter_period == 0 || k.decay_period <= k.filter_period {
        return Err(format!("periods not ordered: filter {} decay {}", k.filter_period, k.decay_period));
    }
    if k.adaptive_fee_control_factor >= 100_000 {
        return Err(format!("control factor {} not below its denominator", k.adaptive_fee_control_factor));
    }
    if k.reduction_factor >= 10_000 {
        return Err(format!("reduction factor {} not below its denominator", k.reduction_factor));
    }
    if k.tick_group_size == 0 || k.tick_group_size > tick_spacing || tick_spacing % k.tick_group_size != 0 {
        return Err(format!("tick group size {} does not divide tick spacing {tick_spacing}", k.tick_group_size));
    }
    if (k.max_volatility_accumulator as u64) * (k.tick_group_size as u64) > u32::MAX as u64 {
        return Err(format!("max accumulator {} x group size {} exceeds 32 bits", k.max_volatility_accumulator, k.tick_group_size));
    }
    Ok(())
}
fn k_as_d(k: &AfConstants) -> decode::AfConstantsD {
    decode::AfConstantsD {
        filter_period: k.filter_period,
        decay_period: k.decay_period,
        reduction_factor: k.reduction_factor,
        adaptive_fee_control_factor: k.adaptive_fee_control_factor,
        max_volatility_accumulator: k.max_volatility_accumulator,
        tick_group_size: k.tick_group_size,
        major_swap_threshold_ticks: k.major_swap_threshold_ticks,
    }
}

/// every Whirlpool / FeeTier / AdaptiveFeeTier / Oracle / Config account in the bank satisfies the published bounds
pub fn scan_bounds(w: &World) -> Result<u32, String> {
    let mut n = 0;
    for (k, a) in &w.bank.accounts {
        if a.owner != WP {
            continue;
        }
        let d = &a.data;
        let u16_at = |o: usize| u16::from_le_bytes(d[o..o + 2].try_into().unwrap());
        match d.len() {
            decode::WHIRLPOOL_LEN => {
                let p = decode::whirlpool(d).unwrap();
                n += 1;
                if p.fee_rate > 60_000 {
                    return Err(format!("pool {k}: fee rate {} above 6%", p.fee_rate));
                }
                if p.protocol_fee_rate > 2_500 {
                    return Err(format!("pool {k}: protocol fee rate {} above 25%", p.protocol_fee_rate));
                }
                if !(MIN_SQRT_PRICE..=MAX_SQRT_PRICE).contains(&p.sqrt_price) {
                    return Err(format!("pool {k}: sqrt price {} outside the protocol bounds", p.sqrt_price));
                }
                if p.tick_spacing == 0 {
                    return Err(format!("pool {k}: tick spacing 0"));
                }
                if p.token_mint_a >= p.token_mint_b {
                    return Err(format!("pool {k}: mints not in canonical order"));
                }
            }
            44 => {
                n += 1;
                if u16_at(42) > 60_000 {
                    return Err(format!("fee tier {k}: default fee rate {}", u16_at(42)));
                }
                if u16_at(40) == 0 {
                    return Err(format!("fee tier {k}: tick spacing 0"));
                }
            }
            256 => {
                n += 1;
                let ts = u16_at(42);
                if ts == 0 {
                    return Err(format!("adaptive fee tier {k}: tick spacing 0"));
                }
                if u16_at(108) > 60_000 {
                    return Err(format!("adaptive fee tier {k}: default base fee rate {}", u16_at(108)));
                }
                constants_ok(ts, &decode::af_constants(d, 110)).map_err(|e| format!("adaptive fee tier {k}: {e}"))?;
            }
            254 => {
                n += 1;
                let o = decode::oracle(d).unwrap();
                let pool = decode::whirlpool(&w.bank.get(&o.whirlpool).data).ok_or_else(|| format!("oracle {k} names no pool"))?;
                constants_ok(pool.tick_spacing, &o.constants).map_err(|e| format!("oracle {k}: {e}"))?;
            }
            108 => {
                n += 1;
                if u16_at(104) > 2_500 {
                    return Err(format!("config {k}: default protocol fee rate {}", u16_at(104)));
                }
            }
            _ => {}
        }
    }
    Ok(n)
}

pub fn check_params(c: &ParamCase, l: &mut Local) -> Result<(), String> {
    let mut w = World::new(1_700_000_000);
    // initialize_config with an arbitrary default protocol fee rate
    let cfg = {
        let config = w.new_signer();
        let (fa, ca, ra) = (w.new_signer(), w.new_signer(), w.new_signer());
        let ix = ixb(
            whirlpool::accounts::InitializeConfig { config, funder: w.admin, system_program: SYS },
            whirlpool::instruction::InitializeConfig { fee_authority: fa, collect_protocol_fees_authority: ca, reward_emissions_super_authority: ra, default_protocol_fee_rate: c.default_protocol_fee_rate },
        );
        let ok = w.exec(&ix).ok();
        if ok != (c.default_protocol_fee_rate <= 2500) {
            return Err(format!("initialize_config with default protocol fee rate {} accepted={ok}", c.default_protocol_fee_rate));
        }
        if !ok {
            l.count("config_rejected_out_of_bounds");
            return Ok(());
        }
        w.configs.push(ConfigInfo {
            key: config,
            fee_authority: fa,
            collect_protocol_fees_authority: ca,
            reward_emissions_super_authority: ra,
            config_extension: None,
            config_extension_authority: Pubkey::default(),
            token_badge_authority: Pubkey::default(),
        });
        0usize
    };
    let trader = w.add_user();
    let delegate = w.new_signer();
    let pool_auth = w.new_signer();
    let mut tiers: Vec<u16> = vec![]; // static tiers (tick spacing)
    let mut atiers: Vec<(u16, u16, bool)> = vec![]; // (index, tick spacing, permissioned)
    let mut boundary = false;
    let mut bound_hits = 0u32;
    for (n, op) in c.ops.iter().enumerate() {
        let ctx = |m: String| format!("op #{n} {op:?}: {m}");
        let mut expect: Option<bool> = None; // exact accept/reject prediction where the bound is the only reason
        let ix = match op {
            ParamOp::InitFeeTier { tick_spacing, rate } => {
                if tiers.contains(tick_spacing) || atiers.iter().any(|t| t.0 == *tick_spacing) {
                    continue;
                }
                expect = Some(*tick_spacing > 0 && *rate <= 60_000);
                w.ix_init_fee_tier(cfg, *tick_spacing, *rate)
            }
            ParamOp::InitAdaptiveTier { index, tick_spacing, rate, k, permissioned } => {
                if tiers.contains(index) || atiers.iter().any(|t| t.0 == *index) {
                    continue;
                }
                if *rate > 60_000 || *tick_spacing == 0 || constants_ok(*tick_spacing, &k_as_d(k)).is_err() {
                    expect = Some(false);
                }
                w.ix_init_adaptive_fee_tier(cfg, *index, *tick_spacing, if *permissioned { pool_auth } else { Pubkey::default() }, delegate, *rate, k)
            }
            ParamOp::InitPool { tier, sqrt_price, swap_mints } => {
                if tiers.is_empty() {
                    continue;
                }
                let ts = tiers[*tier as usize % tiers.len()];
                let (m1, m2) = (w.create_spl_mint(), w.create_spl_mint());
                let (ma, mb) = if (m1.key < m2.key) != *swap_mints { (m1, m2) } else { (m2, m1) };
                let in_bounds = (MIN_SQRT_PRICE..=MAX_SQRT_PRICE).contains(sqrt_price);
                expect = Some(in_bounds && ma.key < mb.key);
                let (va, vb) = (w.new_signer(), w.new_signer());
                w.bank.accounts.remove(&va);
                w.bank.accounts.remove(&vb);
                let ix = w.ix_init_pool_v1(cfg, &ma.key, &mb.key, va, vb, ts, *sqrt_price);
                let o = w.exec(&ix);
                if Some(o.ok()) != expect {
                    return Err(ctx(format!("initialize_pool accepted={} (price in bounds: {in_bounds}, mints ordered: {})", o.ok(), ma.key < mb.key)));
                }
                if o.ok() {
                    let ckey = w.configs[cfg].key;
                    let (pool, _) = pool_pda(&ckey, &ma.key, &mb.key, ts);
                    w.pools.push(PoolInfo { key: pool, config: cfg, mint_a: ma.clone(), mint_b: mb.clone(), vault_a: va, vault_b: vb, tick_spacing: ts, fee_tier_index: ts, fee_tier: fee_tier_pda(&ckey, ts), oracle: oracle_pda(&pool), adaptive: false, rewards: vec![] });
                    w.user_token(trader, &ma, 1 << 40);
                    w.user_token(trader, &mb, 1 << 40);
                } else {
                    boundary = true;
                }
                if *sqrt_price == MIN_SQRT_PRICE || *sqrt_price == MAX_SQRT_PRICE {
                    boundary = true;
                }
                scan_bounds(&w).map_err(&ctx)?;
                continue;
            }
            ParamOp::InitPoolAdaptive { tier, sqrt_price, trade_enable_offset } => {
                if atiers.is_empty() {
                    continue;
                }
                let (index, ts, permissioned) = atiers[*tier as usize % atiers.len()];
                let (m1, m2) = (w.create_spl_mint(), w.create_spl_mint());
                let now = w.bank.clock.unix_timestamp;
                let te = trade_enable_offset.map(|o| (now + o as i64).max(0) as u64);
                let auth = if permissioned { pool_auth } else { w.users[trader].key };
                match w.init_pool_adaptive(cfg, &m1, &m2, index, ts, auth, *sqrt_price, te) {
                    Ok(p) => {
                        if !(MIN_SQRT_PRICE..=MAX_SQRT_PRICE).contains(sqrt_price) {
                            return Err(ctx("adaptive pool created with an out-of-bounds price".into()));
                        }
                        let (ma, mb) = (w.pools[p].mint_a.clone(), w.pools[p].mint_b.clone());
                        w.user_token(trader, &ma, 1 << 40);
                        w.user_token(trader, &mb, 1 << 40);
                        l.count("adaptive_pools_created");
                    }
                    Err(_) => {}
                }
                scan_bounds(&w).map_err(&ctx)?;
                continue;
            }
            ParamOp::SetFeeRate { pool, rate } => {
                if w.pools.is_empty() {
                    continue;
                }
                let p = *pool as usize % w.pools.len();
                expect = Some(*rate <= 60_000);
                w.ix_set_fee_rate(p, *rate)
            }
            ParamOp::SetProtocolFeeRate { pool, rate } => {
                if w.pools.is_empty() {
                    continue;
                }
                let p = *pool as usize % w.pools.len();
                expect = Some(*rate <= 2_500);
                w.ix_set_protocol_fee_rate(p, *rate)
            }
            ParamOp::SetDefaultFeeRate { tier, rate } => {
                if tiers.is_empty() {
                    continue;
                }
                expect = Some(*rate <= 60_000);
                w.ix_set_default_fee_rate(cfg, tiers[*tier as usize % tiers.len()], *rate)
            }
            ParamOp::SetDefaultProtocolFeeRate { rate } => {
                expect = Some(*rate <= 2_500);
                w.ix_set_default_protocol_fee_rate(cfg, *rate)
            }
            ParamOp::SetDefaultBaseFeeRate { tier, rate } => {
                if atiers.is_empty() {
                    continue;
                }
                expect = Some(*rate <= 60_000);
                w.ix_set_default_base_fee_rate(cfg, atiers[*tier as usize % atiers.len()].0, *rate)
            }
            ParamOp::SetPresetConstants { tier, k } => {
                if atiers.is_empty() {
                    continue;
                }
                let (index, ts, _) = atiers[*tier as usize % atiers.len()];
                if constants_ok(ts, &k_as_d(k)).is_err() {
                    expect = Some(false);
                }
                w.ix_set_preset_adaptive_fee_constants(cfg, index, k)
            }
            ParamOp::SetAdaptiveConstants { pool, k, mask } => {
                let ap: Vec<usize> = (0..w.pools.len()).filter(|i| w.pools[*i].adaptive).collect();
                if ap.is_empty() {
                    continue;
                }
                let p = ap[*pool as usize % ap.len()];
                let cur = w.oracle_state(p).ok_or_else(|| ctx("adaptive pool without oracle".into()))?.constants;
                let m = |bit: u8| mask & (1 << bit) != 0;
                let merged = decode::AfConstantsD {
                    filter_period: if m(0) { k.filter_period } else { cur.filter_period },
                    decay_period: if m(1) { k.decay_period } else { cur.decay_period },
                    reduction_factor: if m(2) { k.reduction_factor } else { cur.reduction_factor },
                    adaptive_fee_control_factor: if m(3) { k.adaptive_fee_control_factor } else { cur.adaptive_fee_control_factor },
                    max_volatility_accumulator: if m(4) { k.max_volatility_accumulator } else { cur.max_volatility_accumulator },
                    tick_group_size: if m(5) { k.tick_group_size } else { cur.tick_group_size },
                    major_swap_threshold_ticks: if m(6) { k.major_swap_threshold_ticks } else { cur.major_swap_threshold_ticks },
                };
                if constants_ok(w.pools[p].tick_spacing, &merged).is_err() {
                    expect = Some(false);
                }
                let mut ix = w.ix_set_adaptive_fee_constants(
                    p,
                    m(0).then_some(k.filter_period),
                    m(1).then_some(k.decay_period),
                    m(2).then_some(k.reduction_factor),
                    m(3).then_some(k.adaptive_fee_control_factor),
                    m(4).then_some(k.max_volatility_accumulator),
                    m(5).then_some(k.tick_group_size),
                    m(6).then_some(k.major_swap_threshold_ticks),
                );
                // mask bit 7: the Oracle account named is that of ANOTHER adaptive pool (possibly of another tick spacing): constants are
                // per pool, so this must be refused (accounts: whirlpool, whirlpools_config, oracle, fee_authority)
                if m(7) && ap.len() >= 2 {
                    let other = ap[(*pool as usize + 1) % ap.len()];
                    ix.accounts[2].pubkey = w.pools[other].oracle;
                    expect = Some(false);
                    l.count("set_adaptive_fee_constants_naming_another_pools_oracle");
                }
                ix
            }
            ParamOp::SetFeeRateByDelegate { pool, rate } => {
                let ap: Vec<usize> = (0..w.pools.len()).filter(|i| w.pools[*i].adaptive).collect();
                if ap.is_empty() {
                    continue;
                }
                let p = ap[*pool as usize % ap.len()];
                expect = Some(*rate <= 60_000);
                w.ix_set_fee_rate_by_delegate(p, delegate, *rate)
            }
            ParamOp::PushPrice { pool, a_to_b, to_bound, offset } => {
                if w.pools.is_empty() {
                    continue;
                }
                let p = *pool as usize % w.pools.len();
                let st = w.pool_state(p);
                // the limit must lie inside the three arrays the swap may traverse
                let starts = swap_array_starts(st.tick_current_index, st.tick_spacing, *a_to_b);
                let n = 88 * st.tick_spacing as i32;
                let reach = if *a_to_b { starts.last().copied().unwrap_or(0).max(MIN_TICK) } else { (starts.last().copied().unwrap_or(0) + n - 1).min(MAX_TICK) };
                let reach_price = whirlpool::math::sqrt_price_from_tick_index(reach);
                let limit = if *to_bound {
                    reach_price
                } else if *a_to_b {
                    st.sqrt_price.saturating_sub(*offset).max(reach_price)
                } else {
                    st.sqrt_price.saturating_add(*offset).min(reach_price)
                };
                let sp = SwapParams { amount: 1000, threshold: 0, sqrt_price_limit: limit, exact_in: true, a_to_b: *a_to_b };
                let ix = w.ix_swap_v2(p, trader, &sp);
                let o = w.exec(&ix);
                if o.ok() {
                    let after = w.pool_state(p).sqrt_price;
                    if after == MIN_SQRT_PRICE || after == MAX_SQRT_PRICE {
                        bound_hits += 1;
                    }
                }
                scan_bounds(&w).map_err(&ctx)?;
                continue;
            }
        };
        let o = w.exec(&ix);
        if let Some(e) = expect {
            if e != o.ok() {
                if !e {
                    return Err(ctx(format!("out-of-bound value accepted")));
                }
                return Err(ctx(format!("in-bound value refused: {:?} {:?}", o.result, o.logs.last())));
            }
            if !e {
                boundary = true;
            }
        }
        if o.ok() {
            match op {
                ParamOp::InitFeeTier { tick_spacing, .. } => tiers.push(*tick_spacing),
                ParamOp::InitAdaptiveTier { index, tick_spacing, permissioned, .. } => atiers.push((*index, *tick_spacing, *permissioned)),
                _ => {}
            }
            l.count("accepted_ops");
        } else {
            l.count("rejected_ops");
        }
        let n_acc = scan_bounds(&w).map_err(&ctx)?;
        l.count_n("accounts_scanned", n_acc as u64);
    }
    l.count_n("price_bound_hits", bound_hits as u64);
    if boundary {
        l.nontrivial(hash_of(c));
        l.count("nontrivial_sequences");
        l.sample(|| json!({"default_protocol_fee_rate": c.default_protocol_fee_rate, "ops": c.ops.iter().take(10).collect::<Vec<_>>(), "n_ops": c.ops.len()}));
    }
    Ok(())
}

fn rate_60000() -> BoxedStrategy<u16> {
    prop_oneof![2 => Just(60_000u16), 2 => Just(60_001u16), 1 => Just(u16::MAX), 1 => Just(0u16), 3 => any::<u16>(), 3 => 0u16..=60_000].boxed()
}
fn rate_2500() -> BoxedStrategy<u16> {
    prop_oneof![2 => Just(2_500u16), 2 => Just(2_501u16), 1 => Just(u16::MAX), 1 => Just(0u16), 2 => any::<u16>(), 3 => 0u16..=2_500].boxed()
}
fn spacing() -> BoxedStrategy<u16> {
    prop_oneof![1 => Just(0u16), 6 => prop::sample::select(vec![1u16, 2, 64, 128, 8192, 32768, 32896]), 1 => any::<u16>()].boxed()
}
pub fn constants_strategy() -> BoxedStrategy<AfConstants> {
    // mostly valid for tick spacing 64/128, with single rules pushed off
    (
        prop_oneof![8 => 1u16..600, 1 => Just(0u16)],
        prop_oneof![8 => 600u16..6000, 1 => 0u16..600, 1 => Just(0u16)],
        prop_oneof![8 => 0u16..10_000, 1 => Just(10_000u16), 1 => 10_000u16..=u16::MAX],
        prop_oneof![8 => 0u32..100_000, 1 => Just(100_000u32), 1 => Just(99_999u32), 1 => any::<u32>()],
        prop_oneof![8 => 0u32..1_000_000, 1 => any::<u32>(), 1 => Just(u32::MAX / 64), 1 => Just(u32::MAX / 64 + 1)],
        prop_oneof![8 => prop::sample::select(vec![1u16, 2, 4, 8, 16, 32, 64]), 1 => Just(0u16), 1 => Just(3u16), 1 => Just(128u16), 1 => any::<u16>()],
        prop_oneof![8 => 1u16..5000, 1 => Just(0u16), 1 => any::<u16>()],
    )
        .prop_map(|(filter_period, decay_period, reduction_factor, adaptive_fee_control_factor, max_volatility_accumulator, tick_group_size, major_swap_threshold_ticks)| AfConstants {
            filter_period,
            decay_period,
            reduction_factor,
            adaptive_fee_control_factor,
            max_volatility_accumulator,
            tick_group_size,
            major_swap_threshold_ticks,
        })
        .boxed()
}

fn param_op() -> BoxedStrategy<ParamOp> {
    let price = prop_oneof![
        2 => Just(MIN_SQRT_PRICE),
        2 => Just(MIN_SQRT_PRICE - 1),
        2 => Just(MAX_SQRT_PRICE),
        2 => Just(MAX_SQRT_PRICE + 1),
        1 => Just(0u128),
        1 => Just(u128::MAX),
        6 => gen::sqrt_price(),
        1 => any::<u128>(),
    ];
    prop_oneof![
        6 => (spacing(), rate_60000()).prop_map(|(tick_spacing, rate)| ParamOp::InitFeeTier { tick_spacing, rate }),
        5 => (1000u16..1100, prop_oneof![6 => prop::sample::select(vec![64u16, 128, 8192]), 1 => Just(0u16)], rate_60000(), constants_strategy(), any::<bool>())
            .prop_map(|(index, tick_spacing, rate, k, permissioned)| ParamOp::InitAdaptiveTier { index, tick_spacing, rate, k, permissioned }),
        8 => (any::<u8>(), price.clone(), prop_oneof![6 => Just(false), 1 => Just(true)]).prop_map(|(tier, sqrt_price, swap_mints)| ParamOp::InitPool { tier, sqrt_price, swap_mints }),
        5 => (any::<u8>(), price, prop_oneof![3 => Just(None), 1 => (-100i32..300_000).prop_map(Some)]).prop_map(|(tier, sqrt_price, trade_enable_offset)| ParamOp::InitPoolAdaptive { tier, sqrt_price, trade_enable_offset }),
        5 => (any::<u8>(), rate_60000()).prop_map(|(pool, rate)| ParamOp::SetFeeRate { pool, rate }),
        5 => (any::<u8>(), rate_2500()).prop_map(|(pool, rate)| ParamOp::SetProtocolFeeRate { pool, rate }),
        3 => (any::<u8>(), rate_60000()).prop_map(|(tier, rate)| ParamOp::SetDefaultFeeRate { tier, rate }),
        3 => rate_2500().prop_map(|rate| ParamOp::SetDefaultProtocolFeeRate { rate }),
        3 => (any::<u8>(), rate_60000()).prop_map(|(tier, rate)| ParamOp::SetDefaultBaseFeeRate { tier, rate }),
        3 => (any::<u8>(), constants_strategy()).prop_map(|(tier, k)| ParamOp::SetPresetConstants { tier, k }),
        4 => (any::<u8>(), constants_strategy(), any::<u8>()).prop_map(|(pool, k, mask)| ParamOp::SetAdaptiveConstants { pool, k, mask }),
        3 => (any::<u8>(), rate_60000()).prop_map(|(pool, rate)| ParamOp::SetFeeRateByDelegate { pool, rate }),
        8 => (any::<u8>(), any::<bool>(), prop_oneof![3 => Just(true), 1 => Just(false)], gen::bits_u128(96)).prop_map(|(pool, a_to_b, to_bound, offset)| ParamOp::PushPrice { pool, a_to_b, to_bound, offset }),
    ]
    .boxed()
}

fn param_case() -> BoxedStrategy<ParamCase> {
    (prop_oneof![6 => 0u16..=2_500, 1 => Just(2_501u16), 1 => any::<u16>()], prop::collection::vec(param_op(), 6..=40))
        .prop_map(|(default_protocol_fee_rate, ops)| ParamCase { default_protocol_fee_rate, ops })
        .boxed()
}

// ---------------------------------------------------------------------------------------------------
// (b) mint admission

#[derive(Clone, Debug, Serialize, Deserialize, Hash, PartialEq, Eq)]
pub struct ExtSpec {
    /// Token-2022 extension type number (known or unknown)
    pub ty: u16,
    /// value length override: None = the well-formed length for known types (16 bytes for unknown ones)
    pub len: Option<u16>,
    pub fill: u8,
}

#[derive(Clone, Debug, Serialize, Deserialize, Hash)]
pub struct MintCase {
    pub token2022: bool,
    pub native_2022: bool,
    pub freeze_authority: bool,
    pub extensions: Vec<ExtSpec>,
    /// DefaultAccountState value if that extension is present (0 uninit, 1 initialized, 2 frozen)
    pub default_state: u8,
    /// truncate the account by this many bytes (malformed TLV)
    pub truncate: u8,
    pub badge: bool,
    /// before the mint is offered, ANOTHER config's badge authority tries to issue a badge: 1 = naming this config with its own
    /// config extension, 2 = naming this config and this config's extension (wrong signer), 3 = a regular badge under its own config
    #[serde(default)]
    pub foreign: u8,
    /// initialize_reward_v2 only: 1 = the reward mint is one of the pool's OWN mints (the pool is created over it first);
    /// 2 = as 1, and the mint's token badge is deleted between creating the pool and offering the mint as reward
    #[serde(default)]
    pub own_mint_reward: u8,
    /// the OTHER mint of the pool (a plain SPL mint, on either side of the mint under test in canonical order) holds a token badge of
    /// this config: a badge speaks for its own mint only
    #[serde(default)]
    pub partner_badge: bool,
    /// non-zero: first byte of the key of the mint under test (decides on which side of the partner it lands in canonical order)
    #[serde(default)]
    pub key_first_byte: u8,
    /// 0 initialize_pool_v2 (as one of the two mints), 1 initialize_pool_with_adaptive_fee, 2 initialize_reward_v2
    pub offered_to: u8,
}

const SUPPORTED: &[u16] = &[1, 10, 19, 18, 25, 4, 16];
const BADGE_GATED: &[u16] = &[12, 14, 3, 6, 26];

fn ext_len(ty: u16) -> u16 {
    match ty {
        1 => 108,  // TransferFeeConfig
        3 => 32,   // MintCloseAuthority
        4 => 65,   // ConfidentialTransferMint
        6 => 1,    // DefaultAccountState
        9 => 0,    // NonTransferable
        10 => 52,  // InterestBearingConfig
        12 => 32,  // PermanentDelegate
        14 => 64,  // TransferHook
        16 => 129, // ConfidentialTransferFeeConfig
        18 => 64,  // MetadataPointer
        19 => 92,  // TokenMetadata (variable; a small well-formed borsh body is written)
        20 => 64,  // GroupPointer
        22 => 64,  // GroupMemberPointer
        24 => 196, // ConfidentialMintBurn
        25 => 56,  // ScaledUiAmount
        26 => 33,  // Pausable
        _ => 16,
    }
}

/// The harness's own TLV reader (Token-2022 layout: 165 bytes padded base, account-type byte, then type/length/value
/// entries).  `None` = malformed (an entry whose header or value is cut off).  Fewer than two bytes left, or a zero
/// type, end the list (padding).
pub fn read_extension_types(data: &[u8]) -> Option<Vec<(u16, Vec<u8>)>> {
    let mut out = vec![];
    if data.len() <= 166 {
        return Some(out);
    }
    let tlv = &data[166..];
    let mut c = 0usize;
    while c < tlv.len() {
        if tlv.len() < c + 2 {
            return Some(out);
        }
        let ty = u16::from_le_bytes([tlv[c], tlv[c + 1]]);
        if ty == 0 {
            return Some(out);
        }
        if tlv.len() < c + 4 {
            return None;
        }
        let len = u16::from_le_bytes([tlv[c + 2], tlv[c + 3]]) as usize;
        if c + 4 + len > tlv.len() {
            return None;
        }
        out.push((ty, tlv[c + 4..c + 4 + len].to_vec()));
        c += 4 + len;
    }
    Some(out)
}

/// the admission rule as stated by the property (safety direction), evaluated on the mint bytes offered
pub fn model_allows(c: &MintCase, data: &[u8]) -> bool {
    if !c.token2022 {
        return true;
    }
    if c.native_2022 {
        return false;
    }
    if c.freeze_authority && !c.badge {
        return false;
    }
    let Some(exts) = read_extension_types(data) else { return false };
    for (ty, value) in &exts {
        if SUPPORTED.contains(ty) {
            continue;
        }
        if BADGE_GATED.contains(ty) {
            if *ty == 6 && value.first() == Some(&1) {
                // default account state == Initialized is the default behaviour: nothing to gate by the statement
                continue;
            }
            if !c.badge {
                return false;
            }
            continue;
        }
        return false; // non-transferable, native, account-only or unknown extensions: never
    }
    true
}

pub fn build_mint_bytes(c: &MintCase, authority: &Pubkey) -> Vec<u8> {
    let mut d = vec![0u8; 82];
    d[0..4].copy_from_slice(&1u32.to_le_bytes());
    d[4..36].copy_from_slice(authority.as_ref());
    // supply 0, decimals 6, initialized
    d[44] = 6;
    d[45] = 1;
    if c.freeze_authority {
        d[46..50].copy_from_slice(&1u32.to_le_bytes());
        d[50..82].copy_from_slice(authority.as_ref());
    }
    if !c.token2022 || (c.extensions.is_empty() && c.truncate == 0) {
        return d;
    }
    d.resize(165, 0);
    d.push(1); // AccountType::Mint
    for e in &c.extensions {
        let len = e.len.unwrap_or_else(|| ext_len(e.ty));
        d.extend_from_slice(&e.ty.to_le_bytes());
        d.extend_from_slice(&len.to_le_bytes());
        let mut v = vec![e.fill; len as usize];
        match e.ty {
            6 if len >= 1 => v[0] = c.default_state,
            19 if len == 92 => {
                // TokenMetadata: update_authority(32) mint(32) name/symbol/uri (3 empty strings) + empty vec
                v = vec![0u8; 92];
                v[0..32].copy_from_slice(authority.as_ref());
                // three 4-byte string lengths = 0 and one 4-byte vec length = 0 already zero; pad stays zero
            }
            1 if len == 108 => {
                // TransferFeeConfig: authorities (64) withheld(8) older{epoch 8, max 8, bp 2} newer{...}
                v = vec![0u8; 108];
                v[0..32].copy_from_slice(authority.as_ref());
                v[32..64].copy_from_slice(authority.as_ref());
                v[88..90].copy_from_slice(&((e.fill as u16) * 39).min(10_000).to_le_bytes());
                v[106..108].copy_from_slice(&((e.fill as u16) * 39).min(10_000).to_le_bytes());
                v[80..88].copy_from_slice(&(e.fill as u64 * 1000).to_le_bytes());
                v[98..106].copy_from_slice(&(e.fill as u64 * 1000).to_le_bytes());
            }
            _ => {}
        }
        d.extend_from_slice(&v);
    }
    let cut = (c.truncate as usize).min(d.len().saturating_sub(166));
    d.truncate(d.len() - cut);
    d
}

pub fn check_mint(c: &MintCase, l: &mut Local) -> Result<(), String> {
    let mut w = World::new(1_700_000_000);
    let cfg = w.init_config(300);
    w.init_config_extension(cfg);
    let ix = w.ix_set_config_feature_flag(cfg, whirlpool::state::ConfigFeatureFlag::TokenBadge(true));
    w.must("feature flag", &ix);
    let ts = 64u16;
    let ix = w.ix_init_fee_tier(cfg, ts, 3000);
    w.must("fee tier", &ix);
    let ix = w.ix_init_adaptive_fee_tier(cfg, 1064, ts, Pubkey::default(), Pubkey::default(), 3000, &AfConstants::sane(ts));
    w.must("adaptive tier", &ix);
    let other = w.create_spl_mint();
    if c.partner_badge {
        let ix = w.ix_init_token_badge(cfg, &other.key);
        w.must("badge for the partner mint", &ix);
        l.count("partner_mint_holds_a_badge");
    }
    // the mint under test
    let key = if c.native_2022 && c.token2022 {
        spl_token_2022::native_mint::id()
    } else {
        let mut k = w.fresh_key().to_bytes();
        if c.key_first_byte != 0 {
            k[0] = c.key_first_byte;
        }
        Pubkey::new_from_array(k)
    };
    l.count(if key < other.key { "mint_under_test_is_token_a" } else { "mint_under_test_is_token_b" });
    let admin = w.admin;
    let data = build_mint_bytes(c, &admin);
    let offered = data.clone();
    let owner = if c.token2022 { TOKEN22 } else { TOKEN };
    w.bank.set(key, Acct { lamports: 1_000_000_000, data, owner, executable: false });
    let m = MintInfo { key, program: owner, transfer_fee: None, hook: None };
    if c.badge {
        let ix = w.ix_init_token_badge(cfg, &key);
        if !w.exec(&ix).ok() {
            // the badge instruction deserializes the mint itself; a mint it cannot read gets no badge
            l.count("badge_refused_for_unreadable_mint");

        }
    }
    // the badge that counts is one issued by THIS config's badge authority
    let badge_exists = w.bank.accounts.contains_key(&token_badge_pda(&w.configs[cfg].key, &key));
    if c.foreign % 4 != 0 {
        let cfg_y = w.init_config(300);
        w.init_config_extension(cfg_y);
        let ix = w.ix_set_config_feature_flag(cfg_y, whirlpool::state::ConfigFeatureFlag::TokenBadge(true));
        w.must("feature flag (other config)", &ix);
        let (x, y) = (w.configs[cfg].clone(), w.configs[cfg_y].clone());
        let mut ix = w.ix_init_token_badge(cfg_y, &key);
        // account order: whirlpools_config, whirlpools_config_extension, token_badge_authority, token_mint, token_badge, funder, system_program
        match c.foreign % 4 {
            1 => {
                ix.accounts[0].pubkey = x.key;
                ix.accounts[4].pubkey = token_badge_pda(&x.key, &key);
            }
            2 => {
                ix.accounts[0].pubkey = x.key;
                ix.accounts[1].pubkey = config_extension_pda(&x.key);
                ix.accounts[4].pubkey = token_badge_pda(&x.key, &key);
            }
            _ => {}
        }
        let _ = y;
        let ok = w.exec(&ix).ok();
        l.count(&format!("foreign_badge_attempt_{}/{}", c.foreign % 4, if ok { "accepted" } else { "refused" }));
        if c.foreign % 4 != 3 && ok {
            return Err(format!("initialize_token_badge for this config succeeded with another config's badge authority signing (variant {})", c.foreign % 4));
        }
    }
    let mut eff = MintCase { badge: badge_exists, ..c.clone() };
    let accepted = match c.offered_to % 3 {
        0 => w.init_pool(cfg, &m, &other, ts, 1u128 << 64).is_ok(),
        1 => {
            let auth = w.new_signer();
            w.init_pool_adaptive(cfg, &m, &other, 1064, ts, auth, 1u128 << 64, None).is_ok()
        }
        _ => {
            let own = if c.own_mint_reward % 3 != 0 { w.init_pool(cfg, &m, &other, ts, 1u128 << 64).ok() } else { None };
            match own {
                Some(p) => {
                    l.count("reward_offered_over_the_pools_own_mint");
                    if c.own_mint_reward % 3 == 2 && badge_exists {
                        let ix = w.ix_delete_token_badge(cfg, &key);
                        if w.exec(&ix).ok() {
                            eff.badge = false;
                            l.count("badge_deleted_before_the_reward");
                        }
                    }
                    w.init_reward(p, &m, true).is_ok()
                }
                None => {
                    let (a, b2) = (w.create_spl_mint(), w.create_spl_mint());
                    let p = w.init_pool(cfg, &a, &b2, ts, 1u128 << 64).map_err(|o| format!("harness: plain pool refused {:?}", o.result))?;
                    w.init_reward(p, &m, true).is_ok()
                }
            }
        }
    };
    let badge_exists = eff.badge;
    let allowed = model_allows(&eff, &offered);
    let kinds: std::collections::BTreeSet<u16> = read_extension_types(&offered).map(|v| v.into_iter().map(|(t, _)| t).collect()).unwrap_or_default();
    if read_extension_types(&offered).is_none() {
        l.count("malformed_tlv");
    }
    l.count(&format!("offered_to_{}", ["initialize_pool_v2", "initialize_pool_with_adaptive_fee", "initialize_reward_v2"][(c.offered_to % 3) as usize]));
    if accepted && !allowed {
        return Err(format!(
            "a pool / reward was created over a mint the admission rule excludes: token2022={} native={} freeze_authority={} badge={} extensions={:?} default_state={}",
            c.token2022, c.native_2022, c.freeze_authority, badge_exists, kinds, c.default_state
        ));
    }
    l.count(match (accepted, allowed) {
        (true, true) => "accepted_allowed",
        (false, true) => "refused_though_rule_allows(health)",
        (false, false) => "refused_excluded",
        _ => unreachable!(),
    });
    let well_formed = c.truncate == 0 && c.extensions.iter().all(|e| e.len.is_none());
    if well_formed && !accepted && allowed {
        l.count("well_formed_refused_though_rule_allows(health)");
    }
    if c.token2022 && kinds.len() >= 2 && kinds.iter().any(|k| BADGE_GATED.contains(k)) {
        l.nontrivial(hash_of(c));
        l.sample(|| json!({"case": c, "accepted": accepted, "rule_allows": allowed}));
    }
    Ok(())
}

fn mint_case() -> BoxedStrategy<MintCase> {
    let known: Vec<u16> = vec![1, 3, 4, 6, 9, 10, 12, 14, 16, 18, 19, 20, 22, 24, 25, 26];
    let ext = (
        prop_oneof![10 => prop::sample::select(known), 1 => prop::sample::select(vec![2u16, 5, 7, 8, 11, 13, 15, 17, 21, 23, 27]), 1 => 28u16..200, 1 => any::<u16>()],
        prop_oneof![9 => Just(None), 1 => (0u16..200).prop_map(Some)],
        any::<u8>(),
    )
        .prop_map(|(ty, len, fill)| ExtSpec { ty, len, fill });
    (
        prop_oneof![9 => Just(true), 1 => Just(false)],
        prop_oneof![30 => Just(false), 1 => Just(true)],
        prop_oneof![2 => Just(false), 1 => Just(true)],
        prop::collection::vec(ext, 0..=4),
        prop_oneof![2 => Just(1u8), 1 => Just(2u8), 1 => Just(0u8)],
        prop_oneof![12 => Just(0u8), 1 => 1u8..40],
        any::<bool>(),
        (0u8..3, prop_oneof![3 => Just(0u8), 1 => 1u8..4], prop_oneof![1 => Just(0u8), 1 => Just(1u8), 2 => Just(2u8)], prop_oneof![2 => Just(false), 1 => Just(true)], any::<u8>()),
    )
        .prop_map(|(token2022, native_2022, freeze_authority, mut extensions, default_state, truncate, badge, (offered_to, foreign, own_mint_reward, partner_badge, key_first_byte))| {
            // an extension type appears at most once in a mint the token program could have produced
            let mut seen = std::collections::BTreeSet::new();
            extensions.retain(|e| seen.insert(e.ty));
            MintCase { token2022, native_2022, freeze_authority, extensions, default_state, truncate, badge, foreign, own_mint_reward, partner_badge, key_first_byte, offered_to }
        })
        .boxed()
}

pub fn def() -> CheckDef {
    CheckDef {
        id: "C19",
        rule: "(a) sequences of initialize/set instructions with boundary-biased arbitrary arguments (60000/60001, 2500/2501, MIN/MAX price ±1, tick spacing 0, adaptive \
               constants with single rules pushed off, swapped mint order) interleaved with swaps that push empty pools to the protocol price bounds; after EVERY \
               instruction every Whirlpool / FeeTier / AdaptiveFeeTier / Oracle / Config account in the bank is decoded by the harness and checked against the \
               published bounds; numeric setters and pool creation must accept <=> in bounds.  (b) Token-2022 mint bytes assembled from known and unknown \
               extension type numbers with well-formed or wrong lengths, truncation, freeze authority, default-account-state values, native-2022 key, with or \
               without a token badge issued by the config's own badge authority (one case in four: after ANOTHER config's badge authority tried to issue one for this config \
               - which must fail - or issued one under its own config; for rewards also over one of the pool's OWN mints, with the badge deleted after the pool was created), offered to initialize_pool_v2 / initialize_pool_with_adaptive_fee / initialize_reward_v2: success => the stated admission \
               rule allows the mint (refusals of allowed mints are counted as generator health, not violations).  Non-trivial = (a) a sequence with a value \
               rejected at / accepted on a bound, (b) a Token-2022 mint with >=2 extensions incl. a badge-gated one.",
        assumptions: vec!["nsvm runtime as in DESIGN.md §5", "mint bytes are built directly (the domain of the admission check); malformed TLV may already be refused by the token program or Anchor"],
        subs: vec![
            sub("params", 40_000, 1_000_000, param_case, |c: &ParamCase, l: &mut Local| check_params(c, l)),
            sub("mints", 150_000, 5_000_000, mint_case, |c: &MintCase, l: &mut Local| check_mint(c, l)),
        ],
    }
}
