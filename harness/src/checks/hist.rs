//! Shared driver for history-based checks (C01, C05, C06, C07, C11): one interpreter, pluggable monitors.
use crate::history::*;
use crate::runner::Local;

pub trait Monitor {
    /// called after every op (also rejected / vacuous ones); `pre`/`post` are decoded snapshots
    fn after(&mut self, h: &Hist, pre: &Snap, post: &Snap, op: &Op, r: &OpResult, l: &mut Local) -> Result<(), String>;
    fn finish(&mut self, _h: &mut Hist, _l: &mut Local) -> Result<(), String> {
        Ok(())
    }
}

#[derive(Default, Clone, Debug)]
pub struct HistStats {
    pub ops_ok: u32,
    pub ops_rejected: u32,
    pub ops_vacuous: u32,
    pub swaps_ok: u32,
    pub crossings: u32,
    pub positions_opened: u32,
    pub decreases_ok: u32,
    pub collects_ok: u32,
    pub dynamic_arrays: u32,
    pub fixed_arrays: u32,
}

pub fn run_history(case: &HistoryCase, monitors: &mut [&mut dyn Monitor], l: &mut Local) -> Result<HistStats, String> {
    let Some(mut h) = Hist::build(&case.spec) else {
        l.count("world_build_rejected");
        return Ok(HistStats::default());
    };
    let mut stats = HistStats::default();
    let mut pre = h.snap();
    for (i, op) in case.ops.iter().enumerate() {
        let r = h.exec(op);
        let post = h.snap();
        match &r.did {
            Did::Ok => {
                stats.ops_ok += 1;
                match op.effective() {
                    Op::Swap { .. } | Op::SwapBack { .. } | Op::SwapExact { .. } => {
                        stats.swaps_ok += 1;
                        if let Some(o) = &r.outcome {
                            stats.crossings += o.steps.iter().filter(|s| s.crossed_initialized_tick.is_some()).count() as u32;
                        }
                    }
                    Op::Open { .. } => stats.positions_opened += 1,
                    Op::Decrease { .. } => stats.decreases_ok += 1,
                    Op::CollectFees { .. } | Op::CollectProtocolFees { .. } => stats.collects_ok += 1,
                    _ => {}
                }
            }
            Did::Rejected(code) => {
                stats.ops_rejected += 1;
                if *code == crate::rt::ERR_PANIC {
                    l.count("program_panics");
                }
                l.count(&format!("rejected/{}/{}", op_name(op), code));
                // development aid: VERIF_DEBUG_CODE=<code> prints the first rejection with that code
                if let Ok(want) = std::env::var("VERIF_DEBUG_CODE") {
                    static ONCE: std::sync::atomic::AtomicBool = std::sync::atomic::AtomicBool::new(false);
                    if want == code.to_string() && !ONCE.swap(true, std::sync::atomic::Ordering::SeqCst) {
                        eprintln!("DEBUG rejected op #{i} {op:?} spec {:?}\n  logs: {:?}", case.spec, r.outcome.as_ref().map(|o| o.logs.clone()));
                    }
                }
                // atomicity of the harness itself: a rejected instruction changes nothing
                if post.pool != pre.pool || post.balances != pre.balances {
                    return Err(format!("op #{i} {op:?} was rejected but state changed (harness atomicity)"));
                }
            }
            Did::Vacuous => stats.ops_vacuous += 1,
        }
        if let Op::Skewed { .. } = op {
            l.count(if r.did == Did::Ok { "skewed_tick_array_op_accepted" } else { "skewed_tick_array_op_refused" });
        }
        if let (Op::CollectRewardFrom { index, from, .. }, Did::Ok) = (op, &r.did) {
            return Err(format!("after op #{i} {op:?}: reward {index} was collected from an account that is not that reward's vault (variant {from})"));
        }
        if let Op::Supplemented { .. } = op {
            l.count(if r.did == Did::Ok { "swap_with_supplemental_tick_arrays_ok" } else { "swap_with_supplemental_tick_arrays_not_ok" });
        }
        for m in monitors.iter_mut() {
            m.after(&h, &pre, &post, op.effective(), &r, l).map_err(|e| format!("after op #{i} {op:?}: {e}"))?;
        }
        pre = post;
    }
    for a in h.tick_arrays() {
        if a.dynamic {
            stats.dynamic_arrays += 1;
        } else {
            stats.fixed_arrays += 1;
        }
    }
    for m in monitors.iter_mut() {
        m.finish(&mut h, l)?;
    }
    Ok(stats)
}

pub fn count_stats(s: &HistStats, l: &mut Local) {
    l.count_n("ops_ok", s.ops_ok as u64);
    l.count_n("ops_rejected", s.ops_rejected as u64);
    l.count_n("ops_vacuous", s.ops_vacuous as u64);
    l.count_n("swaps_ok", s.swaps_ok as u64);
    l.count_n("initialized_tick_crossings", s.crossings as u64);
    l.count_n("positions_opened", s.positions_opened as u64);
    l.count_n("decreases_ok", s.decreases_ok as u64);
    l.count_n("dynamic_arrays", s.dynamic_arrays as u64);
    l.count_n("fixed_arrays", s.fixed_arrays as u64);
}

pub fn op_name(op: &Op) -> &'static str {
    match op.effective() {
        Op::Open { .. } => "open",
        Op::Increase { variant: IncVariant::ByAmounts { .. }, .. } => "increase_by_amounts",
        Op::Increase { .. } => "increase",
        Op::Decrease { .. } => "decrease",
        Op::Reposition { .. } => "reposition",
        Op::Swap { .. } => "swap",
        Op::SwapBack { .. } => "swap_back",
        Op::SwapExact { .. } => "swap_exact_budget",
        Op::ReinitArray { .. } => "reinit_tick_array",
        Op::UpdateFees { .. } => "update_fees",
        Op::CollectFees { .. } => "collect_fees",
        Op::CollectProtocolFees { .. } => "collect_protocol_fees",
        Op::SetFeeRate(_) => "set_fee_rate",
        Op::SetProtocolFeeRate(_) => "set_protocol_fee_rate",
        Op::Close { .. } => "close",
        Op::AdvanceClock(_) => "advance_clock",
        Op::CollectReward { .. } => "collect_reward",
        Op::CollectRewardFrom { .. } => "collect_reward_from_another_account",
        Op::SetEmissions { .. } => "set_emissions",
        Op::SetEmissionsNearVault { .. } => "set_emissions_near_vault",
        Op::FundRewardVault { .. } => "fund_reward_vault",
        Op::SetTransferFee { .. } => "set_transfer_fee",
        Op::AdvanceEpoch(_) => "advance_epoch",
        Op::Skewed { .. } | Op::Supplemented { .. } => unreachable!(),
    }
}
