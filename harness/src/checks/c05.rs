//! C05 — tradable liquidity = sum of positions covering the current tick; tick net/gross/initialized.
use super::hist::*;
use crate::history::*;
use crate::runner::*;
use num_bigint::BigInt;
use proptest::prelude::*;
use serde_json::json;
use std::collections::BTreeMap;

#[derive(Default)]
pub struct LiquidityMonitor {
    /// harness ledger: position index -> (lower, upper, liquidity) from successfully requested deltas
    pub ledger: BTreeMap<usize, (i32, i32, u128)>,
    pub shared_bound_crossed: bool,
    pub exact_landings: u32,
    pub bound_hits: u32,
    pub checks: u32,
}

impl LiquidityMonitor {
    fn verify(&self, h: &Hist, post: &Snap) -> Result<(), String> {
        // (a) ledger == Position.liquidity
        for (p, (lo, hi, liq)) in &self.ledger {
            let Some(ps) = post.positions.get(*p).cloned().flatten() else {
                if *liq != 0 {
                    return Err(format!("position #{p} with ledger liquidity {liq} has no account"));
                }
                continue;
            };
            if ps.liquidity != *liq || ps.tick_lower_index != *lo || ps.tick_upper_index != *hi {
                return Err(format!(
                    "position #{p}: account says [{}, {}) L={} but successfully requested deltas give [{lo}, {hi}) L={liq}",
                    ps.tick_lower_index, ps.tick_upper_index, ps.liquidity
                ));
            }
        }
        // (a') a position with liquidity covers a non-empty range [lower, upper): with the bounds in the wrong order its two ticks carry
        //      +L / -L the wrong way round and the first crossing breaks (b)
        for (lo, hi, liq) in self.ledger.values() {
            if *liq > 0 && lo >= hi {
                return Err(format!("a position holds liquidity {liq} over the empty range [{lo}, {hi})"));
            }
        }
        // (b) pool.liquidity = sum over covering positions
        let t = post.pool.tick_current_index;
        let mut sum = BigInt::from(0);
        for (lo, hi, liq) in self.ledger.values() {
            if *lo <= t && t < *hi {
                sum += BigInt::from(*liq);
            }
        }
        if sum != BigInt::from(post.pool.liquidity) {
            return Err(format!("pool.liquidity = {} but positions covering tick {t} sum to {sum}", post.pool.liquidity));
        }
        // (c) every slot of every array
        let ts = h.spec.tick_spacing as i32;
        let mut net: BTreeMap<i32, BigInt> = BTreeMap::new();
        let mut gross: BTreeMap<i32, BigInt> = BTreeMap::new();
        for (lo, hi, liq) in self.ledger.values() {
            if *liq == 0 {
                continue;
            }
            *net.entry(*lo).or_default() += BigInt::from(*liq);
            *net.entry(*hi).or_default() -= BigInt::from(*liq);
            *gross.entry(*lo).or_default() += BigInt::from(*liq);
            *gross.entry(*hi).or_default() += BigInt::from(*liq);
        }
        let mut seen = 0usize;
        let pk = h.w.pools[h.pool].key;
        for s in &h.array_starts {
            let data = h.w.bank.get(&crate::world::tick_array_pda(&pk, *s)).data;
            let a = crate::decode::tick_array(&data).map_err(|e| format!("tick array {s}: {e}"))?;
            if a.start_tick_index != *s || a.whirlpool != pk {
                return Err(format!("tick array {s} header mismatch"));
            }
            if a.dynamic {
                let mut bm: u128 = 0;
                for (i, tk) in a.ticks.iter().enumerate() {
                    if tk.initialized {
                        bm |= 1u128 << i;
                    }
                }
                if bm != a.bitmap {
                    return Err(format!("dynamic array {s}: bitmap {:#x} != initialized slots {:#x}", a.bitmap, bm));
                }
                if a.used_len != data.len() || data.len() != 148 + 112 * bm.count_ones() as usize {
                    return Err(format!("dynamic array {s}: account length {} / used {} for {} initialized ticks", data.len(), a.used_len, bm.count_ones()));
                }
            }
            for (i, tk) in a.ticks.iter().enumerate() {
                let idx = s + i as i32 * ts;
                let g = gross.get(&idx).cloned().unwrap_or_default();
                let n = net.get(&idx).cloned().unwrap_or_default();
                let want_init = g != BigInt::from(0);
                if tk.initialized != want_init {
                    return Err(format!("tick {idx}: initialized={} but gross liquidity of bounding positions is {g}", tk.initialized));
                }
                if want_init {
                    seen += 1;
                    if BigInt::from(tk.liquidity_gross) != g || BigInt::from(tk.liquidity_net) != n {
                        return Err(format!("tick {idx}: stored net={} gross={} but positions give net={n} gross={g}", tk.liquidity_net, tk.liquidity_gross));
                    }
                } else if tk.liquidity_gross != 0 || tk.liquidity_net != 0 {
                    return Err(format!("tick {idx}: uninitialized but net={} gross={}", tk.liquidity_net, tk.liquidity_gross));
                }
            }
        }
        if seen != gross.values().filter(|g| **g != BigInt::from(0)).count() {
            return Err("a bound of a position with liquidity lies in no tick array".into());
        }
        Ok(())
    }
}

impl Monitor for LiquidityMonitor {
    fn after(&mut self, h: &Hist, pre: &Snap, post: &Snap, op: &Op, r: &OpResult, _l: &mut Local) -> Result<(), String> {
        if r.did != Did::Ok {
            return Ok(());
        }
        match op {
            Op::Open { .. } => {
                let p = r.pos.unwrap();
                let info = &h.w.positions[p];
                self.ledger.insert(p, (info.lower, info.upper, 0));
            }
            Op::Increase { variant, .. } => {
                let p = r.pos.unwrap();
                let e = self.ledger.get_mut(&p).ok_or("increase on unknown position")?;
                match variant {
                    IncVariant::ByAmounts { .. } => {
                        // delta chosen by the program (decided by C08): take it from the account
                        e.2 = post.positions[p].as_ref().map(|s| s.liquidity).unwrap_or(0);
                    }
                    _ => e.2 = e.2.checked_add(r.liquidity_delta as u128).ok_or("ledger overflow")?,
                }
            }
            Op::Decrease { .. } => {
                let p = r.pos.unwrap();
                let e = self.ledger.get_mut(&p).ok_or("decrease on unknown position")?;
                e.2 = e.2.checked_sub((-r.liquidity_delta) as u128).ok_or_else(|| format!("decrease of {} accepted on a position holding {}", -r.liquidity_delta, e.2))?;
            }
            Op::Reposition { liquidity, .. } => {
                let p = r.pos.unwrap();
                let info = &h.w.positions[p];
                self.ledger.insert(p, (info.lower, info.upper, *liquidity));
            }
            Op::Close { .. } => {
                let p = r.pos.unwrap();
                let e = self.ledger.remove(&p);
                if let Some((_, _, liq)) = e {
                    if liq != 0 {
                        return Err(format!("position #{p} closed while holding liquidity {liq}"));
                    }
                }
            }
            Op::Swap { .. } | Op::SwapBack { .. } | Op::SwapExact { .. } => {
                if let Some(o) = &r.outcome {
                    for s in &o.steps {
                        if let Some(t) = s.crossed_initialized_tick {
                            let sharing = self.ledger.values().filter(|(lo, hi, liq)| *liq > 0 && (*lo == t || *hi == t)).count();
                            if sharing >= 2 {
                                self.shared_bound_crossed = true;
                            }
                        }
                    }
                }
                let p = post.pool.sqrt_price;
                if p != pre.pool.sqrt_price && p == whirlpool::math::sqrt_price_from_tick_index(post.pool.tick_current_index.max(crate::model::MIN_TICK)) {
                    self.exact_landings += 1;
                }
                if p == crate::model::MIN_SQRT_PRICE || p == crate::model::MAX_SQRT_PRICE {
                    self.bound_hits += 1;
                }
            }
            _ => {}
        }
        self.checks += 1;
        self.verify(h, post)
    }
}

pub fn check_history(case: &HistoryCase, l: &mut Local) -> Result<(), String> {
    let mut m = LiquidityMonitor::default();
    let stats = run_history(case, &mut [&mut m], l)?;
    count_stats(&stats, l);
    l.count_n("prefix_checks", m.checks as u64);
    l.count_n("exact_tick_landings", m.exact_landings as u64);
    l.count_n("price_bound_hits", m.bound_hits as u64);
    if case.spec.tick_spacing >= 32768 {
        l.count("full_range_only_pools");
    }
    if m.shared_bound_crossed {
        l.count("nontrivial_histories");
        l.nontrivial(hash_of(case));
        l.sample(|| json!({"spec": case.spec, "n_ops": case.ops.len(), "first_ops": case.ops.iter().take(6).collect::<Vec<_>>(), "stats": format!("{stats:?}")}));
    }
    Ok(())
}

pub fn def() -> CheckDef {
    CheckDef {
        id: "C05",
        rule: "generated mixed-op histories (open/increase v1,v2,by-amounts,for-boundary-amount/decrease/reposition/swaps both directions and modes with limits/fee ops/close; 2 of 5 also with reward ops and reward accumulators started near 2^128) \
               executed through the real entrypoint; after every successful instruction: harness ledger of requested deltas == Position.liquidity, \
               pool.liquidity == sum over ledger positions with lower <= tick_current < upper, and for all 88 slots of every tick array (fixed and \
               dynamic, decoded by the harness's own reader) net/gross/initialized equal the signed/unsigned sums.  Non-trivial = history in which a \
               swap crossed an initialized tick that bounds >= 2 positions with liquidity; distinct = hash of (world spec, ops).",
        assumptions: vec!["nsvm runtime, shims and SPL processors as in DESIGN.md §5", "liquidity chosen by increase_liquidity_by_token_amounts is taken from the account (decided by C08)"],
        subs: vec![sub("histories", 30_000, 600_000, || prop_oneof![3 => history_strategy(false, false, 40), 2 => history_strategy(true, true, 40)].boxed(), |c: &HistoryCase, l: &mut Local| check_history(c, l))],
    }
}
