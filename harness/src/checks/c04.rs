//! C04 — only the designated authority can move a position's funds or change settings.
use crate::rich::*;
use crate::runner::*;
use crate::world::*;
use proptest::prelude::*;
use serde_json::json;
use solana_program::{instruction::Instruction, pubkey::Pubkey};

pub fn rich_spec_strategy() -> BoxedStrategy<RichSpec> {
    (prop::sample::select(vec![1u16, 8, 64, 128]), -20_000i32..20_000, 0u16..=60000, 0u16..=2500, any::<u8>(), 24u8..56, 10u8..36, any::<bool>())
        .prop_map(|(tick_spacing, start_tick, fee_rate, protocol_fee_rate, dynamic_mask, liquidity_bits, swap_bits, t22)| RichSpec {
            tick_spacing,
            start_tick,
            fee_rate,
            protocol_fee_rate,
            dynamic_mask,
            liquidity_bits,
            swap_bits,
            t22,
        })
        .boxed()
}

fn run(w: &World, ix: &Instruction) -> crate::rt::Outcome {
    let mut c = w.clone();
    c.exec(ix)
}

/// drop the signature at `idx`; the same key signing in another role (funder) is replaced by an unrelated payer
fn unsigned(ix: &Instruction, idx: usize, payer: Pubkey) -> Instruction {
    let mut m = ix.clone();
    let k = m.accounts[idx].pubkey;
    m.accounts[idx].is_signer = false;
    for (j, a) in m.accounts.iter_mut().enumerate() {
        if j != idx && a.pubkey == k && a.is_signer {
            a.pubkey = payer;
        }
    }
    m
}

fn approve(w: &mut World, token_program: &Pubkey, token_account: &Pubkey, delegate: &Pubkey, owner: &Pubkey, amount: u64) -> bool {
    let ix = if *token_program == TOKEN {
        spl_token::instruction::approve(&TOKEN, token_account, delegate, owner, &[], amount).unwrap()
    } else {
        spl_token_2022::instruction::approve(&TOKEN22, token_account, delegate, owner, &[], amount).unwrap()
    };
    w.bank.process_native(&ix).is_ok()
}

/// An SPL Multisig account (355 bytes) created through the real InitializeMultisig2 of `prog`, whose signer keys are chosen so that
/// its bytes read as the token account {mint, owner = attacker, amount 1, no delegate, state initialized, account type 2}.
/// Possible whenever the mint key starts with a valid multisig header (m, n, 1).  Returns the world holding it and its key.
fn forge_multisig(w: &World, prog: Pubkey, mint: &Pubkey, attacker: &Pubkey) -> Option<(World, Pubkey)> {
    let mb = mint.to_bytes();
    let (m, n) = (mb[0], mb[1] as usize);
    if mb[2] != 1 || !(1..=11).contains(&n) || m == 0 || m as usize > n {
        return None;
    }
    let mut d = [0u8; 355];
    d[0..32].copy_from_slice(&mb);
    d[32..64].copy_from_slice(&attacker.to_bytes());
    d[64..72].copy_from_slice(&1u64.to_le_bytes());
    d[108] = 1;
    d[165] = 2;
    let signers: Vec<Pubkey> = (0..n).map(|i| Pubkey::new_from_array(d[3 + 32 * i..35 + 32 * i].try_into().unwrap())).collect();
    let refs: Vec<&Pubkey> = signers.iter().collect();
    let mut wf = w.clone();
    let k = wf.fresh_key();
    wf.bank.set(k, crate::rt::Acct { lamports: 100_000_000, data: vec![0u8; 355], owner: prog, executable: false });
    let ix = if prog == TOKEN { spl_token::instruction::initialize_multisig2(&TOKEN, &k, &refs, m).ok()? } else { spl_token_2022::instruction::initialize_multisig2(&TOKEN22, &k, &refs, m).ok()? };
    wf.bank.process_native(&ix).ok()?;
    let got = wf.bank.get(&k).data;
    // the token program wrote exactly the crafted image (up to the signers it holds); it is a Multisig, not a token account
    if got.len() != 355 || got[..3 + 32 * n] != d[..3 + 32 * n] || got[32..64] != attacker.to_bytes() {
        return None;
    }
    Some((wf, k))
}

/// The part of a program-owned account that is a *setting* (everything an authority is recorded for), as opposed to trading state:
/// whirlpools without liquidity / price / tick / owed protocol fees / fee growth / reward timestamp / reward growth; oracles without
/// their adaptive-fee variables; every other account type entirely.
fn settings_view(d: &[u8]) -> Vec<u8> {
    use anchor_lang::Discriminator;
    let mut v = d.to_vec();
    if d.len() == crate::decode::WHIRLPOOL_LEN && d[..8] == *whirlpool::state::Whirlpool::DISCRIMINATOR {
        for (a, b2) in [(49usize, 101usize), (165, 181), (245, 269)] {
            v[a..b2].fill(0);
        }
        for i in 0..3 {
            let o = crate::decode::OFF_REWARD_INFOS + 128 * i + 112;
            v[o..o + 16].fill(0);
        }
    } else if d.len() >= 8 && d[..8] == *whirlpool::state::Oracle::DISCRIMINATOR {
        // discriminator 8, whirlpool 32, trade_enable_timestamp 8, constants 18, then variables
        let o = 8 + 32 + 8 + 18;
        if v.len() > o {
            v[o..].fill(0);
        }
    }
    v
}

/// Instructions nobody's authority is required for (anybody can send them): whatever they do, they must not change a setting of an
/// existing pool / config / tier / extension / badge / oracle.
fn permissionless_instructions_leave_settings_alone(r: &Rich, l: &mut Local) -> Result<(), String> {
    let w = &r.w;
    let mut list: Vec<(String, Instruction)> = vec![];
    let pools = [("p0", r.p0), ("p1", r.p1), ("adaptive", r.pa), ("flagged", r.p_flagged)];
    for (n, p) in pools {
        // on an already migrated pool the instruction PANICS, and every program panic costs the process one executor thread for good
        // (rt::PANIC_BUDGET): it is sent to the pool with control flags and to one ordinary pool only
        if n == "flagged" || n == "p0" {
            list.push((
                format!("migrate_repurpose_reward_authority_space({n})"),
                ixb(whirlpool::accounts::MigrateRepurposeRewardAuthoritySpace { whirlpool: w.pools[p].key }, whirlpool::instruction::MigrateRepurposeRewardAuthoritySpace {}),
            ));
        }
        for a_to_b in [true, false] {
            let sp = SwapParams { amount: 1000, threshold: 0, sqrt_price_limit: 0, exact_in: true, a_to_b };
            list.push((format!("swap_v2({n}) by an outsider"), w.ix_swap_v2(p, r.attacker, &sp)));
        }
        let far = array_start(w.pool_state(p).tick_current_index, w.pools[p].tick_spacing) + 7 * 88 * w.pools[p].tick_spacing as i32;
        list.push((format!("initialize_tick_array({n})"), w.ix_init_tick_array(p, far, false)));
        list.push((format!("initialize_dynamic_tick_array({n})"), w.ix_init_tick_array(p, far + 88 * w.pools[p].tick_spacing as i32, true)));
    }
    for pos in [r.pos_plain, r.pos_te, r.pos_locked, r.pos_other_pool, r.pos_adaptive, r.pos_bundled] {
        list.push(("update_fees_and_rewards".into(), w.ix_update_fees(pos)));
    }
    for (name, ix) in list {
        let mut c = w.clone();
        let o = c.exec(&ix);
        l.count(&format!("permissionless/{}", if o.ok() { "executed" } else { "refused" }));
        if !o.ok() {
            continue;
        }
        for (k, before) in w.bank.accounts.iter() {
            if before.owner != WP {
                continue;
            }
            let after = c.bank.accounts.get(k).map(|a| settings_view(&a.data));
            if after.as_ref() != Some(&settings_view(&before.data)) {
                let (bv, av) = (settings_view(&before.data), after.unwrap_or_default());
                let at = bv.iter().zip(av.iter()).position(|(x, y)| x != y);
                return Err(format!("{name}: an instruction that needs nobody's authority changed a setting of account {k} ({} bytes; first difference at byte {at:?})", before.data.len()));
            }
        }
    }
    Ok(())
}

/// Authority rotations: a `set_*_authority` instruction signed by the current authority must (1) change nothing but one 32-byte field of
/// one account, which then holds the new key, and (2) move the right with it: afterwards an instruction of that role signed by the OLD
/// authority fails (the recorded authority is the new one) and succeeds when signed by the new one (positive control, counted).
struct Mini {
    w: World,
    cfg: usize,
    p0: usize,
    p1: usize,
    pa: usize,
    af_index: u16,
    af_delegate: Pubkey,
    trader: usize,
    spare_mint: Pubkey,
}

/// a small world of its own (config with extension, fee tier, two static pools with a reward each, an adaptive tier with a delegate and
/// a pool in it): independent of the rich world, whose construction itself uses the setters under test
fn mini_world(spec: &RichSpec) -> Option<Mini> {
    crate::rt::quiet_panics(true);
    let r = std::panic::catch_unwind(|| {
        let mut w = World::new(1_700_000_000);
        let ts = spec.tick_spacing;
        let cfg = w.init_config(spec.protocol_fee_rate.min(2500));
        w.init_config_extension(cfg);
        let ix = w.ix_set_config_feature_flag(cfg, whirlpool::state::ConfigFeatureFlag::TokenBadge(true));
        w.must("feature flag", &ix);
        let ix = w.ix_init_fee_tier(cfg, ts, spec.fee_rate.min(60000));
        w.must("fee tier", &ix);
        let (mx, my, mz, spare, rm) = (w.create_spl_mint(), w.create_spl_mint(), w.create_spl_mint(), w.create_spl_mint(), w.create_spl_mint());
        let price = whirlpool::math::sqrt_price_from_tick_index(0) + 1;
        let p0 = w.init_pool(cfg, &mx, &my, ts, price).ok()?;
        let p1 = w.init_pool(cfg, &mx, &mz, ts, price).ok()?;
        let af_index = 1024 + ts;
        let af_delegate = w.new_signer();
        let auth = w.new_signer();
        let ix = w.ix_init_adaptive_fee_tier(cfg, af_index, ts, auth, af_delegate, spec.fee_rate.min(60000), &crate::world2::AfConstants::sane(ts));
        w.must("adaptive tier", &ix);
        let pa = w.init_pool_adaptive(cfg, &mx, &my, af_index, ts, auth, price, None).ok()?;
        let trader = w.add_user();
        for m in [&mx, &my, &mz] {
            w.user_token(trader, m, 1 << 50);
        }
        for p in [p0, p1] {
            let idx = w.init_reward(p, &rm, false).ok()?;
            let vault = w.pools[p].rewards[idx].vault;
            w.mint_to(&rm, &vault, 1 << 50);
        }
        Some(Mini { w, cfg, p0, p1, pa, af_index, af_delegate, trader, spare_mint: spare.key })
    })
    .ok()
    .flatten();
    crate::rt::quiet_panics(false);
    r
}

fn authority_rotations(spec: &RichSpec, l: &mut Local) -> Result<(), String> {
    let Some(mut r) = mini_world(spec) else {
        l.count("rotation/mini_world_refused");
        return Ok(());
    };
    let newk = r.w.new_signer();
    let w = &r.w;
    let c = &w.configs[r.cfg];
    let treasury_a = w.user_token_existing(r.trader, &w.pools[r.p0].mint_a.key);
    let treasury_b = w.user_token_existing(r.trader, &w.pools[r.p0].mint_b.key);
    let spare_badge_mint = r.spare_mint;
    // (name, rotation instruction, an instruction of that role built for the OLD authority, the old authority)
    let mut ra = w.ix_set_reward_authority(r.p0, 0, newk);
    ra.accounts[1].is_signer = true;
    let mut emissions = w.ix_set_reward_emissions(r.p0, 0, 1u128 << 69, false);
    emissions.accounts[1].is_signer = true;
    let list: Vec<(&str, Instruction, Instruction, Pubkey)> = vec![
        ("set_fee_authority", w.ix_set_fee_authority(r.cfg, newk), w.ix_set_fee_rate(r.p0, 1234), c.fee_authority),
        ("set_collect_protocol_fees_authority", w.ix_set_collect_protocol_fees_authority(r.cfg, newk), w.ix_collect_protocol_fees(r.p0, treasury_a, treasury_b, true), c.collect_protocol_fees_authority),
        ("set_reward_emissions_super_authority", w.ix_set_reward_emissions_super_authority(r.cfg, newk), w.ix_set_reward_authority_by_super(r.p1, 0, c.reward_emissions_super_authority), c.reward_emissions_super_authority),
        ("set_reward_authority", ra, emissions, w.reward_authority(r.p0)),
        ("set_reward_authority_by_super_authority", w.ix_set_reward_authority_by_super(r.p1, 0, newk), {
            let mut e = w.ix_set_reward_emissions(r.p1, 0, 1u128 << 69, false);
            e.accounts[1].is_signer = true;
            e
        }, w.reward_authority(r.p1)),
        ("set_config_extension_authority", w.ix_set_config_extension_authority(r.cfg, newk), w.ix_set_token_badge_authority(r.cfg, c.token_badge_authority), c.config_extension_authority),
        ("set_token_badge_authority", w.ix_set_token_badge_authority(r.cfg, newk), w.ix_init_token_badge(r.cfg, &spare_badge_mint), c.token_badge_authority),
        ("set_delegated_fee_authority", w.ix_set_delegated_fee_authority(r.cfg, r.af_index, newk), w.ix_set_fee_rate_by_delegate(r.pa, r.af_delegate, 2345), r.af_delegate),
    ];
    for (name, rot, follow, old) in list {
        // the follow-up must work before the rotation, else the case says nothing
        let mut w0 = w.clone();
        if !w0.exec(&follow).ok() {
            l.count(&format!("VACUOUS_rotation_followup_failed/{name}"));
            continue;
        }
        let mut w1 = w.clone();
        let o = w1.exec(&rot);
        if !o.ok() {
            l.count(&format!("VACUOUS_rotation_failed/{name}/{}", o.code().unwrap_or(0)));
            continue;
        }
        // (1) exactly one 32-byte field of one program account changed, and it holds the new key
        let mut changed = vec![];
        for (k, before) in w.bank.accounts.iter() {
            if before.owner != WP {
                continue;
            }
            let after = &w1.bank.accounts[k];
            if after.data != before.data {
                let diff: Vec<usize> = (0..before.data.len().min(after.data.len())).filter(|i| before.data[*i] != after.data[*i]).collect();
                changed.push((*k, diff, after.data.clone()));
            }
        }
        if changed.len() != 1 {
            return Err(format!("{name}: the rotation changed {} program accounts", changed.len()));
        }
        let (k, diff, after) = &changed[0];
        let (lo, hi) = (*diff.first().unwrap(), *diff.last().unwrap());
        let at = (0..=lo).rev().find(|o| o + 32 > hi && after.len() >= o + 32 && after[*o..*o + 32] == newk.to_bytes());
        if at.is_none() {
            return Err(format!("{name}: account {k} changed in bytes {lo}..={hi}, which is not a single 32-byte field holding the new authority"));
        }
        // (2) the right moved with the field
        let mut w_old = w1.clone();
        if w_old.exec(&follow).ok() {
            return Err(format!("{name}: after the rotation an instruction of that role signed by the OLD authority still succeeds"));
        }
        let mut as_new = follow.clone();
        for m in as_new.accounts.iter_mut() {
            if m.pubkey == old && m.is_signer {
                m.pubkey = newk;
            }
        }
        let mut w_new = w1.clone();
        let ok = w_new.exec(&as_new).ok();
        l.count(&format!("rotation/{}", if ok { "new_authority_accepted" } else { "new_authority_refused(positive control)" }));
        // (3) and with nobody else: a key that never held the role
        let outsider = Pubkey::new_unique();
        let sign_as = |who: Pubkey| {
            let mut ix = follow.clone();
            for m in ix.accounts.iter_mut() {
                if m.pubkey == old && m.is_signer {
                    m.pubkey = who;
                }
            }
            ix
        };
        if w1.clone().exec(&sign_as(outsider)).ok() {
            return Err(format!("{name}: after the rotation an instruction of that role signed by an outsider succeeds"));
        }
        // (4) revocation: where the setter accepts the all-zero key as new authority, the role is held by NOBODY afterwards
        let mut revoke = rot.clone();
        for m in revoke.accounts.iter_mut() {
            if m.pubkey == newk {
                m.pubkey = Pubkey::default();
            }
        }
        let nb = newk.to_bytes();
        let mut i = 0;
        while i + 32 <= revoke.data.len() {
            if revoke.data[i..i + 32] == nb {
                revoke.data[i..i + 32].copy_from_slice(&[0u8; 32]);
                i += 32;
            } else {
                i += 1;
            }
        }
        let mut w2 = w.clone();
        if w2.exec(&revoke).ok() {
            for (who, what) in [(old, "the former authority"), (outsider, "an outsider"), (newk, "another key")] {
                if w2.clone().exec(&sign_as(who)).ok() {
                    return Err(format!("{name}: after the authority was set to the all-zero key (revoked), an instruction of that role signed by {what} succeeds"));
                }
            }
            l.count(&format!("rotation/revoked_to_zero_key_then_everyone_refused/{name}"));
        } else {
            l.count(&format!("rotation/zero_key_not_accepted_as_authority/{name}"));
        }
        l.nontrivial(hash_of(&(name, "rotation", hash_of(spec))));
    }
    Ok(())
}

/// instructions for which a one-token delegate is a documented alternative to the holder and nothing else in the
/// instruction needs the holder (positive control of the delegate path)
const DELEGATE_POSITIVE: &[&str] = &["increase_liquidity", "decrease_liquidity", "increase_liquidity_v2", "decrease_liquidity_v2", "collect_fees", "collect_fees_v2", "collect_reward"];

pub fn check_world(spec: &RichSpec, l: &mut Local) -> Result<(), String> {
    authority_rotations(spec, l)?;
    let Some(r) = Rich::try_build(spec) else {
        l.count("world_build_refused");
        return Ok(());
    };
    let cat = catalog(&r);
    let w = &r.w;
    let attacker_key = w.users[r.attacker].key;
    let spec_h = hash_of(spec);
    permissionless_instructions_leave_settings_alone(&r, l)?;
    for ent in cat.iter().filter(|e| e.auth_idx != usize::MAX) {
        let base = run(w, &ent.ix);
        if !base.ok() {
            // a baseline the generated world does not admit says nothing about the property: counted, never reported
            l.count(&format!("VACUOUS_baseline_failed/{}/{}", ent.name, base.code().unwrap_or(0)));
            continue;
        }
        let last = std::cell::RefCell::new(String::new());
        let mut mutant = |kind: &str, world: &World, ix: &Instruction, must_fail: bool, l: &mut Local| -> Result<bool, String> {
            let o = run(world, ix);
            *last.borrow_mut() = format!("{:?} {:?}", o.result, o.logs.iter().rev().take(3).collect::<Vec<_>>());
            l.count(&format!("mutant/{kind}"));
            l.nontrivial(hash_of(&(ent.name, kind, spec_h)));
            if must_fail && o.ok() {
                return Err(format!("{}: succeeded with {kind}", ent.name));
            }
            Ok(o.ok())
        };
        // missing signature of the right key
        mutant("missing_signature", w, &unsigned(&ent.ix, ent.auth_idx, r.payer), true, l)?;
        match &ent.class {
            Class::Setting => {
                let right = ent.ix.accounts[ent.auth_idx].pubkey;
                let mut other = ent.ix.clone();
                other.accounts[ent.auth_idx].pubkey = attacker_key;
                mutant("other_key_signing", w, &other, true, l)?;
                let c = &w.configs[r.cfg];
                for (role, k) in [
                    ("fee_authority", c.fee_authority),
                    ("collect_protocol_fees_authority", c.collect_protocol_fees_authority),
                    ("reward_emissions_super_authority", c.reward_emissions_super_authority),
                    ("adaptive_pool_authority", r.af_pool_authority),
                    ("delegated_fee_authority", r.af_delegate),
                ] {
                    if k == right {
                        continue;
                    }
                    let mut x = ent.ix.clone();
                    x.accounts[ent.auth_idx].pubkey = k;
                    mutant(&format!("other_role/{role}"), w, &x, true, l)?;
                }
                // the attacker signs and names, in one slot, an object of the same kind from the sibling universe (where the
                // attacker IS the recorded authority): the call must fail, or leave every program account outside that universe untouched
                for j in 0..ent.ix.accounts.len() {
                    if j == ent.auth_idx {
                        continue;
                    }
                    let Some(orig) = w.bank.accounts.get(&ent.ix.accounts[j].pubkey) else { continue };
                    if orig.owner != WP || orig.data.len() < 8 {
                        continue;
                    }
                    let kind: [u8; 8] = orig.data[..8].try_into().unwrap();
                    for sk in r.sibling.iter() {
                        let Some(sa) = w.bank.accounts.get(sk) else { continue };
                        if sa.owner != WP || sa.data.len() < 8 || sa.data[..8] != kind || *sk == ent.ix.accounts[j].pubkey {
                            continue;
                        }
                        let mut x = ent.ix.clone();
                        x.accounts[j].pubkey = *sk;
                        x.accounts[ent.auth_idx].pubkey = attacker_key;
                        x.accounts[ent.auth_idx].is_signer = true;
                        let mut c = w.clone();
                        let o = c.exec(&x);
                        l.count("mutant/sibling_object_with_its_own_authority");
                        l.nontrivial(hash_of(&(ent.name, "sibling", j, spec_h)));
                        if o.ok() {
                            for (k, before) in w.bank.accounts.iter() {
                                if before.owner != WP || r.sibling.contains(k) {
                                    continue;
                                }
                                if c.bank.accounts.get(k).map(|a| &a.data) != Some(&before.data) {
                                    return Err(format!(
                                        "{}: signed by an outsider who is the authority of a sibling object passed in account slot {j}, the call succeeded and changed account {k} outside the outsider's objects",
                                        ent.name
                                    ));
                                }
                            }
                            // ... nor create a config-level settings object (token badge, fee tier, adaptive fee tier, config extension) under a
                            // config of the victim: those are governed by config-level authorities, none of which the outsider holds
                            for (k, a) in c.bank.accounts.iter() {
                                if a.owner != WP || a.data.len() < 40 || w.bank.accounts.contains_key(k) {
                                    continue;
                                }
                                use anchor_lang::Discriminator;
                                let d8 = &a.data[..8];
                                let config_level = d8 == whirlpool::state::TokenBadge::DISCRIMINATOR
                                    || d8 == whirlpool::state::FeeTier::DISCRIMINATOR
                                    || d8 == whirlpool::state::AdaptiveFeeTier::DISCRIMINATOR
                                    || d8 == whirlpool::state::WhirlpoolsConfigExtension::DISCRIMINATOR;
                                let cfg_key = Pubkey::new_from_array(a.data[8..40].try_into().unwrap());
                                if config_level && w.configs.iter().any(|cf| cf.key == cfg_key) && !r.sibling.contains(&cfg_key) {
                                    return Err(format!(
                                        "{}: signed by an outsider who is the authority of a sibling object passed in account slot {j}, the call created the settings account {k} under the victim's config {cfg_key}",
                                        ent.name
                                    ));
                                }
                            }
                            l.count("sibling_mutant_succeeded_without_touching_the_victim");
                        }
                    }
                }
            }
            Class::Position(_) | Class::Bundle(_) => {
                let (tok_account, tok_program, holder) = match &ent.class {
                    Class::Position(p) => (w.positions[*p].token_account, w.positions[*p].token_program, w.positions[*p].owner),
                    Class::Bundle(b) => (w.bundles[*b].token_account, TOKEN, w.bundles[*b].owner),
                    _ => unreachable!(),
                };
                let holder_key = w.users[holder].key;
                // somebody else signs, bringing their own token accounts
                let as_attacker = substitute_actor(w, &ent.ix, holder, r.attacker);
                mutant("other_key_signing", w, &as_attacker, true, l)?;
                // somebody else signs and brings the token of THEIR OWN position (bundle): right kind of token, wrong object
                {
                    let own_tokens: Vec<Pubkey> = match &ent.class {
                        Class::Position(_) => vec![w.positions[r.att_pos_plain].token_account, w.positions[r.att_pos_te].token_account],
                        _ => vec![w.bundles[r.att_bundle].token_account],
                    };
                    for own in own_tokens {
                        let mut x = as_attacker.clone();
                        let mut replaced = false;
                        for m in x.accounts.iter_mut() {
                            if m.pubkey == tok_account {
                                m.pubkey = own;
                                replaced = true;
                            }
                        }
                        if replaced {
                            mutant("other_key_signing_with_the_token_of_its_own_position", w, &x, true, l)?;
                        }
                    }
                }
                // forged proof of holding: a token-program-owned account of ANOTHER type (Multisig, created by the attacker through the
                // real token program) whose bytes read as a token account holding one token of this position's mint
                {
                    let pmint = match &ent.class {
                        Class::Position(p) => w.positions[*p].mint,
                        Class::Bundle(b) => w.bundles[*b].mint,
                        _ => unreachable!(),
                    };
                    for (pn, prog) in [("token", TOKEN), ("token2022", TOKEN22)] {
                        match forge_multisig(w, prog, &pmint, &attacker_key) {
                            Some((wf, forged)) => {
                                let mut x = as_attacker.clone();
                                let mut replaced = false;
                                for m in x.accounts.iter_mut() {
                                    if m.pubkey == tok_account {
                                        m.pubkey = forged;
                                        replaced = true;
                                    }
                                }
                                if replaced {
                                    mutant(&format!("forged_multisig_read_as_position_token/{pn}"), &wf, &x, true, l)?;
                                }
                            }
                            None => l.count("forged_multisig_not_constructible"),
                        }
                    }
                }
                // forged proof of holding under a FOREIGN owner: an account whose bytes are a perfect token account {position mint, owner =
                // attacker, amount 1, initialized} - anybody can write such bytes into an account of a program of their own.  Owner programs:
                // one that accepts everything, and look-alikes that share the last / first byte with a real token program.
                {
                    let pmint = match &ent.class {
                        Class::Position(p) => w.positions[*p].mint,
                        Class::Bundle(b) => w.bundles[*b].mint,
                        _ => unreachable!(),
                    };
                    let lookalike = |real: &Pubkey, keep_last: bool| {
                        let mut b = [0x42u8; 32];
                        if keep_last {
                            b[31] = real.to_bytes()[31];
                        } else {
                            b[0] = real.to_bytes()[0];
                        }
                        Pubkey::new_from_array(b)
                    };
                    let owners = [
                        ("a program that accepts every instruction", crate::rt::obliging_program()),
                        ("a program whose id ends like Token-2022's", lookalike(&TOKEN22, true)),
                        ("a program whose id ends like the Token program's", lookalike(&TOKEN, true)),
                        ("a program whose id starts like Token-2022's", lookalike(&TOKEN22, false)),
                    ];
                    for (what, owner) in owners {
                        for len in [165usize, 170] {
                            let mut data = vec![0u8; len];
                            data[0..32].copy_from_slice(pmint.as_ref());
                            data[32..64].copy_from_slice(attacker_key.as_ref());
                            data[64..72].copy_from_slice(&1u64.to_le_bytes());
                            data[108] = 1; // AccountState::Initialized
                            if len > 165 {
                                data[165] = 2; // AccountType::Account
                            }
                            let mut wf = w.clone();
                            let forged = Pubkey::new_unique();
                            wf.bank.set(forged, crate::rt::Acct { lamports: 10_000_000, data, owner, executable: false });
                            let mut x = as_attacker.clone();
                            let mut replaced = false;
                            for m in x.accounts.iter_mut() {
                                if m.pubkey == tok_account {
                                    m.pubkey = forged;
                                    replaced = true;
                                }
                            }
                            if replaced {
                                let _ = what;
                                mutant("forged_token_account_under_a_foreign_owner_program", &wf, &x, true, l)?;
                            }
                        }
                    }
                }
                // delegates with amount 0 / 1 / 2, and amounts that are 1 only after a careless narrowing (the approved amount is not bounded by
                // the balance: the token program accepts any u64)
                for n in [0u64, 1, 2, (1 << 8) + 1, (1 << 16) + 1, (1 << 32) + 1, (5 << 32) + 1, (1 << 63) + 1, u64::MAX] {
                    let mut wd = w.clone();
                    if !approve(&mut wd, &tok_program, &tok_account, &attacker_key, &holder_key, n) {
                        l.count("delegate_approval_not_possible(frozen)");
                        continue;
                    }
                    let ok = mutant(&format!("delegate_amount_{n}"), &wd, &as_attacker, n != 1, l)?;
                    if n == 1 {
                        l.count(if ok { "delegate_1_accepted" } else { "delegate_1_refused_for_other_reasons" });
                        if !ok && DELEGATE_POSITIVE.contains(&ent.name) {
                            // positive control of the delegate path: visible in the evidence, not a violation of "only the holder or its delegate"
                            l.count(&format!("POSITIVE_CONTROL_FAILED/delegate_1/{}", ent.name));
                        }
                    }
                }
                // the token moves to another holder: the old holder loses the right, the new one gains it
                let mut wt = w.clone();
                let mint = match &ent.class {
                    Class::Position(p) => w.positions[*p].mint,
                    Class::Bundle(b) => w.bundles[*b].mint,
                    _ => unreachable!(),
                };
                let new_acct = ata_of(&attacker_key, &mint, &tok_program);
                let create = spl_associated_token_account::instruction::create_associated_token_account(&attacker_key, &attacker_key, &mint, &tok_program);
                let moved = wt.bank.process_native(&create).is_ok() && {
                    let t = if tok_program == TOKEN {
                        spl_token::instruction::transfer(&TOKEN, &tok_account, &new_acct, &holder_key, &[], 1).unwrap()
                    } else {
                        #[allow(deprecated)]
                        spl_token_2022::instruction::transfer(&TOKEN22, &tok_account, &new_acct, &holder_key, &[], 1).unwrap()
                    };
                    wt.bank.process_native(&t).is_ok()
                };
                if moved {
                    mutant("old_holder_after_transfer", &wt, &ent.ix, true, l)?;
                    let mut as_new = as_attacker.clone();
                    for m in as_new.accounts.iter_mut() {
                        if m.pubkey == tok_account {
                            m.pubkey = new_acct;
                        }
                    }
                    let ok = mutant("new_holder_after_transfer", &wt, &as_new, false, l)?;
                    l.count(if ok { "new_holder_accepted" } else { "new_holder_refused_for_other_reasons" });
                    if !ok && DELEGATE_POSITIVE.contains(&ent.name) {
                        l.count(&format!("POSITIVE_CONTROL_FAILED/new_holder/{}", ent.name));
                    }
                } else {
                    l.count("token_transfer_not_possible(frozen)");
                }
            }
        }
        l.count("instructions_with_passing_baseline");
    }
    l.sample(|| json!({"world": spec, "instructions": cat.iter().filter(|e| e.auth_idx != usize::MAX).map(|e| e.name).collect::<Vec<_>>()}));
    Ok(())
}

pub fn def() -> CheckDef {
    CheckDef {
        id: "C04",
        rule: "a generated world holding every kind of object (2 configs with extension and token badge, static and adaptive pools over SPL / Token-2022 mints, plain, \
               token-extension, locked, empty and bundled positions, rewards, owed fees); the complete table of privileged instructions (both dispatch paths) is \
               enumerated on every world: baseline call must succeed, then mutants: right key without signature, another key signing with its own token accounts (and with the position / bundle token of its OWN position, and with a forged proof of holding: an SPL Multisig created through the real token program (either one) whose bytes read as a token account with one token of the position's mint), \
               an outsider signing while one program-owned account slot names a sibling object whose recorded authority the outsider is, \
               every other role's authority, delegate approved through the real token program with amount 0 / 1 / 2, position (bundle) token moved to another \
               holder (old holder must fail; new holder and 1-token delegate are positive controls); instructions that need nobody's authority (migrate_repurpose_reward_authority_space, outsiders' swaps, tick-array initialisation, update_fees_and_rewards) on every pool incl. one with non-zero control flags must leave the *settings view* of every program account unchanged; authority rotations (eight set_*_authority instructions): the rotation changes exactly one 32-byte field of one account to the new key, afterwards the old authority is refused for an instruction of that role (the new one accepted: positive control); every program account's settings view (whirlpools without trading state, oracles without variables, all other accounts entirely).  Distinct non-trivial = (instruction, mutant kind, world).",
        assumptions: vec!["nsvm runtime as in DESIGN.md §5", "delegate/new-holder acceptance is only demanded for liquidity and collect instructions (others need the holder for unrelated reasons, e.g. closing the token account)"],
        subs: vec![sub("table", 1600, 4_800, rich_spec_strategy, |c: &RichSpec, l: &mut Local| check_world(c, l))],
    }
}
