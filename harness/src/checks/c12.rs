//! C12 — the Pinocchio fast path and the Anchor implementation agree bit for bit.
use super::c13::{Quad, TickVal, ArrOp};
use crate::gen;
use crate::model::*;
use crate::runner::*;
use anchor_lang::{AccountDeserialize, AccountSerialize};
use proptest::prelude::*;
use serde::{Deserialize, Serialize};
use serde_json::json;
use solana_program::pubkey::Pubkey;
use whirlpool::manager::liquidity_manager as am;
use whirlpool::pinocchio::verif_export as pe;
use whirlpool::pinocchio::verif_export::whirlpool::tick_array::{dynamic_tick_array::MemoryMappedDynamicTickArray, fixed_tick_array::MemoryMappedFixedTickArray, TickArray as PinoTickArray};
use whirlpool::state::{DynamicTickArrayLoader, FixedTickArray, Position, PositionRewardInfo, TickArrayType, Whirlpool, WhirlpoolRewardInfo};

#[derive(Clone, Debug, Serialize, Deserialize, Hash)]
pub struct RewardGen {
    pub initialized: bool,
    #[serde(with = "crate::ser::u128s")]
    pub emissions: u128,
    #[serde(with = "crate::ser::u128s")]
    pub growth: u128,
}

#[derive(Clone, Debug, Serialize, Deserialize, Hash)]
pub struct DiffCase {
    pub tick_spacing: u16,
    pub array_no: i32,
    pub two_arrays: bool,
    pub lower_dynamic: bool,
    pub upper_dynamic: bool,
    pub lower_slot: u8,
    pub upper_slot: u8,
    pub lower_tick: Option<TickVal>,
    pub upper_tick: Option<TickVal>,
    pub other_ticks: Vec<(u8, TickVal)>,
    /// 1..=3: every other slot of both / the lower / the upper array is initialized first (arrays with 86..88 initialized ticks, the
    /// dynamic encoding at its full length)
    #[serde(default)]
    pub fill: u8,
    // pool
    #[serde(with = "crate::ser::u128s")]
    pub pool_liquidity: u128,
    /// current tick relative to the position: slot units from the lower array's start
    pub current_slot: i16,
    pub current_skew: i8,
    #[serde(with = "crate::ser::u128s")]
    pub fee_growth_a: u128,
    #[serde(with = "crate::ser::u128s")]
    pub fee_growth_b: u128,
    pub rewards: [RewardGen; 3],
    pub last_updated: u64,
    pub timestamp: u64,
    // position
    #[serde(with = "crate::ser::u128s")]
    pub pos_liquidity: u128,
    #[serde(with = "crate::ser::u128s")]
    pub cp_a: u128,
    #[serde(with = "crate::ser::u128s")]
    pub cp_b: u128,
    pub owed_a: u64,
    pub owed_b: u64,
    pub pos_rewards: [(u64, u64); 3],
    #[serde(with = "crate::ser::i128s")]
    pub liquidity_delta: i128,
}

fn anchor_code(e: anchor_lang::error::Error) -> u64 {
    let pe: solana_program::program_error::ProgramError = e.into();
    pe.into()
}

fn with_anchor_array<R>(buf: &mut [u8], dynamic: bool, f: impl FnOnce(&mut dyn TickArrayType) -> R) -> R {
    if dynamic {
        f(DynamicTickArrayLoader::load_mut(&mut buf[8..]))
    } else {
        let t: &mut FixedTickArray = bytemuck::from_bytes_mut(&mut buf[8..]);
        f(t)
    }
}
fn pino_array(buf: &mut [u8], dynamic: bool) -> &mut dyn PinoTickArray {
    unsafe {
        if dynamic {
            &mut *(buf.as_mut_ptr() as *mut MemoryMappedDynamicTickArray)
        } else {
            &mut *(buf.as_mut_ptr() as *mut MemoryMappedFixedTickArray)
        }
    }
}

pub fn check_case(c: &DiffCase, l: &mut Local) -> Result<(), String> {
    let ts = c.tick_spacing;
    let tsi = ts as i32;
    let n = 88 * tsi;
    let start_lo = super::c13::start_of(ts, c.array_no);
    let start_hi = if c.two_arrays { start_lo + n * (1 + (c.upper_slot as i32 % 3)) } else { start_lo };
    let (ls, us) = (c.lower_slot as i32 % 88, c.upper_slot as i32 % 88);
    let lower_tick_index = start_lo + ls * tsi;
    let upper_tick_index = start_hi + us * tsi;
    if lower_tick_index >= upper_tick_index || lower_tick_index < MIN_TICK || upper_tick_index > MAX_TICK {
        l.count("generator_skipped_invalid_range");
        return Ok(());
    }
    // tick arrays through the C13 quad builder (Anchor and Pinocchio encodings start byte-equal)
    let mut qlo = Quad::new(ts, start_lo);
    let mut qhi = Quad::new(ts, start_hi);
    let mut scratch = Local::default();
    if c.fill % 4 != 0 {
        let val = |k: i16| TickVal { net: -(k as i128) * 1_000_003, gross: (k as u128 + 1) << 70, fa: u128::MAX - k as u128, fb: k as u128, r: [k as u64, u64::MAX, u64::MAX - k as u64] };
        for k in 0..88i16 {
            if matches!(c.fill % 4, 1 | 2) && k as i32 != ls && (c.two_arrays || k as i32 != us) {
                qlo.apply(&ArrOp::Set { slot: k, skew: 0, val: val(k) }, &mut scratch)?;
            }
            if c.two_arrays && matches!(c.fill % 4, 1 | 3) && k as i32 != us {
                qhi.apply(&ArrOp::Set { slot: k, skew: 0, val: val(87 - k) }, &mut scratch)?;
            }
        }
        l.count("arrays_filled_before_the_update");
    }
    for (s, v) in &c.other_ticks {
        let q = if c.two_arrays && s % 2 == 1 { &mut qhi } else { &mut qlo };
        q.apply(&ArrOp::Set { slot: (*s % 88) as i16, skew: 0, val: v.clone() }, &mut scratch)?;
    }
    match &c.lower_tick {
        Some(v) => qlo.apply(&ArrOp::Set { slot: ls as i16, skew: 0, val: v.clone() }, &mut scratch)?,
        None => qlo.apply(&ArrOp::Deinit { slot: ls as i16, skew: 0 }, &mut scratch)?,
    }
    {
        let q = if c.two_arrays { &mut qhi } else { &mut qlo };
        match &c.upper_tick {
            Some(v) => q.apply(&ArrOp::Set { slot: us as i16, skew: 0, val: v.clone() }, &mut scratch)?,
            None => q.apply(&ArrOp::Deinit { slot: us as i16, skew: 0 }, &mut scratch)?,
        }
    }
    let (mut a_lo, mut p_lo) = if c.lower_dynamic { (qlo.ad.clone(), qlo.pd.clone()) } else { (qlo.af.clone(), qlo.pf.clone()) };
    let up_dyn = if c.two_arrays { c.upper_dynamic } else { c.lower_dynamic };
    let (mut a_hi, mut p_hi) = if up_dyn { (qhi.ad.clone(), qhi.pd.clone()) } else { (qhi.af.clone(), qhi.pf.clone()) };
    // pool
    let pool_key = Pubkey::new_from_array([7u8; 32]);
    let cur_tick = (start_lo + c.current_slot as i32 * tsi + c.current_skew as i32).clamp(MIN_TICK, MAX_TICK);
    let mut wp = Whirlpool::default();
    wp.tick_spacing = ts;
    // regular pools: the fee-tier index equals the tick spacing; adaptive-fee pools (one case in three): it never does
    wp.fee_tier_index_seed = if c.pool_liquidity % 3 == 0 { (ts ^ 0x0401).to_le_bytes() } else { ts.to_le_bytes() };
    wp.whirlpools_config = Pubkey::new_from_array([0x11; 32]);
    wp.whirlpool_bump = [0xfd];
    wp.token_mint_a = Pubkey::new_from_array([0x22; 32]);
    wp.token_vault_a = Pubkey::new_from_array([0x33; 32]);
    wp.token_mint_b = Pubkey::new_from_array([0x44; 32]);
    wp.token_vault_b = Pubkey::new_from_array([0x55; 32]);
    wp.liquidity = c.pool_liquidity;
    wp.tick_current_index = cur_tick;
    wp.sqrt_price = whirlpool::math::sqrt_price_from_tick_index(cur_tick);
    wp.fee_growth_global_a = c.fee_growth_a;
    wp.fee_growth_global_b = c.fee_growth_b;
    wp.reward_last_updated_timestamp = c.last_updated;
    wp.fee_rate = 3000;
    wp.protocol_fee_rate = 300;
    for i in 0..3 {
        wp.reward_infos[i] = WhirlpoolRewardInfo {
            mint: if c.rewards[i].initialized { Pubkey::new_from_array([i as u8 + 1; 32]) } else { Pubkey::default() },
            vault: Pubkey::new_from_array([i as u8 + 11; 32]),
            extension: [i as u8; 32],
            emissions_per_second_x64: c.rewards[i].emissions,
            growth_global_x64: c.rewards[i].growth,
        };
    }
    let mut wp_bytes = vec![];
    wp.try_serialize(&mut wp_bytes).map_err(|e| format!("serialize pool: {e:?}"))?;
    let mut pos = Position::default();
    pos.whirlpool = pool_key;
    pos.position_mint = Pubkey::new_from_array([9u8; 32]);
    pos.liquidity = c.pos_liquidity;
    pos.tick_lower_index = lower_tick_index;
    pos.tick_upper_index = upper_tick_index;
    pos.fee_growth_checkpoint_a = c.cp_a;
    pos.fee_growth_checkpoint_b = c.cp_b;
    pos.fee_owed_a = c.owed_a;
    pos.fee_owed_b = c.owed_b;
    for i in 0..3 {
        pos.reward_infos[i] = PositionRewardInfo { growth_inside_checkpoint: (c.pos_rewards[i].0 as u128) << 40, amount_owed: c.pos_rewards[i].1 };
    }
    let mut pos_bytes = vec![];
    pos.try_serialize(&mut pos_bytes).map_err(|e| format!("serialize position: {e:?}"))?;
    if wp_bytes.len() != 653 || pos_bytes.len() != 216 {
        return Err(format!("account sizes {} / {}", wp_bytes.len(), pos_bytes.len()));
    }
    let mut p_wp = wp_bytes.clone();
    let mut p_pos = pos_bytes.clone();
    // ---- accessors: every Pinocchio view field equals the Anchor-deserialized field
    {
        let v = unsafe { &*(p_wp.as_ptr() as *const pe::whirlpool::MemoryMappedWhirlpool) };
        let a = Whirlpool::try_deserialize(&mut &wp_bytes[..]).map_err(|e| format!("{e:?}"))?;
        let same = v.tick_spacing() == a.tick_spacing
            && v.liquidity() == a.liquidity
            && v.sqrt_price() == a.sqrt_price
            && v.tick_current_index() == a.tick_current_index
            && v.fee_growth_global_a() == a.fee_growth_global_a
            && v.fee_growth_global_b() == a.fee_growth_global_b
            && v.reward_last_updated_timestamp() == a.reward_last_updated_timestamp
            && v.token_mint_a() == &a.token_mint_a.to_bytes()
            && v.token_mint_b() == &a.token_mint_b.to_bytes()
            && v.token_vault_a() == &a.token_vault_a.to_bytes()
            && v.token_vault_b() == &a.token_vault_b.to_bytes()
            // the PDA signer seeds the vault-to-owner transfers are signed with
            && v.seeds().iter().zip(a.seeds().iter()).all(|(x, y)| { let xs: &[u8] = x; xs == *y })
            && (0..3).all(|i| {
                let r = &v.reward_infos()[i];
                r.mint() == &a.reward_infos[i].mint.to_bytes()
                    && r.vault() == &a.reward_infos[i].vault.to_bytes()
                    && r.emissions_per_second_x64() == a.reward_infos[i].emissions_per_second_x64
                    && r.growth_global_x64() == a.reward_infos[i].growth_global_x64
                    && r.initialized() == a.reward_infos[i].initialized()
            });
        if !same {
            return Err("a Pinocchio whirlpool accessor reads a different value than the Anchor account type".into());
        }
        let pv = unsafe { &*(p_pos.as_ptr() as *const pe::whirlpool::MemoryMappedPosition) };
        let same = pv.liquidity() == pos.liquidity
            && pv.tick_lower_index() == pos.tick_lower_index
            && pv.tick_upper_index() == pos.tick_upper_index
            && pv.fee_growth_checkpoint_a() == pos.fee_growth_checkpoint_a
            && pv.fee_owed_a() == pos.fee_owed_a
            && pv.fee_growth_checkpoint_b() == pos.fee_growth_checkpoint_b
            && pv.fee_owed_b() == pos.fee_owed_b
            && pv.whirlpool() == &pos.whirlpool.to_bytes()
            && pv.position_mint() == &pos.position_mint.to_bytes()
            && (0..3).all(|i| pv.reward_infos()[i].growth_inside_checkpoint() == pos.reward_infos[i].growth_inside_checkpoint && pv.reward_infos()[i].amount_owed() == pos.reward_infos[i].amount_owed);
        if !same {
            return Err("a Pinocchio position accessor reads a different value than the Anchor account type".into());
        }
    }
    // ---- token deltas
    if c.liquidity_delta != 0 {
        let ad = am::calculate_liquidity_token_deltas(wp.tick_current_index, wp.sqrt_price, &pos, c.liquidity_delta).map_err(anchor_code);
        let pv = unsafe { &*(p_pos.as_ptr() as *const pe::whirlpool::MemoryMappedPosition) };
        let pd = pe::manager_liquidity_manager::pino_calculate_liquidity_token_deltas(wp.tick_current_index, wp.sqrt_price, pv, c.liquidity_delta).map_err(u64::from);
        if ad != pd {
            return Err(format!("token deltas differ: anchor {ad:?} pinocchio {pd:?}"));
        }
    }
    // ---- the modify-liquidity computation and its write-back
    let same_array = !c.two_arrays;
    let a_res: Result<am::ModifyLiquidityUpdate, u64> = {
        let r = if same_array {
            with_anchor_array(&mut a_lo, c.lower_dynamic, |t| am::calculate_modify_liquidity(&wp, &pos, t, t, c.liquidity_delta, c.timestamp))
        } else {
            with_anchor_array(&mut a_lo, c.lower_dynamic, |tl| with_anchor_array(&mut a_hi, up_dyn, |tu| am::calculate_modify_liquidity(&wp, &pos, tl, tu, c.liquidity_delta, c.timestamp)))
        };
        r.map_err(anchor_code)
    };
    let p_res = {
        let wv = unsafe { &*(p_wp.as_ptr() as *const pe::whirlpool::MemoryMappedWhirlpool) };
        let pv = unsafe { &*(p_pos.as_ptr() as *const pe::whirlpool::MemoryMappedPosition) };
        let r = if same_array {
            let t = pino_array(&mut p_lo, c.lower_dynamic);
            pe::manager_liquidity_manager::pino_calculate_modify_liquidity(wv, pv, t, t, c.liquidity_delta, c.timestamp)
        } else {
            let tl = pino_array(&mut p_lo, c.lower_dynamic);
            let tu = pino_array(&mut p_hi, up_dyn);
            pe::manager_liquidity_manager::pino_calculate_modify_liquidity(wv, pv, tl, tu, c.liquidity_delta, c.timestamp)
        };
        r.map_err(u64::from)
    };
    match (&a_res, &p_res) {
        (Err(a), Err(p)) => {
            if a != p {
                return Err(format!("both reject but with different errors: anchor {a} pinocchio {p}"));
            }
            l.count(&format!("both_err/{a}"));
            return Ok(());
        }
        (Ok(_), Err(p)) => return Err(format!("anchor accepts, pinocchio rejects with {p}")),
        (Err(a), Ok(_)) => return Err(format!("pinocchio accepts, anchor rejects with {a}")),
        _ => {}
    }
    let (au, pu) = (a_res.unwrap(), p_res.unwrap());
    let tick_eq = |a: &whirlpool::state::TickUpdate, p: &pe::whirlpool::tick_array::TickUpdate| {
        a.initialized == p.initialized
            && a.liquidity_net == p.liquidity_net
            && a.liquidity_gross == p.liquidity_gross
            && a.fee_growth_outside_a == p.fee_growth_outside_a
            && a.fee_growth_outside_b == p.fee_growth_outside_b
            && a.reward_growths_outside == p.reward_growths_outside
    };
    let mut diffs: Vec<String> = vec![];
    if au.whirlpool_liquidity != pu.whirlpool_liquidity {
        diffs.push(format!("pool liquidity {} vs {}", au.whirlpool_liquidity, pu.whirlpool_liquidity));
    }
    if !tick_eq(&au.tick_lower_update, &pu.tick_lower_update) {
        diffs.push(format!("lower tick update {:?} vs (init {} net {} gross {} fa {} fb {} r {:?})", au.tick_lower_update, pu.tick_lower_update.initialized, pu.tick_lower_update.liquidity_net, pu.tick_lower_update.liquidity_gross, pu.tick_lower_update.fee_growth_outside_a, pu.tick_lower_update.fee_growth_outside_b, pu.tick_lower_update.reward_growths_outside));
    }
    if !tick_eq(&au.tick_upper_update, &pu.tick_upper_update) {
        diffs.push(format!("upper tick update {:?} vs (init {} net {} gross {} fa {} fb {} r {:?})", au.tick_upper_update, pu.tick_upper_update.initialized, pu.tick_upper_update.liquidity_net, pu.tick_upper_update.liquidity_gross, pu.tick_upper_update.fee_growth_outside_a, pu.tick_upper_update.fee_growth_outside_b, pu.tick_upper_update.reward_growths_outside));
    }
    if au.position_update != pu.position_update {
        diffs.push(format!("position update {:?} vs {:?}", au.position_update, pu.position_update));
    }
    for i in 0..3 {
        if au.reward_infos[i].growth_global_x64 != pu.next_reward_growth_global[i] {
            diffs.push(format!("reward {i} growth {} vs {}", au.reward_infos[i].growth_global_x64, pu.next_reward_growth_global[i]));
        }
    }
    if format!("{:?}", au.tick_array_lower_update) != format!("{:?}", pu.tick_array_lower_update) || format!("{:?}", au.tick_array_upper_update) != format!("{:?}", pu.tick_array_upper_update) {
        diffs.push(format!("tick array updates {:?}/{:?} vs {:?}/{:?}", au.tick_array_lower_update, au.tick_array_upper_update, pu.tick_array_lower_update, pu.tick_array_upper_update));
    }
    if !diffs.is_empty() {
        return Err(format!("computed updates differ (anchor vs pinocchio): {}", diffs.join("; ")));
    }
    // write-back through both paths
    let mut a_wp = wp.clone();
    let mut a_pos = pos.clone();
    let ra = if same_array {
        with_anchor_array(&mut a_lo, c.lower_dynamic, |t| am::sync_modify_liquidity_values(&mut a_wp, &mut a_pos, t, None, &au, c.timestamp))
    } else {
        with_anchor_array(&mut a_lo, c.lower_dynamic, |tl| with_anchor_array(&mut a_hi, up_dyn, |tu| am::sync_modify_liquidity_values(&mut a_wp, &mut a_pos, tl, Some(tu), &au, c.timestamp)))
    }
    .map_err(anchor_code);
    let rp = {
        let wv = unsafe { &mut *(p_wp.as_mut_ptr() as *mut pe::whirlpool::MemoryMappedWhirlpool) };
        let pv = unsafe { &mut *(p_pos.as_mut_ptr() as *mut pe::whirlpool::MemoryMappedPosition) };
        if same_array {
            let t = pino_array(&mut p_lo, c.lower_dynamic);
            pe::manager_liquidity_manager::pino_sync_modify_liquidity_values(wv, pv, t, None, &pu, c.timestamp)
        } else {
            let tl = pino_array(&mut p_lo, c.lower_dynamic);
            let tu = pino_array(&mut p_hi, up_dyn);
            pe::manager_liquidity_manager::pino_sync_modify_liquidity_values(wv, pv, tl, Some(tu), &pu, c.timestamp)
        }
    }
    .map_err(u64::from);
    if ra != rp {
        return Err(format!("write-back results differ: anchor {ra:?} pinocchio {rp:?}"));
    }
    if ra.is_ok() {
        let mut a_wp_bytes = vec![];
        a_wp.try_serialize(&mut a_wp_bytes).map_err(|e| format!("{e:?}"))?;
        let mut a_pos_bytes = vec![];
        a_pos.try_serialize(&mut a_pos_bytes).map_err(|e| format!("{e:?}"))?;
        if a_wp_bytes != p_wp {
            let at = a_wp_bytes.iter().zip(p_wp.iter()).position(|(x, y)| x != y);
            return Err(format!("whirlpool bytes differ after the update at byte {at:?}"));
        }
        if a_pos_bytes != p_pos {
            let at = a_pos_bytes.iter().zip(p_pos.iter()).position(|(x, y)| x != y);
            return Err(format!("position bytes differ after the update at byte {at:?}"));
        }
        // tick arrays: compare the used part (dynamic buffers carry slack beyond the encoding)
        for (name, a, p) in [("lower", &a_lo, &p_lo), ("upper", &a_hi, &p_hi)] {
            let used = crate::decode::tick_array(&a[..]).map(|d| d.used_len).unwrap_or(a.len()).min(a.len());
            if a[..used] != p[..used] {
                let at = a.iter().zip(p.iter()).position(|(x, y)| x != y);
                return Err(format!("{name} tick array bytes differ after the update at byte {at:?}"));
            }
            let (da, dp) = (crate::decode::tick_array(&a[..]), crate::decode::tick_array(&p[..]));
            if da != dp {
                return Err(format!("{name} tick array decodes differently after the update"));
            }
        }
    }
    // ---- fee / reward only path
    {
        let (mut a_lo2, mut p_lo2, mut a_hi2, mut p_hi2) = (a_lo.clone(), p_lo.clone(), a_hi.clone(), p_hi.clone());
        let ra = if same_array {
            with_anchor_array(&mut a_lo2, c.lower_dynamic, |t| am::calculate_fee_and_reward_growths(&a_wp, &a_pos, t, t, c.timestamp.saturating_add(7)))
        } else {
            with_anchor_array(&mut a_lo2, c.lower_dynamic, |tl| with_anchor_array(&mut a_hi2, up_dyn, |tu| am::calculate_fee_and_reward_growths(&a_wp, &a_pos, tl, tu, c.timestamp.saturating_add(7))))
        }
        .map_err(anchor_code);
        let wv = unsafe { &*(p_wp.as_ptr() as *const pe::whirlpool::MemoryMappedWhirlpool) };
        let pv = unsafe { &*(p_pos.as_ptr() as *const pe::whirlpool::MemoryMappedPosition) };
        let rp = if same_array {
            let t = pino_array(&mut p_lo2, c.lower_dynamic);
            pe::manager_liquidity_manager::pino_calculate_fee_and_reward_growths(wv, pv, t, t, c.timestamp.saturating_add(7))
        } else {
            let tl = pino_array(&mut p_lo2, c.lower_dynamic);
            let tu = pino_array(&mut p_hi2, up_dyn);
            pe::manager_liquidity_manager::pino_calculate_fee_and_reward_growths(wv, pv, tl, tu, c.timestamp.saturating_add(7))
        }
        .map_err(u64::from);
        match (ra, rp) {
            (Ok((ap, ar)), Ok((pp, pr))) => {
                if ap != pp || (0..3).any(|i| ar[i].growth_global_x64 != pr[i]) {
                    return Err("fee/reward-only path: results differ".into());
                }
            }
            (Err(a), Err(p)) if a == p => {}
            (a, p) => return Err(format!("fee/reward-only path: anchor {:?} pinocchio {:?}", a.map(|_| ()), p.map(|_| ()))),
        }
    }
    let (li, ui) = (au.tick_lower_update.initialized != c.lower_tick.is_some(), au.tick_upper_update.initialized != c.upper_tick.is_some());
    l.count("both_ok");
    if c.liquidity_delta != 0 && (li || ui) {
        l.count("both_ok_with_tick_(de)initialised");
        l.nontrivial(hash_of(c));
        l.sample(|| json!({"tick_spacing": ts, "two_arrays": c.two_arrays, "lower_dynamic": c.lower_dynamic, "upper_dynamic": up_dyn, "liquidity_delta": c.liquidity_delta.to_string(), "pos_liquidity": c.pos_liquidity.to_string()}));
    }
    Ok(())
}

fn tickval() -> BoxedStrategy<TickVal> {
    (gen::bits_u128(100), any::<bool>(), gen::bits_u128(100), any::<u128>(), any::<u128>(), any::<[u64; 3]>())
        .prop_map(|(gross, neg, netm, fa, fb, r)| TickVal { net: if neg { -(netm.min(gross) as i128) } else { netm.min(gross) as i128 }, gross: gross.max(1), fa, fb, r })
        .boxed()
}

fn case_strategy() -> BoxedStrategy<DiffCase> {
    let reward = (any::<bool>(), prop_oneof![1 => Just(0u128), 3 => gen::bits_u128(100), 1 => any::<u128>()], any::<u128>()).prop_map(|(initialized, emissions, growth)| {
        // an uninitialized reward can hold neither emissions nor growth (set_reward_emissions needs the reward's vault)
        if initialized { RewardGen { initialized, emissions, growth } } else { RewardGen { initialized, emissions: 0, growth: 0 } }
    });
    let part1 = (
        prop::sample::select(vec![1u16, 2, 64, 128, 32768]),
        any::<bool>(),
        any::<bool>(),
        any::<bool>(),
        0u8..88,
        0u8..88,
        prop::option::weighted(0.6, tickval()),
        prop::option::weighted(0.6, tickval()),
        prop::collection::vec((0u8..88, tickval()), 0..4),
        prop_oneof![29 => Just(0u8), 1 => 1u8..=3],
    );
    let part2 = (
        gen::bits_u128(128),
        -2i16..180,
        -1i8..=1,
        any::<u128>(),
        any::<u128>(),
        [reward.clone(), reward.clone(), reward],
        prop_oneof![1 => Just(0u64), 3 => 1_600_000_000u64..1_800_000_000],
        prop_oneof![4 => 1_600_000_000u64..1_800_000_000, 1 => any::<u64>()],
    );
    let part3 = (gen::bits_u128(128), any::<u128>(), any::<u128>(), any::<u64>(), any::<u64>(), any::<[(u64, u64); 3]>(), prop_oneof![1 => Just(0i128), 3 => gen::bits_u128(110).prop_map(|x| x as i128), 3 => gen::bits_u128(110).prop_map(|x| -(x as i128)), 1 => any::<i128>(), 2 => Just(i128::MIN + 1)]);
    (part1, part2, part3, any::<bool>())
        .prop_flat_map(|(p1, p2, p3, exact)| {
            let ts = p1.0;
            let n = 88 * ts as i32;
            let (min_no, max_no) = (MIN_TICK.div_euclid(n), MAX_TICK.div_euclid(n));
            (Just((p1, p2, p3, exact)), prop_oneof![3 => min_no..=max_no, 1 => Just(min_no), 3 => -1i32..=0])
        })
        .prop_map(|((p1, p2, p3, exact), array_no)| {
            let (tick_spacing, two_arrays, lower_dynamic, upper_dynamic, lower_slot, upper_slot, lower_tick, upper_tick, other_ticks, fill) = p1;
            let (pool_liquidity, current_slot, current_skew, fee_growth_a, fee_growth_b, rewards, last_updated, timestamp) = p2;
            let (pos_liquidity, cp_a, cp_b, owed_a, owed_b, pos_rewards, mut liquidity_delta) = p3;
            let (mut lower_slot, mut upper_slot, mut lower_tick, mut upper_tick, mut timestamp) = (lower_slot, upper_slot, lower_tick, upper_tick, timestamp);
            // a valid range by construction
            if !two_arrays {
                if lower_slot == upper_slot {
                    upper_slot = (lower_slot + 1) % 88;
                }
                if lower_slot > upper_slot {
                    std::mem::swap(&mut lower_slot, &mut upper_slot);
                }
            }
            // mostly reachable magnitudes: bound ticks carry at least the position's liquidity, removals do not exceed it,
            // the clock is not behind (the remaining cases exercise the error paths)
            let sel = (cp_a as u8) % 8;
            if sel != 0 {
                if let Some(t) = lower_tick.as_mut() {
                    t.gross = t.gross.max(pos_liquidity);
                }
                if let Some(t) = upper_tick.as_mut() {
                    t.gross = t.gross.max(pos_liquidity);
                }
                if liquidity_delta < 0 && liquidity_delta.unsigned_abs() > pos_liquidity {
                    liquidity_delta = -((liquidity_delta.unsigned_abs() % (pos_liquidity + 1)) as i128);
                }
                if lower_tick.is_none() || upper_tick.is_none() {
                    // a position with liquidity has initialized bounds
                }
                timestamp = timestamp.max(last_updated);
            }
            // frequently remove exactly the position's liquidity (de-initialises ticks when gross matches)
            if exact && pos_liquidity <= i128::MAX as u128 {
                liquidity_delta = -(pos_liquidity as i128);
            }
            DiffCase {
                tick_spacing,
                array_no,
                two_arrays,
                lower_dynamic,
                upper_dynamic,
                lower_slot,
                upper_slot,
                lower_tick,
                upper_tick,
                other_ticks,
                fill,
                pool_liquidity,
                current_slot,
                current_skew,
                fee_growth_a,
                fee_growth_b,
                rewards,
                last_updated,
                timestamp,
                pos_liquidity,
                cp_a,
                cp_b,
                owed_a,
                owed_b,
                pos_rewards,
                liquidity_delta,
            }
        })
        .boxed()
}

pub fn def() -> CheckDef {
    CheckDef {
        id: "C12",
        rule: "differential testing at function level on raw account bytes: generated whirlpool (653 B), position (216 B) and fixed / dynamic tick-array accounts with \
               arbitrary numeric fields and valid structural fields, any i128 liquidity delta and any timestamp; Anchor: deserialize -> calculate_modify_liquidity -> \
               sync_modify_liquidity_values -> serialize; Pinocchio: the ported functions in place on a copy of the same bytes.  Must agree on Ok/Err and the error \
               number, all update-struct fields, resulting bytes of all four accounts, token deltas, the fee/reward-only path; every Pinocchio accessor must read the \
               Anchor-deserialized value.  The usable-tick lookup is compared in C13.  Non-trivial = both Ok, delta != 0 and a tick (de)initialised.  The six routed \
               discriminators are exercised at instruction level by C01/C04/C05/C15.",
        assumptions: vec!["H1 re-export hook (required)", "structural fields stay inside what the program can write (usable ticks inside the supplied arrays, well-formed dynamic encoding)"],
        subs: vec![sub("modify_liquidity", 4_000_000, 200_000_000, case_strategy, |c: &DiffCase, l: &mut Local| check_case(c, l))],
    }
}
