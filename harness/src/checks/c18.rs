//! C18 — positions are opened, closed, re-ranged, locked and bundled only consistently.
use crate::decode;
use crate::gen;
use crate::model::*;
use crate::runner::*;
use crate::world::*;
use proptest::prelude::*;
use serde::{Deserialize, Serialize};
use serde_json::json;
use std::collections::BTreeSet;
use solana_program::pubkey::Pubkey;
use whirlpool::math::sqrt_price_from_tick_index;

#[derive(Clone, Debug, Serialize, Deserialize, Hash, PartialEq, Eq)]
pub enum TickSel {
    /// usable tick: units of tick spacing relative to the grid point at/below the start tick
    Rel(i32),
    /// arbitrary tick (mostly not a multiple of the spacing / out of bounds)
    Raw(i32),
    FullLower,
    FullUpper,
    /// derive this bound from the price (i32::MIN for lower, i32::MAX for upper)
    Sentinel,
}

#[derive(Clone, Debug, Serialize, Deserialize, Hash, PartialEq, Eq)]
pub enum LifeOp {
    Open { user: u8, kind: PosKind, lower: TickSel, upper: TickSel },
    InitBundle { user: u8 },
    OpenBundled { bundle: u8, index: u16, lower: TickSel, upper: TickSel },
    DeleteBundle { bundle: u8 },
    /// open every index of the bundle that is not open yet (full-range positions), except `skip`, then try to delete the bundle: expands
    /// into the single ops above, so the same model decides every step (a bundle with all 256 positions open is not deletable)
    FillBundle { bundle: u8, skip: Option<u16> },
    /// one position's whole round trip: deposit, let rewards and fees accrue, withdraw everything, collect everything, stop (or not) the
    /// reward, then re-range the empty position - expands into the single ops
    RoundTrip { pos: u16, stop_reward: bool, lower: i32, upper: i32 },
    Increase { pos: u16, #[serde(with = "crate::ser::u128s")] liquidity: u128 },
    Decrease {
        pos: u16,
        all: bool,
        /// signed by the position token's approved delegate (when there is one) instead of the owner
        #[serde(default)]
        by_delegate: bool,
    },
    /// the owner approves another user (or itself) as delegate of the position token, amount 1 (token program Approve)
    Approve { pos: u16, to: u8 },
    CollectFees { pos: u16 },
    CollectReward { pos: u16 },
    UpdateFees { pos: u16 },
    Swap { a_to_b: bool, amount: u64 },
    AdvanceClock(u16),
    /// the reward authority stops (true) or restarts (false) the emissions of the pool's reward: a stopped reward keeps its growth, and
    /// positions keep checkpoints against it
    SetEmissions { stop: bool },
    Close { pos: u16 },
    Reset { pos: u16, lower: TickSel, upper: TickSel },
    Reposition {
        pos: u16,
        lower: TickSel,
        upper: TickSel,
        #[serde(default)]
        by_delegate: bool,
    },
    Lock { pos: u16 },
    TransferLocked { pos: u16 },
}

#[derive(Clone, Debug, Serialize, Deserialize, Hash)]
pub struct LifeCase {
    pub tick_spacing: u16,
    pub start_tick: i32,
    pub start_price_offset: i8,
    pub dynamic_mask: u8,
    pub ops: Vec<LifeOp>,
}

struct PState {
    locked: bool,
    closed: bool,
}

struct Life {
    w: World,
    pool: usize,
    users: Vec<usize>,
    trader: usize,
    ts: u16,
    base_unit: i32,
    st: Vec<PState>,
    bundle_open: Vec<BTreeSet<u16>>,
    bundle_deleted: Vec<bool>,
    arrays: BTreeSet<i32>,
    dyn_mask: u8,
}

impl Life {
    /// the delegate recorded in the position's token account (delegated amount 1), read from the account bytes
    fn delegate_of(&self, p: usize) -> Option<Pubkey> {
        let d = self.w.bank.get(&self.w.positions[p].token_account).data;
        if d.len() < 165 || d[72..76] != [1, 0, 0, 0] || d[121..129] != 1u64.to_le_bytes() {
            return None;
        }
        Some(Pubkey::new_from_array(d[76..108].try_into().unwrap()))
    }

    /// the position authority of `ix` becomes `who` (a signer) in place of the owner
    fn sign_as(&self, ix: &mut solana_program::instruction::Instruction, p: usize, who: Pubkey) {
        let owner = self.w.users[self.w.positions[p].owner].key;
        for m in ix.accounts.iter_mut() {
            if m.pubkey == owner && m.is_signer {
                m.pubkey = who;
            }
        }
    }

    fn tick(&self, s: &TickSel, is_lower: bool) -> i32 {
        let tsi = self.ts as i32;
        match s {
            TickSel::Rel(u) => ((self.base_unit + u) * tsi).clamp(MIN_TICK / tsi * tsi, MAX_TICK / tsi * tsi),
            TickSel::Raw(t) => *t,
            TickSel::FullLower => MIN_TICK / tsi * tsi,
            TickSel::FullUpper => MAX_TICK / tsi * tsi,
            TickSel::Sentinel => {
                if is_lower {
                    i32::MIN
                } else {
                    i32::MAX
                }
            }
        }
    }

    /// the model's own statement of which range an open with these arguments gets (None = must be rejected)
    fn expected_range(&self, lower: i32, upper: i32) -> Option<(i32, i32)> {
        let tsi = self.ts as i32;
        let st = self.w.pool_state(self.pool);
        let full_only = self.ts >= 32768;
        let (mut lo, mut hi) = (lower, upper);
        if !full_only {
            if lower == i32::MIN && upper == i32::MAX {
                return None;
            }
            if lower == i32::MIN {
                // nearest usable tick whose price is >= the current price: the position is entirely above the price
                let mut t = floor_div(st.tick_current_index.max(MIN_TICK), tsi) * tsi - 2 * tsi;
                t = t.max(MIN_TICK / tsi * tsi);
                loop {
                    if t > MAX_TICK {
                        return None;
                    }
                    if sqrt_price_from_tick_index(t) >= st.sqrt_price {
                        break;
                    }
                    t += tsi;
                }
                lo = t;
            }
            if upper == i32::MAX {
                // nearest usable tick whose price is <= the current price: the position is entirely below the price
                let mut t = floor_div(st.tick_current_index.min(MAX_TICK), tsi) * tsi + 2 * tsi;
                t = t.min(MAX_TICK / tsi * tsi);
                loop {
                    if t < MIN_TICK {
                        return None;
                    }
                    if sqrt_price_from_tick_index(t) <= st.sqrt_price {
                        break;
                    }
                    t -= tsi;
                }
                hi = t;
            }
        }
        let usable = |t: i32| (MIN_TICK..=MAX_TICK).contains(&t) && t % tsi == 0;
        if !usable(lo) || !usable(hi) || lo >= hi {
            return None;
        }
        if full_only && (lo != MIN_TICK / tsi * tsi || hi != MAX_TICK / tsi * tsi) {
            return None;
        }
        Some((lo, hi))
    }

    fn ensure_array(&mut self, tick: i32) {
        let start = array_start(tick, self.ts);
        if self.arrays.contains(&start) {
            return;
        }
        let dynamic = (self.dyn_mask >> (crate::runner::fnv(&start.to_le_bytes()) % 8)) & 1 == 1;
        if self.w.ensure_tick_array(self.pool, tick, dynamic) {
            self.arrays.insert(start);
        }
    }

    fn open_idx(&self) -> Vec<usize> {
        (0..self.st.len()).filter(|i| !self.st[*i].closed).collect()
    }
}

fn pick(i: u16, len: usize) -> usize {
    ((i as usize) * len) >> 16
}

pub fn check_case(c: &LifeCase, l: &mut Local) -> Result<(), String> {
    let mut w = World::new(1_700_000_000);
    let cfg = w.init_config(300);
    let ix = w.ix_init_fee_tier(cfg, c.tick_spacing, 3000);
    w.must("fee tier", &ix);
    let (m1, m2) = (w.create_spl_mint(), w.create_spl_mint());
    let t = c.start_tick.clamp(MIN_TICK, MAX_TICK);
    let price = ((sqrt_price_from_tick_index(t) as i128 + c.start_price_offset as i128).max(MIN_SQRT_PRICE as i128) as u128).min(MAX_SQRT_PRICE);
    let Ok(pool) = w.init_pool(cfg, &m1, &m2, c.tick_spacing, price) else { return Ok(()) };
    let (ma, mb) = (w.pools[pool].mint_a.clone(), w.pools[pool].mint_b.clone());
    let rm = w.create_spl_mint();
    let mut users = vec![];
    for _ in 0..2 {
        let u = w.add_user();
        for m in [&ma, &mb] {
            w.user_token(u, m, 1 << 61);
        }
        w.user_token(u, &rm, 0);
        users.push(u);
    }
    let trader = w.add_user();
    for m in [&ma, &mb] {
        w.user_token(trader, m, 1 << 61);
    }
    // one funded reward so that rewards can be owed
    if w.init_reward(pool, &rm, false).is_ok() {
        let v = w.pools[pool].rewards[0].vault;
        w.mint_to(&rm, &v, 1 << 50);
        let ix = w.ix_set_reward_emissions(pool, 0, 1u128 << 72, false);
        let _ = w.exec(&ix);
    }
    let tsi = c.tick_spacing as i32;
    let mut s = Life {
        w,
        pool,
        users,
        trader,
        ts: c.tick_spacing,
        base_unit: floor_div(t, tsi),
        st: vec![],
        bundle_open: vec![],
        bundle_deleted: vec![],
        arrays: BTreeSet::new(),
        dyn_mask: c.dynamic_mask,
    };
    let mut predicted_rejections = 0u32;
    let mut lock_or_bundle_ops = 0u32;
    let mut sentinel_opens = 0u32;
    let mut expanded: Vec<LifeOp> = vec![];
    for op in &c.ops {
        match op {
            LifeOp::FillBundle { bundle, skip } => {
                for index in 0..256u16 {
                    if Some(index) != *skip {
                        expanded.push(LifeOp::OpenBundled { bundle: *bundle, index, lower: TickSel::FullLower, upper: TickSel::FullUpper });
                    }
                }
                expanded.push(LifeOp::DeleteBundle { bundle: *bundle });
            }
            LifeOp::RoundTrip { pos, stop_reward, lower, upper } => {
                expanded.push(LifeOp::Increase { pos: *pos, liquidity: 1u128 << 40 });
                expanded.push(LifeOp::Swap { a_to_b: true, amount: 1 << 20 });
                expanded.push(LifeOp::Swap { a_to_b: false, amount: 1 << 20 });
                expanded.push(LifeOp::AdvanceClock(1000));
                expanded.push(LifeOp::Decrease { pos: *pos, all: true, by_delegate: false });
                expanded.push(LifeOp::CollectFees { pos: *pos });
                expanded.push(LifeOp::CollectReward { pos: *pos });
                if *stop_reward {
                    expanded.push(LifeOp::SetEmissions { stop: true });
                }
                expanded.push(LifeOp::Reset { pos: *pos, lower: TickSel::Rel(*lower), upper: TickSel::Rel(*upper) });
            }
            o => expanded.push(o.clone()),
        }
    }
    for (n, op) in expanded.iter().enumerate() {
        let ctx = |m: String| format!("op #{n} {op:?}: {m}");
        match op {
            LifeOp::Open { user, kind, lower, upper } => {
                let u = s.users[*user as usize % s.users.len()];
                let (lo, hi) = (s.tick(lower, true), s.tick(upper, false));
                let want = s.expected_range(lo, hi);
                let (ix, mut info) = s.w.prep_open_position(s.pool, u, lo, hi, *kind);
                let o = s.w.exec(&ix);
                match (want, o.ok()) {
                    (None, true) => return Err(ctx(format!("opened a position over the invalid range [{lo}, {hi}]"))),
                    (Some(r), false) => return Err(ctx(format!("refused to open over the valid range {r:?}: {:?} {:?}", o.result, o.logs.last()))),
                    (None, false) => {
                        predicted_rejections += 1;
                        l.count("open_rejected_as_predicted");
                    }
                    (Some((rlo, rhi)), true) => {
                        if lo == i32::MIN || hi == i32::MAX {
                            sentinel_opens += 1;
                            l.count("open_with_derived_bound");
                        }
                        let ps = decode::position(&s.w.bank.get(&info.position).data).ok_or_else(|| ctx("position account missing".into()))?;
                        if (ps.tick_lower_index, ps.tick_upper_index) != (rlo, rhi) {
                            return Err(ctx(format!("position range is [{}, {}], expected [{rlo}, {rhi}]", ps.tick_lower_index, ps.tick_upper_index)));
                        }
                        if ps.liquidity != 0 || ps.whirlpool != s.w.pools[s.pool].key || ps.position_mint != info.mint {
                            return Err(ctx("fresh position is not empty / not bound to the pool and mint".into()));
                        }
                        // exactly one position token, no mint authority left, held by the owner
                        let (supply, has_auth) = decode::mint_supply(&s.w.bank.get(&info.mint).data).ok_or_else(|| ctx("position mint missing".into()))?;
                        if supply != 1 || has_auth {
                            return Err(ctx(format!("position mint has supply {supply}, mint authority present: {has_auth}")));
                        }
                        let ta = s.w.bank.get(&info.token_account).data;
                        if decode::token_amount(&ta) != Some(1) || decode::token_owner_of(&ta) != Some(s.w.users[u].key) || decode::token_mint_of(&ta) != Some(info.mint) {
                            return Err(ctx("the owner does not hold exactly one position token".into()));
                        }
                        info.lower = rlo;
                        info.upper = rhi;
                        s.w.positions.push(info);
                        s.st.push(PState { locked: false, closed: false });
                        s.ensure_array(rlo);
                        s.ensure_array(rhi);
                        l.count(&format!("opened/{kind:?}"));
                    }
                }
            }
            LifeOp::InitBundle { user } => {
                let u = s.users[*user as usize % s.users.len()];
                // odd user selectors create the bundle through the with-metadata variant
                if s.w.init_bundle_kind(u, *user % 2 == 1).is_ok() {
                    l.count(if *user % 2 == 1 { "bundle_created/with_metadata" } else { "bundle_created/plain" });
                    s.bundle_open.push(BTreeSet::new());
                    s.bundle_deleted.push(false);
                    let b = s.w.bundles.last().unwrap();
                    let (supply, has_auth) = decode::mint_supply(&s.w.bank.get(&b.mint).data).unwrap_or((0, true));
                    if supply != 1 || has_auth {
                        return Err(ctx(format!("bundle mint has supply {supply}, mint authority present: {has_auth}")));
                    }
                } else {
                    return Err(ctx("initialize_position_bundle failed".into()));
                }
            }
            LifeOp::OpenBundled { bundle, index, lower, upper } => {
                if s.w.bundles.is_empty() {
                    continue;
                }
                lock_or_bundle_ops += 1;
                let b = *bundle as usize % s.w.bundles.len();
                let (lo, hi) = (s.tick(lower, true), s.tick(upper, false));
                let want = if s.bundle_deleted[b] || *index >= 256 || s.bundle_open[b].contains(index) { None } else { s.expected_range(lo, hi) };
                let (ix, mut info) = s.w.prep_open_bundled(b, *index, s.pool, lo, hi);
                let o = s.w.exec(&ix);
                match (want, o.ok()) {
                    (None, true) => return Err(ctx(format!("opened bundled position {index} although it must be refused (deleted bundle / index >= 256 / already open / invalid range [{lo}, {hi}])"))),
                    (Some(r), false) => return Err(ctx(format!("refused a valid bundled open {r:?}: {:?} {:?}", o.result, o.logs.last()))),
                    (None, false) => {
                        predicted_rejections += 1;
                        l.count("open_bundled_rejected_as_predicted");
                    }
                    (Some((rlo, rhi)), true) => {
                        info.lower = rlo;
                        info.upper = rhi;
                        let ps = decode::position(&s.w.bank.get(&info.position).data).ok_or_else(|| ctx("bundled position missing".into()))?;
                        if (ps.tick_lower_index, ps.tick_upper_index) != (rlo, rhi) {
                            return Err(ctx("bundled position range differs from the resolved range".into()));
                        }
                        s.w.positions.push(info);
                        s.st.push(PState { locked: false, closed: false });
                        s.bundle_open[b].insert(*index);
                        s.ensure_array(rlo);
                        s.ensure_array(rhi);
                        l.count("opened/Bundled");
                    }
                }
            }
            LifeOp::FillBundle { .. } | LifeOp::RoundTrip { .. } => unreachable!("expanded above"),
            LifeOp::DeleteBundle { bundle } => {
                if s.w.bundles.is_empty() {
                    continue;
                }
                lock_or_bundle_ops += 1;
                let b = *bundle as usize % s.w.bundles.len();
                let want = !s.bundle_deleted[b] && s.bundle_open[b].is_empty();
                let ix = s.w.ix_delete_bundle(b);
                let ok = s.w.exec(&ix).ok();
                if ok != want {
                    return Err(ctx(format!("delete_position_bundle accepted={ok}, but the bundle has {} open positions (deleted before: {})", s.bundle_open[b].len(), s.bundle_deleted[b])));
                }
                if ok {
                    s.bundle_deleted[b] = true;
                    l.count("bundle_deleted");
                } else {
                    predicted_rejections += 1;
                    if s.bundle_open[b].len() == 256 {
                        l.count("delete_of_a_bundle_with_all_256_positions_open_refused");
                    }
                }
            }
            LifeOp::Increase { pos, liquidity } => {
                let open = s.open_idx();
                if open.is_empty() {
                    continue;
                }
                let p = open[pick(*pos, open.len())];
                let ix = s.w.ix_increase(p, *liquidity, u64::MAX, u64::MAX, *liquidity % 2 == 0);
                let o = s.w.exec(&ix);
                if s.st[p].locked {
                    l.count(if o.ok() { "increase_on_locked_ok" } else { "increase_on_locked_failed_other_reason" });
                }
            }
            LifeOp::Approve { pos, to } => {
                let open = s.open_idx();
                if open.is_empty() {
                    continue;
                }
                let p = open[pick(*pos, open.len())];
                if s.w.positions[p].bundle.is_some() {
                    continue;
                }
                let te = matches!(s.w.positions[p].kind, PosKind::TokenExt | PosKind::TokenExtMeta);
                let prog = if te { TOKEN22 } else { crate::world::TOKEN };
                let owner = s.w.users[s.w.positions[p].owner].key;
                let delegate = s.w.users[s.users[*to as usize % s.users.len()]].key;
                let ix = spl_token_2022::instruction::approve(&prog, &s.w.positions[p].token_account, &delegate, &owner, &[], 1).map_err(|e| ctx(format!("harness: {e:?}")))?;
                match s.w.bank.process_native(&ix) {
                    Ok(_) => l.count(if s.st[p].locked { "delegate_approved_on_locked_position" } else { "delegate_approved" }),
                    Err(_) => l.count("delegate_approval_refused_by_token_program"),
                }
            }
            LifeOp::Decrease { pos, all, by_delegate } => {
                let open = s.open_idx();
                if open.is_empty() {
                    continue;
                }
                let p = open[pick(*pos, open.len())];
                let cur = s.w.position_state(p).map(|x| x.liquidity).unwrap_or(0);
                let amt = if *all { cur } else { cur / 2 };
                let mut ix = s.w.ix_decrease(p, amt, 0, 0, amt % 2 == 0);
                let delegate = if *by_delegate { s.delegate_of(p) } else { None };
                if let Some(d) = delegate {
                    s.sign_as(&mut ix, p, d);
                }
                let o = s.w.exec(&ix);
                if s.st[p].locked {
                    lock_or_bundle_ops += 1;
                    predicted_rejections += 1;
                    if o.ok() {
                        return Err(ctx(format!("liquidity removed from a locked position{}", if delegate.is_some() { " (signed by the position token's delegate)" } else { "" })));
                    }
                    l.count(if delegate.is_some() { "decrease_on_locked_by_delegate_rejected" } else { "decrease_on_locked_rejected" });
                } else if delegate.is_some() {
                    l.count(if o.ok() { "decrease_by_delegate_ok" } else { "decrease_by_delegate_failed" });
                }
            }
            LifeOp::CollectFees { pos } | LifeOp::UpdateFees { pos } | LifeOp::CollectReward { pos } => {
                let open = s.open_idx();
                if open.is_empty() {
                    continue;
                }
                let p = open[pick(*pos, open.len())];
                let owner = s.w.positions[p].owner;
                let ix = match op {
                    LifeOp::CollectFees { .. } => s.w.ix_collect_fees(p, p % 2 == 0),
                    LifeOp::UpdateFees { .. } => s.w.ix_update_fees(p),
                    _ => {
                        if s.w.pools[s.pool].rewards.is_empty() {
                            continue;
                        }
                        let dest = s.w.user_token_existing(owner, &s.w.pools[s.pool].rewards[0].mint.key);
                        s.w.ix_collect_reward(p, 0, dest, p % 2 == 1)
                    }
                };
                let o = s.w.exec(&ix);
                if s.st[p].locked && !matches!(op, LifeOp::UpdateFees { .. }) {
                    if !o.ok() {
                        return Err(ctx(format!("collecting from a locked position failed: {:?} {:?}", o.result, o.logs.last())));
                    }
                    l.count("collect_on_locked_ok");
                }
            }
            LifeOp::Swap { a_to_b, amount } => {
                let sp = SwapParams { amount: *amount, threshold: 0, sqrt_price_limit: 0, exact_in: true, a_to_b: *a_to_b };
                let ix = s.w.ix_swap(s.pool, s.trader, &sp);
                let _ = s.w.exec(&ix);
            }
            LifeOp::AdvanceClock(dt) => s.w.advance_clock(*dt as i64),
            LifeOp::SetEmissions { stop } => {
                if !s.w.pools[s.pool].rewards.is_empty() {
                    let mut ix = s.w.ix_set_reward_emissions(s.pool, 0, if *stop { 0 } else { 1u128 << 72 }, false);
                    ix.accounts[1].is_signer = true;
                    l.count(if s.w.exec(&ix).ok() { if *stop { "reward_emissions_stopped" } else { "reward_emissions_restarted" } } else { "set_emissions_refused" });
                }
            }
            LifeOp::Close { pos } => {
                let open = s.open_idx();
                if open.is_empty() {
                    continue;
                }
                let p = open[pick(*pos, open.len())];
                let ps = s.w.position_state(p).ok_or_else(|| ctx("position account missing".into()))?;
                let empty = ps.liquidity == 0 && ps.fee_owed_a == 0 && ps.fee_owed_b == 0 && ps.reward_owed.iter().all(|x| *x == 0);
                let want = empty && !s.st[p].locked;
                let ix = s.w.ix_close_position(p);
                let ok = s.w.exec(&ix).ok();
                if ok != want {
                    return Err(ctx(format!(
                        "close accepted={ok} for a position with liquidity {} fees ({}, {}) rewards {:?} locked={}",
                        ps.liquidity, ps.fee_owed_a, ps.fee_owed_b, ps.reward_owed, s.st[p].locked
                    )));
                }
                if ok {
                    s.st[p].closed = true;
                    s.w.positions[p].open = false;
                    if s.w.bank.accounts.contains_key(&s.w.positions[p].position) {
                        return Err(ctx("position account still exists after close".into()));
                    }
                    if let Some((b, idx)) = s.w.positions[p].bundle {
                        s.bundle_open[b].remove(&idx);
                        lock_or_bundle_ops += 1;
                    } else {
                        let m = s.w.bank.get(&s.w.positions[p].mint);
                        if let Some((supply, _)) = decode::mint_supply(&m.data) {
                            if supply != 0 {
                                return Err(ctx(format!("position token supply is {supply} after close")));
                            }
                        }
                    }
                    l.count("closed");
                } else {
                    predicted_rejections += 1;
                    l.count(if s.st[p].locked { "close_rejected_locked" } else { "close_rejected_not_empty" });
                }
            }
            LifeOp::Reset { pos, lower, upper } => {
                let open = s.open_idx();
                if open.is_empty() {
                    continue;
                }
                let p = open[pick(*pos, open.len())];
                let ps = s.w.position_state(p).ok_or_else(|| ctx("position account missing".into()))?;
                let empty = ps.liquidity == 0 && ps.fee_owed_a == 0 && ps.fee_owed_b == 0 && ps.reward_owed.iter().all(|x| *x == 0);
                let (lo, hi) = (s.tick(lower, true), s.tick(upper, false));
                // reset takes explicit bounds only (sentinels are simply invalid ticks here)
                let tsi = s.ts as i32;
                let usable = |t: i32| (MIN_TICK..=MAX_TICK).contains(&t) && t % tsi == 0;
                let mut valid = usable(lo) && usable(hi) && lo < hi;
                if s.ts >= 32768 && (lo != MIN_TICK / tsi * tsi || hi != MAX_TICK / tsi * tsi) {
                    valid = false;
                }
                let same = lo == ps.tick_lower_index && hi == ps.tick_upper_index;
                let want = empty && valid && !same && !s.st[p].locked;
                let ix = s.w.ix_reset_range(p, lo, hi);
                let ok = s.w.exec(&ix).ok();
                if ok != want {
                    return Err(ctx(format!("reset_position_range to [{lo}, {hi}] accepted={ok}; empty={empty} valid={valid} same={same} locked={}", s.st[p].locked)));
                }
                if ok {
                    let after = s.w.position_state(p).unwrap();
                    if (after.tick_lower_index, after.tick_upper_index) != (lo, hi) {
                        return Err(ctx("range not updated by reset".into()));
                    }
                    if after.fee_growth_checkpoint_a != 0 || after.fee_growth_checkpoint_b != 0 || after.reward_checkpoint.iter().any(|x| *x != 0) {
                        return Err(ctx("growth checkpoints not reset".into()));
                    }
                    s.w.positions[p].lower = lo;
                    s.w.positions[p].upper = hi;
                    s.ensure_array(lo);
                    s.ensure_array(hi);
                    l.count("range_reset");
                } else {
                    predicted_rejections += 1;
                }
            }
            LifeOp::Reposition { pos, lower, upper, by_delegate } => {
                let open = s.open_idx();
                if open.is_empty() {
                    continue;
                }
                let p = open[pick(*pos, open.len())];
                let (lo, hi) = (s.tick(lower, true), s.tick(upper, false));
                if (MIN_TICK..=MAX_TICK).contains(&lo) && (MIN_TICK..=MAX_TICK).contains(&hi) {
                    s.ensure_array(lo);
                    s.ensure_array(hi);
                }
                let cur = s.w.position_state(p).map(|x| x.liquidity).unwrap_or(0);
                let mut ix = s.w.ix_reposition(p, lo, hi, cur.max(1), 0, 0, u64::MAX, u64::MAX);
                let delegate = if *by_delegate { s.delegate_of(p) } else { None };
                if let Some(d) = delegate {
                    s.sign_as(&mut ix, p, d);
                }
                let o = s.w.exec(&ix);
                if s.st[p].locked {
                    lock_or_bundle_ops += 1;
                    predicted_rejections += 1;
                    if o.ok() {
                        return Err(ctx(format!("a locked position was re-ranged{}", if delegate.is_some() { " (signed by the position token's delegate)" } else { "" })));
                    }
                    l.count(if delegate.is_some() { "reposition_on_locked_by_delegate_rejected" } else { "reposition_on_locked_rejected" });
                } else if o.ok() {
                    // re-ranged only to a different valid range (usable in-bounds ticks, lower < upper, the full range on full-range-only pools)
                    let tsi = s.ts as i32;
                    let usable = |t: i32| (MIN_TICK..=MAX_TICK).contains(&t) && t % tsi == 0;
                    let mut valid = usable(lo) && usable(hi) && lo < hi;
                    if s.ts >= 32768 && (lo != MIN_TICK / tsi * tsi || hi != MAX_TICK / tsi * tsi) {
                        valid = false;
                    }
                    let same = (lo, hi) == (s.w.positions[p].lower, s.w.positions[p].upper);
                    if !valid || same {
                        return Err(ctx(format!("reposition_liquidity to [{lo}, {hi}] accepted; valid range={valid} same as before={same} (tick spacing {})", s.ts)));
                    }
                    let after = s.w.position_state(p).ok_or_else(|| ctx("position account missing".into()))?;
                    if (after.tick_lower_index, after.tick_upper_index) != (lo, hi) {
                        return Err(ctx("range not updated by reposition".into()));
                    }
                    s.w.positions[p].lower = lo;
                    s.w.positions[p].upper = hi;
                    l.count("repositioned");
                    if s.ts >= 32768 {
                        l.count("repositioned_on_full_range_only_pool");
                    }
                } else {
                    l.count("reposition_rejected");
                    if s.ts >= 32768 {
                        l.count("reposition_rejected_on_full_range_only_pool");
                    }
                }
            }
            LifeOp::Lock { pos } => {
                let open = s.open_idx();
                if open.is_empty() {
                    continue;
                }
                lock_or_bundle_ops += 1;
                let p = open[pick(*pos, open.len())];
                let ps = s.w.position_state(p).ok_or_else(|| ctx("position account missing".into()))?;
                let te = matches!(s.w.positions[p].kind, PosKind::TokenExt | PosKind::TokenExtMeta);
                let want = te && ps.liquidity > 0 && !s.st[p].locked;
                let ix = s.w.ix_lock_position(p, whirlpool::state::LockType::Permanent);
                let ok = s.w.exec(&ix).ok();
                if ok != want {
                    return Err(ctx(format!("lock_position accepted={ok}; token-extension position={te} liquidity={} already locked={}", ps.liquidity, s.st[p].locked)));
                }
                if ok {
                    s.st[p].locked = true;
                    if decode::token_state(&s.w.bank.get(&s.w.positions[p].token_account).data) != Some(2) {
                        return Err(ctx("position token is not frozen after locking".into()));
                    }
                    l.count("locked");
                } else {
                    predicted_rejections += 1;
                }
            }
            LifeOp::TransferLocked { pos } => {
                let open = s.open_idx();
                if open.is_empty() {
                    continue;
                }
                lock_or_bundle_ops += 1;
                let p = open[pick(*pos, open.len())];
                let te = matches!(s.w.positions[p].kind, PosKind::TokenExt | PosKind::TokenExtMeta);
                if !te {
                    continue;
                }
                let from = s.w.positions[p].owner;
                let to = *s.users.iter().find(|u| **u != from).unwrap();
                let recv = s.w.users[to].key;
                let mint = s.w.positions[p].mint;
                let dest = ata_of(&recv, &mint, &TOKEN22);
                if !s.w.bank.accounts.contains_key(&dest) {
                    let create = spl_associated_token_account::instruction::create_associated_token_account(&recv, &recv, &mint, &TOKEN22);
                    s.w.bank.process_native(&create).map_err(|e| ctx(format!("ATA creation failed: {e:?}")))?;
                }
                let want = s.st[p].locked;
                let ix = s.w.ix_transfer_locked(p, s.w.users[from].key, dest);
                let ok = s.w.exec(&ix).ok();
                if ok != want {
                    return Err(ctx(format!("transfer_locked_position accepted={ok} for a position with locked={}", s.st[p].locked)));
                }
                if ok {
                    let d = s.w.bank.get(&dest).data;
                    if decode::token_amount(&d) != Some(1) || decode::token_state(&d) != Some(2) {
                        return Err(ctx("destination does not hold the frozen position token after transfer".into()));
                    }
                    s.w.positions[p].owner = to;
                    s.w.positions[p].token_account = dest;
                    l.count("locked_position_transferred");
                } else {
                    predicted_rejections += 1;
                }
            }
        }
        // bundle bitmap == model's open set, after every op
        for (b, bi) in s.w.bundles.iter().enumerate() {
            let acc = s.w.bank.get(&bi.bundle);
            if s.bundle_deleted[b] {
                if !acc.data.is_empty() {
                    return Err(ctx(format!("bundle #{b} account still exists after deletion")));
                }
                continue;
            }
            if acc.data.len() != 136 {
                return Err(ctx(format!("bundle #{b} account has {} bytes", acc.data.len())));
            }
            for i in 0..256u16 {
                let bit = (acc.data[40 + (i / 8) as usize] >> (i % 8)) & 1 == 1;
                if bit != s.bundle_open[b].contains(&i) {
                    return Err(ctx(format!("bundle #{b} bitmap bit {i} is {bit}, open set says {}", !bit)));
                }
            }
        }
    }
    l.count_n("predicted_rejections", predicted_rejections as u64);
    if lock_or_bundle_ops > 0 && predicted_rejections > 0 {
        l.count("nontrivial_lifecycles");
        if sentinel_opens > 0 {
            l.count("nontrivial_lifecycles_with_derived_bound");
        }
        l.nontrivial(hash_of(c));
        l.sample(|| json!({"tick_spacing": c.tick_spacing, "start_tick": c.start_tick, "ops": c.ops.iter().take(12).collect::<Vec<_>>(), "n_ops": c.ops.len()}));
    }
    Ok(())
}

fn tick_sel(lower: bool) -> BoxedStrategy<TickSel> {
    prop_oneof![
        8 => (-12i32..=12).prop_map(TickSel::Rel),
        2 => (-300i32..=300).prop_map(TickSel::Rel),
        1 => gen::any_tick().prop_map(TickSel::Raw),
        1 => prop_oneof![Just(MIN_TICK - 1), Just(MAX_TICK + 1), Just(i32::MIN + 1), Just(i32::MAX - 1)].prop_map(TickSel::Raw),
        2 => Just(TickSel::Sentinel),
        1 => Just(if lower { TickSel::FullLower } else { TickSel::FullUpper }),
    ]
    .boxed()
}

fn op_strategy() -> BoxedStrategy<LifeOp> {
    let kind = prop_oneof![2 => Just(PosKind::Plain), 1 => Just(PosKind::Metadata), 3 => Just(PosKind::TokenExt), 2 => Just(PosKind::TokenExtMeta)];
    prop_oneof![
        10 => (0u8..2, kind, tick_sel(true), tick_sel(false)).prop_map(|(user, kind, lower, upper)| LifeOp::Open { user, kind, lower, upper }),
        2 => (0u8..2).prop_map(|user| LifeOp::InitBundle { user }),
        6 => (0u8..3, prop_oneof![8 => 0u16..256, 1 => Just(255u16), 1 => 256u16..300], tick_sel(true), tick_sel(false)).prop_map(|(bundle, index, lower, upper)| LifeOp::OpenBundled { bundle, index, lower, upper }),
        2 => (0u8..3).prop_map(|bundle| LifeOp::DeleteBundle { bundle }),
        1 => (0u8..3, prop_oneof![3 => Just(None), 1 => (0u16..256).prop_map(Some)]).prop_map(|(bundle, skip)| LifeOp::FillBundle { bundle, skip }),
        10 => (any::<u16>(), prop_oneof![4 => (16u32..50).prop_map(|b| 1u128 << b), 1 => 1u128..1000, 1 => prop_oneof![Just(1u128 << 64), Just(3u128 << 64), Just(1u128 << 66), Just((1u128 << 64) + (1u128 << 32))]]).prop_map(|(pos, liquidity)| LifeOp::Increase { pos, liquidity }),
        6 => (any::<u16>(), any::<bool>(), prop_oneof![3 => Just(false), 1 => Just(true)]).prop_map(|(pos, all, by_delegate)| LifeOp::Decrease { pos, all, by_delegate }),
        3 => (any::<u16>(), 0u8..4).prop_map(|(pos, to)| LifeOp::Approve { pos, to }),
        4 => any::<u16>().prop_map(|pos| LifeOp::CollectFees { pos }),
        3 => any::<u16>().prop_map(|pos| LifeOp::CollectReward { pos }),
        3 => any::<u16>().prop_map(|pos| LifeOp::UpdateFees { pos }),
        6 => (any::<bool>(), (8u32..40).prop_map(|b| 1u64 << b)).prop_map(|(a_to_b, amount)| LifeOp::Swap { a_to_b, amount }),
        2 => (0u16..5000).prop_map(LifeOp::AdvanceClock),
        1 => any::<bool>().prop_map(|stop| LifeOp::SetEmissions { stop }),
        2 => (any::<u16>(), any::<bool>(), -12i32..0, 1i32..12).prop_map(|(pos, stop_reward, lower, upper)| LifeOp::RoundTrip { pos, stop_reward, lower, upper }),
        8 => any::<u16>().prop_map(|pos| LifeOp::Close { pos }),
        5 => (any::<u16>(), tick_sel(true), tick_sel(false)).prop_map(|(pos, lower, upper)| LifeOp::Reset { pos, lower, upper }),
        3 => (any::<u16>(), tick_sel(true), tick_sel(false), prop_oneof![3 => Just(false), 1 => Just(true)]).prop_map(|(pos, lower, upper, by_delegate)| LifeOp::Reposition { pos, lower, upper, by_delegate }),
        6 => any::<u16>().prop_map(|pos| LifeOp::Lock { pos }),
        3 => any::<u16>().prop_map(|pos| LifeOp::TransferLocked { pos }),
    ]
    .boxed()
}

fn case_strategy() -> BoxedStrategy<LifeCase> {
    (
        prop_oneof![5 => prop::sample::select(vec![1u16, 2, 8, 64, 128, 256]), 1 => prop::sample::select(vec![32768u16, 32896])],
        prop_oneof![5 => -30000i32..30000, 1 => gen::any_tick()],
        -1i8..=1,
        any::<u8>(),
        prop::collection::vec(op_strategy(), 8..=45),
    )
        .prop_map(|(tick_spacing, start_tick, start_price_offset, dynamic_mask, ops)| LifeCase { tick_spacing, start_tick, start_price_offset, dynamic_mask, ops })
        .boxed()
}

pub fn def() -> CheckDef {
    CheckDef {
        id: "C18",
        rule: "generated lifecycles over plain, metadata, token-extension and bundled positions (all 256 bundle indexes plus invalid ones), explicit / unusable / \
               out-of-bounds / price-derived (sentinel) bounds, swaps and clock steps to create owed fees and rewards; a model predicts accept/reject exactly for \
               open, open-bundled, close, reset-range, lock, transfer-locked and delete-bundle and checks post-conditions (supply 1, no mint authority, holder \
               amount 1, resolved range recomputed from the price by search, checkpoints zero after reset, frozen token after lock/transfer, bundle bitmap == open \
               set after every op); locked positions must refuse decrease / reposition and must allow collects; an accepted reposition must be to a different valid range (the full range on full-range-only pools) and store it.  Non-trivial = lifecycle with a lock or bundle \
               op and >=1 predicted rejection.",
        assumptions: vec!["nsvm runtime as in DESIGN.md §5", "the Metaplex CPI of *_with_metadata is a stub; nothing is asserted about metadata accounts"],
        subs: vec![sub("lifecycles", 40_000, 1_000_000, case_strategy, |c: &LifeCase, l: &mut Local| check_case(c, l))],
    }
}
