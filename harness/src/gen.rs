//! Shared proptest generators.
use crate::model::*;
use proptest::prelude::*;
use whirlpool::math::{sqrt_price_from_tick_index, tick_index_from_sqrt_price};

/// value with a uniformly distributed bit length in 0..=maxbits (log-uniform magnitude)
pub fn bits_u128(maxbits: u32) -> BoxedStrategy<u128> {
    (0..=maxbits, any::<u128>())
        .prop_map(|(bits, r)| if bits == 0 { 0 } else { (r >> (128 - bits)) | (1u128 << (bits - 1)) })
        .boxed()
}
pub fn bits_u64(maxbits: u32) -> BoxedStrategy<u64> {
    bits_u128(maxbits.min(64)).prop_map(|v| v as u64).boxed()
}

/// amounts: uniform, log-uniform, small, 2^k±1
pub fn amount_u64() -> BoxedStrategy<u64> {
    prop_oneof![
        3 => bits_u64(64),
        1 => any::<u64>(),
        1 => 0u64..1000,
        1 => (0u32..64, -1i64..=1).prop_map(|(k, d)| ((1u128 << k) as i128 + d as i128).clamp(0, u64::MAX as i128) as u64),
        1 => structured_u128(64).prop_map(|v| v as u64),
    ]
    .boxed()
}

/// liquidity: uniform bit length, or bit-structured (2^n ± d, runs of ones ...): long division takes its rare paths on such operands
pub fn liquidity_u128() -> BoxedStrategy<u128> {
    prop_oneof![3 => bits_u128(128), 1 => structured_u128(128)].boxed()
}

pub fn any_tick() -> BoxedStrategy<i32> {
    prop_oneof![
        6 => MIN_TICK..=MAX_TICK,
        1 => MIN_TICK..MIN_TICK + 200,
        1 => MAX_TICK - 200..=MAX_TICK,
        1 => -300i32..300,
    ]
    .boxed()
}

/// sqrt price within protocol bounds: uniform, at/near tick boundaries, near the bounds
pub fn sqrt_price() -> BoxedStrategy<u128> {
    let span = MAX_SQRT_PRICE - MIN_SQRT_PRICE;
    prop_oneof![
        3 => (any_tick(), -2i64..=2).prop_map(|(t, d)| {
            let p = sqrt_price_from_tick_index(t) as i128 + d as i128;
            (p.max(MIN_SQRT_PRICE as i128) as u128).min(MAX_SQRT_PRICE)
        }),
        1 => (0u128..3).prop_map(|d| MIN_SQRT_PRICE + d),
        1 => (0u128..3).prop_map(|d| MAX_SQRT_PRICE - d),
        2 => any::<u128>().prop_map(move |r| MIN_SQRT_PRICE + r % (span + 1)),
        2 => (33u32..=96, any::<u128>()).prop_map(|(bits, r)| ((r >> (128 - bits)) | (1u128 << (bits - 1))).clamp(MIN_SQRT_PRICE, MAX_SQRT_PRICE)),
        1 => structured_u128(96).prop_map(|v| v.clamp(MIN_SQRT_PRICE, MAX_SQRT_PRICE)),
    ]
    .boxed()
}

/// a target price relative to `p0`
pub fn target_price(p0: u128) -> BoxedStrategy<u128> {
    let t0 = tick_index_from_sqrt_price(&p0);
    prop_oneof![
        2 => sqrt_price(),
        2 => bits_u128(40).prop_map(move |d| p0.saturating_add(d).min(MAX_SQRT_PRICE)),
        2 => bits_u128(40).prop_map(move |d| p0.saturating_sub(d).max(MIN_SQRT_PRICE)),
        3 => (-100i32..=100).prop_map(move |d| sqrt_price_from_tick_index((t0 + d).clamp(MIN_TICK, MAX_TICK))),
    ]
    .boxed()
}

pub fn fee_rate(max: u32) -> BoxedStrategy<u32> {
    prop_oneof![
        1 => Just(0u32),
        1 => Just(1u32),
        1 => Just(3000u32.min(max)),
        1 => Just(60000u32.min(max)),
        1 => Just(max),
        1 => Just(max.saturating_sub(1)),
        4 => 0..=max,
    ]
    .boxed()
}

pub const TICK_SPACINGS: [u16; 8] = [1, 2, 8, 64, 128, 256, 32768, 32896];

/// integers with bit-level structure (for code that normalises, shifts or looks at leading bits): 2^n ± d with d of any
/// bit length, runs of ones 2^a - 2^b, an all-ones prefix followed by random bits, a single zero inside ones
pub fn structured_u128(max_bits: u32) -> BoxedStrategy<u128> {
    let pow = |n: u32| -> u128 { if n >= 128 { 0 } else { 1u128 << n } };
    prop_oneof![
        3 => (1u32..=max_bits, 0u32..=127, any::<u128>(), any::<bool>()).prop_map(move |(n, dbits, r, minus)| {
            let dbits = dbits % n.max(1);
            let d = if dbits == 0 { 0 } else { (r >> (128 - dbits)) | (1u128 << (dbits - 1)) };
            let base = pow(n);
            if minus { base.wrapping_sub(1).wrapping_sub(d.saturating_sub(1)) } else { base.wrapping_add(d) }
        }),
        2 => (1u32..=max_bits, 0u32..=127).prop_map(move |(a, b2)| pow(a).wrapping_sub(pow(b2 % a.max(1)))),
        2 => (2u32..=max_bits, 1u32..=127, any::<u128>()).prop_map(move |(n, k, r)| {
            let n = n.min(127);
            let k = 1 + k % n;
            let ones = (pow(k).wrapping_sub(1)) << (n - k);
            let low = if n - k == 0 { 0 } else { r >> (128 - (n - k)) };
            ones | low
        }),
        1 => (2u32..=max_bits, 0u32..=127).prop_map(move |(n, z)| (pow(n.min(127)).wrapping_sub(1)) & !(1u128 << (z % n.min(127)))),
    ]
    .boxed()
}
