pub mod checks;
pub mod driver;
pub mod model;
pub mod rt;
pub mod ser;
pub mod runner;
