//! Worlds: reachable on-chain states built through real instructions, plus instruction builders.
//! See DESIGN.md §2.3.
use crate::decode;
use crate::rt::{Acct, Bank, Outcome};
use anchor_lang::{InstructionData, ToAccountMetas};
use solana_program::{instruction::Instruction, program_pack::Pack, pubkey::Pubkey, system_program, sysvar};
use spl_token_2022::extension::ExtensionType;
use std::str::FromStr;
use whirlpool::accounts as wa;
use whirlpool::instruction as wi;

pub const TOKEN: Pubkey = spl_token::ID;
pub const TOKEN22: Pubkey = spl_token_2022::ID;
pub const ATA: Pubkey = spl_associated_token_account::ID;
pub const MEMO: Pubkey = spl_memo::ID;
pub const SYS: Pubkey = system_program::ID;
pub const WP: Pubkey = whirlpool::ID;

pub fn metadata_program() -> Pubkey {
    Pubkey::from_str("metaqbxxUerdq28cj1RbAWkYQm3ybzjb6a8bt518x1s").unwrap()
}
pub fn metadata_update_auth() -> Pubkey {
    Pubkey::from_str("3axbTs2z5GBy6usVbNVoqEgZMng3vZvMnAoX29BFfwhr").unwrap()
}
pub fn admin_key() -> Pubkey {
    Pubkey::from_str("tstYmkF9JHjZbSugJe1H3ygUTox1bqSxpn5QjxMwVrm").unwrap()
}

pub fn key(n: u64) -> Pubkey {
    // deterministic, pairwise distinct, spread over the key space so that mint ordering varies
    let mut b = [0u8; 32];
    let mut x = n.wrapping_mul(0x9e3779b97f4a7c15) ^ 0x5bd1e995;
    for c in b.chunks_mut(8) {
        x ^= x >> 29;
        x = x.wrapping_mul(0xbf58476d1ce4e5b9);
        x ^= x >> 32;
        c.copy_from_slice(&x.to_le_bytes());
    }
    b[24..32].copy_from_slice(&n.to_le_bytes());
    b[0] = b[0].wrapping_add(n as u8);
    Pubkey::new_from_array(b)
}

pub fn ixb<A: ToAccountMetas, D: InstructionData>(a: A, d: D) -> Instruction {
    Instruction { program_id: WP, accounts: a.to_account_metas(None), data: d.data() }
}

pub fn pda(seeds: &[&[u8]]) -> Pubkey {
    Pubkey::find_program_address(seeds, &WP).0
}
pub fn pda_bump(seeds: &[&[u8]]) -> (Pubkey, u8) {
    Pubkey::find_program_address(seeds, &WP)
}
pub fn tick_array_pda(pool: &Pubkey, start: i32) -> Pubkey {
    pda(&[b"tick_array", pool.as_ref(), start.to_string().as_bytes()])
}
pub fn oracle_pda(pool: &Pubkey) -> Pubkey {
    pda(&[b"oracle", pool.as_ref()])
}
pub fn fee_tier_pda(config: &Pubkey, index: u16) -> Pubkey {
    pda(&[b"fee_tier", config.as_ref(), &index.to_le_bytes()])
}
pub fn pool_pda(config: &Pubkey, ma: &Pubkey, mb: &Pubkey, index: u16) -> (Pubkey, u8) {
    pda_bump(&[b"whirlpool", config.as_ref(), ma.as_ref(), mb.as_ref(), &index.to_le_bytes()])
}
pub fn position_pda(mint: &Pubkey) -> (Pubkey, u8) {
    pda_bump(&[b"position", mint.as_ref()])
}
pub fn token_badge_pda(config: &Pubkey, mint: &Pubkey) -> Pubkey {
    pda(&[b"token_badge", config.as_ref(), mint.as_ref()])
}
pub fn config_extension_pda(config: &Pubkey) -> Pubkey {
    pda(&[b"config_extension", config.as_ref()])
}
pub fn lock_config_pda(position: &Pubkey) -> Pubkey {
    pda(&[b"lock_config", position.as_ref()])
}
pub fn position_bundle_pda(mint: &Pubkey) -> Pubkey {
    pda(&[b"position_bundle", mint.as_ref()])
}
pub fn bundled_position_pda(bundle_mint: &Pubkey, index: u16) -> Pubkey {
    pda(&[b"bundled_position", bundle_mint.as_ref(), index.to_string().as_bytes()])
}
pub fn ata_of(owner: &Pubkey, mint: &Pubkey, program: &Pubkey) -> Pubkey {
    spl_associated_token_account::get_associated_token_address_with_program_id(owner, mint, program)
}

pub fn floor_div(a: i32, b: i32) -> i32 {
    a.div_euclid(b)
}
pub fn array_start(tick: i32, spacing: u16) -> i32 {
    let n = 88 * spacing as i32;
    floor_div(tick, n) * n
}

#[derive(Clone, Debug, PartialEq, Eq)]
pub struct MintInfo {
    pub key: Pubkey,
    pub program: Pubkey,
    /// Token-2022 transfer fee (basis points, max) if configured
    pub transfer_fee: Option<(u16, u64)>,
    /// Token-2022 transfer-hook program if configured
    pub hook: Option<Pubkey>,
}

#[derive(Clone, Debug)]
pub struct ConfigInfo {
    pub key: Pubkey,
    pub fee_authority: Pubkey,
    pub collect_protocol_fees_authority: Pubkey,
    pub reward_emissions_super_authority: Pubkey,
    pub config_extension: Option<Pubkey>,
    pub config_extension_authority: Pubkey,
    pub token_badge_authority: Pubkey,
}

#[derive(Clone, Debug)]
pub struct RewardSlot {
    pub mint: MintInfo,
    pub vault: Pubkey,
}

#[derive(Clone, Debug)]
pub struct PoolInfo {
    pub key: Pubkey,
    pub config: usize,
    pub mint_a: MintInfo,
    pub mint_b: MintInfo,
    pub vault_a: Pubkey,
    pub vault_b: Pubkey,
    pub tick_spacing: u16,
    pub fee_tier_index: u16,
    pub fee_tier: Pubkey,
    pub oracle: Pubkey,
    pub adaptive: bool,
    pub rewards: Vec<RewardSlot>,
}

#[derive(Clone, Copy, Debug, PartialEq, Eq, serde::Serialize, serde::Deserialize, Hash)]
pub enum PosKind {
    Plain,
    Metadata,
    TokenExt,
    TokenExtMeta,
    Bundled,
}

#[derive(Clone, Debug)]
pub struct PosInfo {
    pub kind: PosKind,
    pub pool: usize,
    pub owner: usize,
    pub mint: Pubkey,
    pub position: Pubkey,
    pub token_account: Pubkey,
    pub token_program: Pubkey,
    pub lower: i32,
    pub upper: i32,
    pub bundle: Option<(usize, u16)>,
    pub open: bool,
}

#[derive(Clone, Debug)]
pub struct BundleInfo {
    pub mint: Pubkey,
    pub bundle: Pubkey,
    pub token_account: Pubkey,
    pub owner: usize,
}

#[derive(Clone, Debug)]
pub struct User {
    pub key: Pubkey,
    pub tokens: Vec<(Pubkey, Pubkey)>, // (mint, token account)
}

#[derive(Clone)]
pub struct World {
    pub bank: Bank,
    next: u64,
    pub admin: Pubkey,
    pub configs: Vec<ConfigInfo>,
    pub pools: Vec<PoolInfo>,
    pub users: Vec<User>,
    pub positions: Vec<PosInfo>,
    pub bundles: Vec<BundleInfo>,
    /// adversarial account choice: liquidity / fee-update instructions name another tick array OF THE SAME POOL for the position's
    /// lower (0) / upper (1) bound, shifted by this many arrays, or the two arrays exchanged (2)
    pub array_skew: Option<(u8, i32)>,
    /// tick arrays appended as supplemental accounts to every swap_v2 built by `ix_swap_v2` (set around one instruction by `Op::Supplemented`)
    pub swap_supplemental: Vec<Pubkey>,
    /// first three bytes of the next position / bundle mint keys (a valid SPL Multisig header m, n, is_initialized), see C04
    pub mint_header: Option<[u8; 3]>,
}

pub const BIG_LAMPORTS: u64 = 1_000_000_000_000_000;

impl World {
    pub fn new(unix_timestamp: i64) -> World {
        let mut bank = Bank::default();
        bank.clock.unix_timestamp = unix_timestamp;
        bank.clock.epoch = 100;
        bank.clock.slot = 1000;
        let loader = Pubkey::from_str("BPFLoaderUpgradeab1e11111111111111111111111").unwrap();
        let native_loader = Pubkey::from_str("NativeLoader1111111111111111111111111111111").unwrap();
        let prog = |owner: Pubkey| Acct { lamports: 1, data: vec![], owner, executable: true };
        bank.set(SYS, prog(native_loader));
        for p in [TOKEN, TOKEN22, ATA, MEMO, WP, metadata_program(), crate::rt::hook_program(1), crate::rt::hook_program(2), crate::rt::memo_v1_program(), crate::rt::obliging_program()] {
            bank.set(p, prog(loader));
        }
        bank.set(
            sysvar::rent::ID,
            Acct { lamports: 1, data: bincode::serialize(&solana_program::rent::Rent::default()).unwrap(), owner: sysvar::ID, executable: false },
        );
        let admin = admin_key();
        let mut w = World { bank, next: 1, admin, configs: vec![], pools: vec![], users: vec![], positions: vec![], bundles: vec![], array_skew: None, swap_supplemental: vec![], mint_header: None };
        w.fund_sys(admin);
        w
    }

    pub fn fresh_key(&mut self) -> Pubkey {
        self.next += 1;
        key(self.next)
    }
    /// key of a mint about to be created by the program (any key pair is possible; `mint_header` fixes its first three bytes)
    pub fn fresh_mint_key(&mut self) -> Pubkey {
        let k = self.fresh_key();
        match self.mint_header {
            Some(h) => {
                let mut b = k.to_bytes();
                b[..3].copy_from_slice(&h);
                Pubkey::new_from_array(b)
            }
            None => k,
        }
    }
    pub fn fund_sys(&mut self, k: Pubkey) {
        self.bank.set(k, Acct { lamports: BIG_LAMPORTS, data: vec![], owner: SYS, executable: false });
    }
    pub fn new_signer(&mut self) -> Pubkey {
        let k = self.fresh_key();
        self.fund_sys(k);
        k
    }
    pub fn exec(&mut self, ix: &Instruction) -> Outcome {
        self.bank.process(ix)
    }
    pub fn must(&mut self, what: &str, ix: &Instruction) -> Outcome {
        let o = self.bank.process(ix);
        assert!(o.ok(), "world setup step `{what}` failed: {:?} logs={:?}", o.result, o.logs);
        o
    }
    pub fn advance_clock(&mut self, dt: i64) {
        self.bank.clock.unix_timestamp += dt;
        self.bank.clock.slot += 1;
    }

    // ---- config / fee tiers ---------------------------------------------------------------
    pub fn init_config(&mut self, default_protocol_fee_rate: u16) -> usize {
        let config = self.new_signer();
        let c = ConfigInfo {
            key: config,
            fee_authority: self.new_signer(),
            collect_protocol_fees_authority: self.new_signer(),
            reward_emissions_super_authority: self.new_signer(),
            config_extension: None,
            config_extension_authority: Pubkey::default(),
            token_badge_authority: Pubkey::default(),
        };
        let admin = self.admin;
        self.must(
            "initialize_config",
            &ixb(
                wa::InitializeConfig { config, funder: admin, system_program: SYS },
                wi::InitializeConfig {
                    fee_authority: c.fee_authority,
                    collect_protocol_fees_authority: c.collect_protocol_fees_authority,
                    reward_emissions_super_authority: c.reward_emissions_super_authority,
                    default_protocol_fee_rate,
                },
            ),
        );
        self.configs.push(c);
        self.configs.len() - 1
    }

    pub fn ix_init_fee_tier(&self, cfg: usize, tick_spacing: u16, default_fee_rate: u16) -> Instruction {
        let c = &self.configs[cfg];
        ixb(
            wa::InitializeFeeTier { config: c.key, fee_tier: fee_tier_pda(&c.key, tick_spacing), funder: self.admin, fee_authority: c.fee_authority, system_program: SYS },
            wi::InitializeFeeTier { tick_spacing, default_fee_rate },
        )
    }

    pub fn init_config_extension(&mut self, cfg: usize) {
        let c = self.configs[cfg].clone();
        let ext = config_extension_pda(&c.key);
        self.must(
            "initialize_config_extension",
            &ixb(
                wa::InitializeConfigExtension { config: c.key, config_extension: ext, funder: self.admin, fee_authority: c.fee_authority, system_program: SYS },
                wi::InitializeConfigExtension {},
            ),
        );
        let c = &mut self.configs[cfg];
        c.config_extension = Some(ext);
        // both authorities start as the fee authority
        c.config_extension_authority = c.fee_authority;
        c.token_badge_authority = c.fee_authority;
    }

    pub fn ix_init_token_badge(&self, cfg: usize, mint: &Pubkey) -> Instruction {
        let c = &self.configs[cfg];
        ixb(
            wa::InitializeTokenBadge {
                whirlpools_config: c.key,
                whirlpools_config_extension: config_extension_pda(&c.key),
                token_badge_authority: c.token_badge_authority,
                token_mint: *mint,
                token_badge: token_badge_pda(&c.key, mint),
                funder: self.admin,
                system_program: SYS,
            },
            wi::InitializeTokenBadge {},
        )
    }

    // ---- mints and token accounts -----------------------------------------------------------
    /// plain SPL Token mint (mint authority = admin, no freeze authority)
    pub fn create_spl_mint(&mut self) -> MintInfo {
        let k = self.fresh_key();
        self.create_spl_mint_at(k)
    }
    pub fn create_spl_mint_at(&mut self, k: Pubkey) -> MintInfo {
        let mut d = vec![0u8; spl_token::state::Mint::LEN];
        spl_token::state::Mint { mint_authority: Some(self.admin).into(), supply: 0, decimals: 6, is_initialized: true, freeze_authority: None.into() }
            .pack_into_slice(&mut d);
        self.bank.set(k, Acct { lamports: 10_000_000, data: d, owner: TOKEN, executable: false });
        MintInfo { key: k, program: TOKEN, transfer_fee: None, hook: None }
    }

    /// Token-2022 mint created by the real processor; optional transfer-fee extension
    pub fn create_t22_mint(&mut self, transfer_fee: Option<(u16, u64)>) -> MintInfo {
        let k = self.fresh_key();
        self.create_t22_mint_at(k, transfer_fee)
    }
    pub fn create_t22_mint_at(&mut self, k: Pubkey, transfer_fee: Option<(u16, u64)>) -> MintInfo {
        self.create_t22_mint_ext(k, transfer_fee, None)
    }
    /// Token-2022 mint created by the real processor with an optional transfer fee and an optional transfer hook
    pub fn create_t22_mint_hooked(&mut self, transfer_fee: Option<(u16, u64)>, hook: Option<Pubkey>) -> MintInfo {
        let k = self.fresh_key();
        self.create_t22_mint_ext(k, transfer_fee, hook)
    }
    pub fn create_t22_mint_ext(&mut self, k: Pubkey, transfer_fee: Option<(u16, u64)>, hook: Option<Pubkey>) -> MintInfo {
        let mut exts: Vec<ExtensionType> = if transfer_fee.is_some() { vec![ExtensionType::TransferFeeConfig] } else { vec![] };
        if hook.is_some() {
            exts.push(ExtensionType::TransferHook);
        }
        let len = ExtensionType::try_calculate_account_len::<spl_token_2022::state::Mint>(&exts).unwrap();
        self.bank.set(k, Acct { lamports: 100_000_000, data: vec![0; len], owner: TOKEN22, executable: false });
        let admin = self.admin;
        if let Some((bp, max)) = transfer_fee {
            self.bank
                .process_native(
                    &spl_token_2022::extension::transfer_fee::instruction::initialize_transfer_fee_config(&TOKEN22, &k, Some(&admin), Some(&admin), bp, max).unwrap(),
                )
                .unwrap();
        }
        if let Some(h) = hook {
            self.bank.process_native(&spl_token_2022::extension::transfer_hook::instruction::initialize(&TOKEN22, &k, Some(admin), Some(h)).unwrap()).unwrap();
        }
        self.bank.process_native(&spl_token_2022::instruction::initialize_mint2(&TOKEN22, &k, &admin, None, 6).unwrap()).unwrap();
        MintInfo { key: k, program: TOKEN22, transfer_fee, hook }
    }

    /// the transfer fee the token program applies to `mint` at the bank's current epoch (read from the mint account with the
    /// token program's own extension parser and `get_epoch_fee`)
    pub fn fee_in_force(&self, mint: &Pubkey) -> Option<(u16, u64)> {
        use spl_token_2022::extension::{transfer_fee::TransferFeeConfig, BaseStateWithExtensions, StateWithExtensions};
        let a = self.bank.accounts.get(mint)?;
        if a.owner != TOKEN22 {
            return None;
        }
        let st = StateWithExtensions::<spl_token_2022::state::Mint>::unpack(&a.data).ok()?;
        let cfg = st.get_extension::<TransferFeeConfig>().ok()?;
        let f = cfg.get_epoch_fee(self.bank.clock.epoch);
        Some((u16::from(f.transfer_fee_basis_points), u64::from(f.maximum_fee)))
    }
    /// bring every `MintInfo::transfer_fee` copy up to date with the schedule in force
    pub fn refresh_transfer_fees(&mut self) {
        for i in 0..self.pools.len() {
            for a in [true, false] {
                let m = if a { self.pools[i].mint_a.clone() } else { self.pools[i].mint_b.clone() };
                if m.transfer_fee.is_some() {
                    let f = self.fee_in_force(&m.key);
                    if a {
                        self.pools[i].mint_a.transfer_fee = f;
                    } else {
                        self.pools[i].mint_b.transfer_fee = f;
                    }
                }
            }
        }
    }
    /// real Token-2022 `SetTransferFee` by the fee-config authority: takes effect two epochs later
    pub fn set_transfer_fee(&mut self, mint: &Pubkey, bp: u16, max: u64) -> bool {
        let admin = self.admin;
        let Ok(ix) = spl_token_2022::extension::transfer_fee::instruction::set_transfer_fee(&TOKEN22, mint, &admin, &[], bp, max) else { return false };
        self.bank.process_native(&ix).is_ok()
    }
    pub fn advance_epoch(&mut self, n: u64) {
        self.bank.clock.epoch += n;
        self.bank.clock.slot += 432_000 * n;
        self.refresh_transfer_fees();
    }

    pub fn create_token_account(&mut self, mint: &MintInfo, owner: &Pubkey, amount: u64) -> Pubkey {
        let t = self.fresh_key();
        if mint.program == TOKEN {
            let mut d = vec![0u8; spl_token::state::Account::LEN];
            spl_token::state::Account {
                mint: mint.key,
                owner: *owner,
                amount: 0,
                delegate: None.into(),
                state: spl_token::state::AccountState::Initialized,
                is_native: None.into(),
                delegated_amount: 0,
                close_authority: None.into(),
            }
            .pack_into_slice(&mut d);
            self.bank.set(t, Acct { lamports: 10_000_000, data: d, owner: TOKEN, executable: false });
        } else {
            let mut exts: Vec<ExtensionType> = if mint.transfer_fee.is_some() { vec![ExtensionType::TransferFeeAmount] } else { vec![] };
            if mint.hook.is_some() {
                exts.push(ExtensionType::TransferHookAccount);
            }
            let len = ExtensionType::try_calculate_account_len::<spl_token_2022::state::Account>(&exts).unwrap();
            self.bank.set(t, Acct { lamports: 100_000_000, data: vec![0; len], owner: TOKEN22, executable: false });
            self.bank.process_native(&spl_token_2022::instruction::initialize_account3(&TOKEN22, &t, &mint.key, owner).unwrap()).unwrap();
        }
        if amount > 0 {
            self.mint_to(mint, &t, amount);
        }
        t
    }

    /// poke (p2): fund through the real MintTo
    pub fn mint_to(&mut self, mint: &MintInfo, account: &Pubkey, amount: u64) {
        let admin = self.admin;
        let ix = if mint.program == TOKEN {
            spl_token::instruction::mint_to(&TOKEN, &mint.key, account, &admin, &[], amount).unwrap()
        } else {
            spl_token_2022::instruction::mint_to(&TOKEN22, &mint.key, account, &admin, &[], amount).unwrap()
        };
        self.bank.process_native(&ix).expect("mint_to");
    }

    pub fn add_user(&mut self) -> usize {
        let k = self.new_signer();
        self.users.push(User { key: k, tokens: vec![] });
        self.users.len() - 1
    }
    /// the user's token account for `mint`, created (and funded with `fund`) on first use
    pub fn user_token(&mut self, user: usize, mint: &MintInfo, fund: u64) -> Pubkey {
        if let Some((_, t)) = self.users[user].tokens.iter().find(|(m, _)| *m == mint.key) {
            return *t;
        }
        let owner = self.users[user].key;
        let t = self.create_token_account(mint, &owner, fund);
        self.users[user].tokens.push((mint.key, t));
        t
    }
    pub fn user_token_existing(&self, user: usize, mint: &Pubkey) -> Pubkey {
        self.users[user].tokens.iter().find(|(m, _)| m == mint).map(|(_, t)| *t).expect("user has no token account for the mint")
    }
    pub fn balance(&self, token_account: &Pubkey) -> u64 {
        decode::token_amount(&self.bank.get(token_account).data).unwrap_or(0)
    }

    // ---- pools --------------------------------------------------------------------------------
    pub fn ix_init_pool_v1(&self, cfg: usize, ma: &Pubkey, mb: &Pubkey, va: Pubkey, vb: Pubkey, tick_spacing: u16, sqrt_price: u128) -> Instruction {
        let c = &self.configs[cfg];
        let (pool, bump) = pool_pda(&c.key, ma, mb, tick_spacing);
        ixb(
            wa::InitializePool {
                whirlpools_config: c.key,
                token_mint_a: *ma,
                token_mint_b: *mb,
                funder: self.admin,
                whirlpool: pool,
                token_vault_a: va,
                token_vault_b: vb,
                fee_tier: fee_tier_pda(&c.key, tick_spacing),
                token_program: TOKEN,
                system_program: SYS,
                rent: sysvar::rent::ID,
            },
            wi::InitializePool { bumps: whirlpool::state::WhirlpoolBumps { whirlpool_bump: bump }, tick_spacing, initial_sqrt_price: sqrt_price },
        )
    }

    #[allow(clippy::too_many_arguments)]
    pub fn ix_init_pool_v2(&self, cfg: usize, ma: &MintInfo, mb: &MintInfo, va: Pubkey, vb: Pubkey, tick_spacing: u16, sqrt_price: u128) -> Instruction {
        let c = &self.configs[cfg];
        let (pool, _) = pool_pda(&c.key, &ma.key, &mb.key, tick_spacing);
        ixb(
            wa::InitializePoolV2 {
                whirlpools_config: c.key,
                token_mint_a: ma.key,
                token_mint_b: mb.key,
                token_badge_a: token_badge_pda(&c.key, &ma.key),
                token_badge_b: token_badge_pda(&c.key, &mb.key),
                funder: self.admin,
                whirlpool: pool,
                token_vault_a: va,
                token_vault_b: vb,
                fee_tier: fee_tier_pda(&c.key, tick_spacing),
                token_program_a: ma.program,
                token_program_b: mb.program,
                system_program: SYS,
                rent: sysvar::rent::ID,
            },
            wi::InitializePoolV2 { tick_spacing, initial_sqrt_price: sqrt_price },
        )
    }

    /// Create a static-fee pool (fee tier must exist).  Mints are put in canonical order.
    pub fn init_pool(&mut self, cfg: usize, m1: &MintInfo, m2: &MintInfo, tick_spacing: u16, sqrt_price: u128) -> Result<usize, Outcome> {
        let (ma, mb) = if m1.key < m2.key { (m1.clone(), m2.clone()) } else { (m2.clone(), m1.clone()) };
        let (va, vb) = (self.new_signer(), self.new_signer());
        // vault keypairs are fresh system accounts with no lamports requirement; they sign the creation
        self.bank.accounts.remove(&va);
        self.bank.accounts.remove(&vb);
        let ix = if ma.program == TOKEN && mb.program == TOKEN {
            self.ix_init_pool_v1(cfg, &ma.key, &mb.key, va, vb, tick_spacing, sqrt_price)
        } else {
            self.ix_init_pool_v2(cfg, &ma, &mb, va, vb, tick_spacing, sqrt_price)
        };
        let o = self.exec(&ix);
        if !o.ok() {
            return Err(o);
        }
        let ckey = self.configs[cfg].key;
        let (pool, _) = pool_pda(&ckey, &ma.key, &mb.key, tick_spacing);
        self.pools.push(PoolInfo {
            key: pool,
            config: cfg,
            mint_a: ma,
            mint_b: mb,
            vault_a: va,
            vault_b: vb,
            tick_spacing,
            fee_tier_index: tick_spacing,
            fee_tier: fee_tier_pda(&ckey, tick_spacing),
            oracle: oracle_pda(&pool),
            adaptive: false,
            rewards: vec![],
        });
        Ok(self.pools.len() - 1)
    }

    pub fn pool_state(&self, pool: usize) -> decode::WhirlpoolD {
        decode::whirlpool(&self.bank.get(&self.pools[pool].key).data).expect("pool account decodes")
    }
    pub fn position_state(&self, pos: usize) -> Option<decode::PositionD> {
        decode::position(&self.bank.get(&self.positions[pos].position).data)
    }
    pub fn oracle_state(&self, pool: usize) -> Option<decode::OracleD> {
        decode::oracle(&self.bank.get(&self.pools[pool].oracle).data)
    }

    // ---- tick arrays ----------------------------------------------------------------------------
    pub fn ix_init_tick_array(&self, pool: usize, start: i32, dynamic: bool) -> Instruction {
        let p = &self.pools[pool];
        let ta = tick_array_pda(&p.key, start);
        if dynamic {
            ixb(
                wa::InitializeDynamicTickArray { whirlpool: p.key, funder: self.admin, tick_array: ta, system_program: SYS },
                wi::InitializeDynamicTickArray { start_tick_index: start, idempotent: false },
            )
        } else {
            ixb(wa::InitializeTickArray { whirlpool: p.key, funder: self.admin, tick_array: ta, system_program: SYS }, wi::InitializeTickArray { start_tick_index: start })
        }
    }
    pub fn has_tick_array(&self, pool: usize, start: i32) -> bool {
        self.bank.accounts.contains_key(&tick_array_pda(&self.pools[pool].key, start))
    }
    /// make sure the array containing `tick` exists (encoding chosen by `dynamic` when it is created)
    pub fn ensure_tick_array(&mut self, pool: usize, tick: i32, dynamic: bool) -> bool {
        let start = array_start(tick, self.pools[pool].tick_spacing);
        if self.has_tick_array(pool, start) {
            return true;
        }
        let ix = self.ix_init_tick_array(pool, start, dynamic);
        self.exec(&ix).ok()
    }

    /// start indexes of the (up to 3) arrays a swap from the pool's current tick will use
    pub fn swap_array_starts(&self, pool: usize, a_to_b: bool) -> Vec<i32> {
        let st = self.pool_state(pool);
        swap_array_starts(st.tick_current_index, st.tick_spacing, a_to_b)
    }
    pub fn swap_arrays(&self, pool: usize, a_to_b: bool) -> [Pubkey; 3] {
        let starts = self.swap_array_starts(pool, a_to_b);
        let pk = self.pools[pool].key;
        let mut out = [tick_array_pda(&pk, *starts.last().unwrap_or(&0)); 3];
        for (i, s) in starts.iter().enumerate() {
            out[i] = tick_array_pda(&pk, *s);
        }
        out
    }

    /// A v2 instruction built with `remaining_accounts_info: None` (the last byte of its data) re-issued with the given slices
    /// (accounts type number, keys) appended; unchanged when there is no slice.
    pub fn with_remaining(mut ix: Instruction, slices: &[(u8, Vec<Pubkey>)]) -> Instruction {
        let slices: Vec<&(u8, Vec<Pubkey>)> = slices.iter().filter(|(_, k)| !k.is_empty()).collect();
        if slices.is_empty() {
            return ix;
        }
        assert_eq!(ix.data.pop(), Some(0), "instruction was built with remaining accounts already");
        ix.data.push(1);
        ix.data.extend_from_slice(&(slices.len() as u32).to_le_bytes());
        for (t, keys) in &slices {
            ix.data.push(*t);
            ix.data.push(keys.len() as u8);
        }
        for (_, keys) in slices {
            for k in keys {
                ix.accounts.push(solana_program::instruction::AccountMeta::new_readonly(*k, false));
            }
        }
        ix
    }
    /// undo `with_remaining` for an instruction decorated with `n_slices` slices holding `n_keys` keys in total
    pub fn strip_remaining(mut ix: Instruction, n_slices: usize, n_keys: usize) -> Instruction {
        if n_slices == 0 {
            return ix;
        }
        let tail = 1 + 4 + 2 * n_slices;
        let l = ix.data.len();
        ix.data.truncate(l - tail);
        ix.data.push(0);
        let a = ix.accounts.len();
        ix.accounts.truncate(a - n_keys);
        ix
    }
    /// the accounts a transfer of `mint` needs for its transfer hook (the hook program; these hooks use no extra accounts)
    pub fn hook_accounts(mint: &MintInfo) -> Vec<Pubkey> {
        mint.hook.map(|h| vec![h]).unwrap_or_default()
    }

    // ---- swaps -----------------------------------------------------------------------------------
    pub fn ix_swap(&self, pool: usize, user: usize, p: &SwapParams) -> Instruction {
        let tas = self.swap_arrays(pool, p.a_to_b);
        self.ix_swap_with_arrays(pool, user, p, tas)
    }
    pub fn ix_swap_with_arrays(&self, pool: usize, user: usize, p: &SwapParams, tas: [Pubkey; 3]) -> Instruction {
        let pl = &self.pools[pool];
        let mut ix = ixb(
            wa::Swap {
                token_program: TOKEN,
                token_authority: self.users[user].key,
                whirlpool: pl.key,
                token_owner_account_a: self.user_token_existing(user, &pl.mint_a.key),
                token_vault_a: pl.vault_a,
                token_owner_account_b: self.user_token_existing(user, &pl.mint_b.key),
                token_vault_b: pl.vault_b,
                tick_array_0: tas[0],
                tick_array_1: tas[1],
                tick_array_2: tas[2],
                oracle: pl.oracle,
            },
            wi::Swap {
                amount: p.amount,
                other_amount_threshold: p.threshold,
                sqrt_price_limit: p.sqrt_price_limit,
                amount_specified_is_input: p.exact_in,
                a_to_b: p.a_to_b,
            },
        );
        if pl.adaptive {
            // adaptive-fee pools need the oracle writable
            let n = ix.accounts.len();
            ix.accounts[n - 1].is_writable = true;
        }
        ix
    }
    pub fn ix_swap_v2(&self, pool: usize, user: usize, p: &SwapParams) -> Instruction {
        let tas = self.swap_arrays(pool, p.a_to_b);
        self.ix_swap_v2_with_arrays(pool, user, p, tas, &self.swap_supplemental.clone())
    }
    pub fn ix_swap_v2_with_arrays(&self, pool: usize, user: usize, p: &SwapParams, tas: [Pubkey; 3], supplemental: &[Pubkey]) -> Instruction {
        let pl = &self.pools[pool];
        let ix = ixb(
            wa::SwapV2 {
                token_program_a: pl.mint_a.program,
                token_program_b: pl.mint_b.program,
                memo_program: MEMO,
                token_authority: self.users[user].key,
                whirlpool: pl.key,
                token_mint_a: pl.mint_a.key,
                token_mint_b: pl.mint_b.key,
                token_owner_account_a: self.user_token_existing(user, &pl.mint_a.key),
                token_vault_a: pl.vault_a,
                token_owner_account_b: self.user_token_existing(user, &pl.mint_b.key),
                token_vault_b: pl.vault_b,
                tick_array_0: tas[0],
                tick_array_1: tas[1],
                tick_array_2: tas[2],
                oracle: pl.oracle,
            },
            wi::SwapV2 {
                amount: p.amount,
                other_amount_threshold: p.threshold,
                sqrt_price_limit: p.sqrt_price_limit,
                amount_specified_is_input: p.exact_in,
                a_to_b: p.a_to_b,
                remaining_accounts_info: None,
            },
        );
        // TransferHookA, TransferHookB, SupplementalTickArrays
        let mut ix = World::with_remaining(ix, &[(0, World::hook_accounts(&pl.mint_a)), (1, World::hook_accounts(&pl.mint_b)), (6, supplemental.to_vec())]);
        // supplemental tick arrays are writable accounts
        for m in ix.accounts.iter_mut() {
            if supplemental.contains(&m.pubkey) {
                m.is_writable = true;
            }
        }
        ix
    }

    // ---- positions -------------------------------------------------------------------------------
    /// builds the open instruction and the bookkeeping entry (pushed only if the caller sees success)
    pub fn prep_open_position(&mut self, pool: usize, owner: usize, lower: i32, upper: i32, kind: PosKind) -> (Instruction, PosInfo) {
        let pl = self.pools[pool].clone();
        let ownerk = self.users[owner].key;
        let mint = self.fresh_mint_key();
        let (position, bump) = position_pda(&mint);
        match kind {
            PosKind::Plain => {
                let ta = ata_of(&ownerk, &mint, &TOKEN);
                let ix = ixb(
                    wa::OpenPosition {
                        funder: ownerk,
                        owner: ownerk,
                        position,
                        position_mint: mint,
                        position_token_account: ta,
                        whirlpool: pl.key,
                        token_program: TOKEN,
                        system_program: SYS,
                        rent: sysvar::rent::ID,
                        associated_token_program: ATA,
                    },
                    wi::OpenPosition { bumps: whirlpool::state::OpenPositionBumps { position_bump: bump }, tick_lower_index: lower, tick_upper_index: upper },
                );
                (ix, PosInfo { kind, pool, owner, mint, position, token_account: ta, token_program: TOKEN, lower, upper, bundle: None, open: true })
            }
            PosKind::Metadata => {
                let ta = ata_of(&ownerk, &mint, &TOKEN);
                let (md, md_bump) = Pubkey::find_program_address(&[b"metadata", metadata_program().as_ref(), mint.as_ref()], &metadata_program());
                let ix = ixb(
                    wa::OpenPositionWithMetadata {
                        funder: ownerk,
                        owner: ownerk,
                        position,
                        position_mint: mint,
                        position_metadata_account: md,
                        position_token_account: ta,
                        whirlpool: pl.key,
                        token_program: TOKEN,
                        system_program: SYS,
                        rent: sysvar::rent::ID,
                        associated_token_program: ATA,
                        metadata_program: metadata_program(),
                        metadata_update_auth: metadata_update_auth(),
                    },
                    wi::OpenPositionWithMetadata {
                        bumps: whirlpool::state::OpenPositionWithMetadataBumps { position_bump: bump, metadata_bump: md_bump },
                        tick_lower_index: lower,
                        tick_upper_index: upper,
                    },
                );
                (ix, PosInfo { kind, pool, owner, mint, position, token_account: ta, token_program: TOKEN, lower, upper, bundle: None, open: true })
            }
            PosKind::TokenExt | PosKind::TokenExtMeta => {
                let ta = ata_of(&ownerk, &mint, &TOKEN22);
                let ix = ixb(
                    wa::OpenPositionWithTokenExtensions {
                        funder: ownerk,
                        owner: ownerk,
                        position,
                        position_mint: mint,
                        position_token_account: ta,
                        whirlpool: pl.key,
                        token_2022_program: TOKEN22,
                        system_program: SYS,
                        associated_token_program: ATA,
                        metadata_update_auth: metadata_update_auth(),
                    },
                    wi::OpenPositionWithTokenExtensions { tick_lower_index: lower, tick_upper_index: upper, with_token_metadata_extension: kind == PosKind::TokenExtMeta },
                );
                (ix, PosInfo { kind, pool, owner, mint, position, token_account: ta, token_program: TOKEN22, lower, upper, bundle: None, open: true })
            }
            PosKind::Bundled => panic!("use prep_open_bundled"),
        }
    }

    pub fn open_position(&mut self, pool: usize, owner: usize, lower: i32, upper: i32, kind: PosKind) -> Result<usize, Outcome> {
        let (ix, info) = self.prep_open_position(pool, owner, lower, upper, kind);
        let o = self.exec(&ix);
        if !o.ok() {
            return Err(o);
        }
        self.positions.push(info);
        Ok(self.positions.len() - 1)
    }

    pub fn init_bundle(&mut self, owner: usize) -> Result<usize, Outcome> {
        self.init_bundle_kind(owner, false)
    }
    /// `with_metadata`: through initialize_position_bundle_with_metadata (the Metaplex CPI is a stub)
    pub fn init_bundle_kind(&mut self, owner: usize, with_metadata: bool) -> Result<usize, Outcome> {
        let ownerk = self.users[owner].key;
        let mint = self.fresh_mint_key();
        let bundle = position_bundle_pda(&mint);
        let ta = ata_of(&ownerk, &mint, &TOKEN);
        if with_metadata {
            let (md, _) = Pubkey::find_program_address(&[b"metadata", metadata_program().as_ref(), mint.as_ref()], &metadata_program());
            let o = self.exec(&ixb(
                wa::InitializePositionBundleWithMetadata {
                    position_bundle: bundle,
                    position_bundle_mint: mint,
                    position_bundle_metadata: md,
                    position_bundle_token_account: ta,
                    position_bundle_owner: ownerk,
                    funder: ownerk,
                    metadata_update_auth: metadata_update_auth(),
                    token_program: TOKEN,
                    system_program: SYS,
                    rent: sysvar::rent::ID,
                    associated_token_program: ATA,
                    metadata_program: metadata_program(),
                },
                wi::InitializePositionBundleWithMetadata {},
            ));
            if !o.ok() {
                return Err(o);
            }
            self.bundles.push(BundleInfo { mint, bundle, token_account: ta, owner });
            return Ok(self.bundles.len() - 1);
        }
        let o = self.exec(&ixb(
            wa::InitializePositionBundle {
                position_bundle: bundle,
                position_bundle_mint: mint,
                position_bundle_token_account: ta,
                position_bundle_owner: ownerk,
                funder: ownerk,
                token_program: TOKEN,
                system_program: SYS,
                rent: sysvar::rent::ID,
                associated_token_program: ATA,
            },
            wi::InitializePositionBundle {},
        ));
        if !o.ok() {
            return Err(o);
        }
        self.bundles.push(BundleInfo { mint, bundle, token_account: ta, owner });
        Ok(self.bundles.len() - 1)
    }

    pub fn prep_open_bundled(&self, bundle: usize, index: u16, pool: usize, lower: i32, upper: i32) -> (Instruction, PosInfo) {
        let b = &self.bundles[bundle];
        let ownerk = self.users[b.owner].key;
        let position = bundled_position_pda(&b.mint, index);
        let ix = ixb(
            wa::OpenBundledPosition {
                bundled_position: position,
                position_bundle: b.bundle,
                position_bundle_token_account: b.token_account,
                position_bundle_authority: ownerk,
                whirlpool: self.pools[pool].key,
                funder: ownerk,
                system_program: SYS,
                rent: sysvar::rent::ID,
            },
            wi::OpenBundledPosition { bundle_index: index, tick_lower_index: lower, tick_upper_index: upper },
        );
        (
            ix,
            PosInfo {
                kind: PosKind::Bundled,
                pool,
                owner: b.owner,
                mint: b.mint,
                position,
                token_account: b.token_account,
                token_program: TOKEN,
                lower,
                upper,
                bundle: Some((bundle, index)),
                open: true,
            },
        )
    }

    pub fn ix_close_position(&self, pos: usize) -> Instruction {
        let p = &self.positions[pos];
        let ownerk = self.users[p.owner].key;
        match p.kind {
            PosKind::Plain | PosKind::Metadata => ixb(
                wa::ClosePosition { position_authority: ownerk, receiver: ownerk, position: p.position, position_mint: p.mint, position_token_account: p.token_account, token_program: TOKEN },
                wi::ClosePosition {},
            ),
            PosKind::TokenExt | PosKind::TokenExtMeta => ixb(
                wa::ClosePositionWithTokenExtensions {
                    position_authority: ownerk,
                    receiver: ownerk,
                    position: p.position,
                    position_mint: p.mint,
                    position_token_account: p.token_account,
                    token_2022_program: TOKEN22,
                },
                wi::ClosePositionWithTokenExtensions {},
            ),
            PosKind::Bundled => {
                let (b, index) = p.bundle.unwrap();
                let bi = &self.bundles[b];
                ixb(
                    wa::CloseBundledPosition {
                        bundled_position: p.position,
                        position_bundle: bi.bundle,
                        position_bundle_token_account: bi.token_account,
                        position_bundle_authority: ownerk,
                        receiver: ownerk,
                    },
                    wi::CloseBundledPosition { bundle_index: index },
                )
            }
        }
    }

    /// start indexes of the arrays named for the position's bounds (honours `array_skew`)
    pub fn pos_array_starts(&self, pos: usize) -> (i32, i32) {
        let p = &self.positions[pos];
        let pl = &self.pools[p.pool];
        let n = 88 * pl.tick_spacing as i32;
        let (mut sl, mut su) = (array_start(p.lower, pl.tick_spacing), array_start(p.upper, pl.tick_spacing));
        match self.array_skew {
            Some((0, k)) => sl = sl.saturating_add(k.saturating_mul(n)),
            Some((1, k)) => su = su.saturating_add(k.saturating_mul(n)),
            Some((2, _)) => std::mem::swap(&mut sl, &mut su),
            _ => {}
        }
        (sl, su)
    }
    fn pos_arrays(&self, pos: usize) -> (Pubkey, Pubkey) {
        let pk = self.pools[self.positions[pos].pool].key;
        let (sl, su) = self.pos_array_starts(pos);
        (tick_array_pda(&pk, sl), tick_array_pda(&pk, su))
    }

    fn modify_accounts_v1(&self, pos: usize) -> wa::ModifyLiquidity {
        let p = &self.positions[pos];
        let pl = &self.pools[p.pool];
        let (tl, tu) = self.pos_arrays(pos);
        wa::ModifyLiquidity {
            whirlpool: pl.key,
            token_program: TOKEN,
            position_authority: self.users[p.owner].key,
            position: p.position,
            position_token_account: p.token_account,
            token_owner_account_a: self.user_token_existing(p.owner, &pl.mint_a.key),
            token_owner_account_b: self.user_token_existing(p.owner, &pl.mint_b.key),
            token_vault_a: pl.vault_a,
            token_vault_b: pl.vault_b,
            tick_array_lower: tl,
            tick_array_upper: tu,
        }
    }
    fn modify_accounts_v2(&self, pos: usize) -> wa::ModifyLiquidityV2 {
        let p = &self.positions[pos];
        let pl = &self.pools[p.pool];
        let (tl, tu) = self.pos_arrays(pos);
        wa::ModifyLiquidityV2 {
            whirlpool: pl.key,
            token_program_a: pl.mint_a.program,
            token_program_b: pl.mint_b.program,
            memo_program: MEMO,
            position_authority: self.users[p.owner].key,
            position: p.position,
            position_token_account: p.token_account,
            token_mint_a: pl.mint_a.key,
            token_mint_b: pl.mint_b.key,
            token_owner_account_a: self.user_token_existing(p.owner, &pl.mint_a.key),
            token_owner_account_b: self.user_token_existing(p.owner, &pl.mint_b.key),
            token_vault_a: pl.vault_a,
            token_vault_b: pl.vault_b,
            tick_array_lower: tl,
            tick_array_upper: tu,
        }
    }

    pub fn ix_increase(&self, pos: usize, liquidity: u128, max_a: u64, max_b: u64, v2: bool) -> Instruction {
        if v2 {
            self.hooked_ab(self.positions[pos].pool, ixb(self.modify_accounts_v2(pos), wi::IncreaseLiquidityV2 { liquidity_amount: liquidity, token_max_a: max_a, token_max_b: max_b, remaining_accounts_info: None }))
        } else {
            ixb(self.modify_accounts_v1(pos), wi::IncreaseLiquidity { liquidity_amount: liquidity, token_max_a: max_a, token_max_b: max_b })
        }
    }
    pub fn ix_decrease(&self, pos: usize, liquidity: u128, min_a: u64, min_b: u64, v2: bool) -> Instruction {
        if v2 {
            self.hooked_ab(self.positions[pos].pool, ixb(self.modify_accounts_v2(pos), wi::DecreaseLiquidityV2 { liquidity_amount: liquidity, token_min_a: min_a, token_min_b: min_b, remaining_accounts_info: None }))
        } else {
            ixb(self.modify_accounts_v1(pos), wi::DecreaseLiquidity { liquidity_amount: liquidity, token_min_a: min_a, token_min_b: min_b })
        }
    }
    /// hook slices TransferHookA (0) / TransferHookB (1) for the pool's mints
    pub fn hooked_ab(&self, pool: usize, ix: Instruction) -> Instruction {
        let pl = &self.pools[pool];
        World::with_remaining(ix, &[(0, World::hook_accounts(&pl.mint_a)), (1, World::hook_accounts(&pl.mint_b))])
    }
    pub fn ix_increase_by_amounts(&self, pos: usize, max_a: u64, max_b: u64, min_sqrt_price: u128, max_sqrt_price: u128) -> Instruction {
        let pool = self.positions[pos].pool;
        self.hooked_ab(pool, self.ix_increase_by_amounts_plain(pos, max_a, max_b, min_sqrt_price, max_sqrt_price))
    }
    fn ix_increase_by_amounts_plain(&self, pos: usize, max_a: u64, max_b: u64, min_sqrt_price: u128, max_sqrt_price: u128) -> Instruction {
        ixb(
            self.modify_accounts_v2(pos),
            wi::IncreaseLiquidityByTokenAmountsV2 {
                method: whirlpool::instructions::IncreaseLiquidityMethod::ByTokenAmounts { token_max_a: max_a, token_max_b: max_b, min_sqrt_price, max_sqrt_price },
                remaining_accounts_info: None,
            },
        )
    }
    #[allow(clippy::too_many_arguments)]
    pub fn ix_reposition(&self, pos: usize, new_lower: i32, new_upper: i32, new_liquidity: u128, min_a: u64, min_b: u64, max_a: u64, max_b: u64) -> Instruction {
        let p = &self.positions[pos];
        let pl = &self.pools[p.pool];
        let (tl, tu) = self.pos_arrays(pos);
        let (ha, hb) = (World::hook_accounts(&pl.mint_a), World::hook_accounts(&pl.mint_b));
        let ix = ixb(
            wa::RepositionLiquidityV2 {
                whirlpool: pl.key,
                token_program_a: pl.mint_a.program,
                token_program_b: pl.mint_b.program,
                memo_program: MEMO,
                position_authority: self.users[p.owner].key,
                funder: self.users[p.owner].key,
                position: p.position,
                position_token_account: p.token_account,
                token_mint_a: pl.mint_a.key,
                token_mint_b: pl.mint_b.key,
                token_owner_account_a: self.user_token_existing(p.owner, &pl.mint_a.key),
                token_owner_account_b: self.user_token_existing(p.owner, &pl.mint_b.key),
                token_vault_a: pl.vault_a,
                token_vault_b: pl.vault_b,
                existing_tick_array_lower: tl,
                existing_tick_array_upper: tu,
                new_tick_array_lower: tick_array_pda(&pl.key, array_start(new_lower, pl.tick_spacing)),
                new_tick_array_upper: tick_array_pda(&pl.key, array_start(new_upper, pl.tick_spacing)),
                system_program: SYS,
            },
            wi::RepositionLiquidityV2 {
                new_tick_lower_index: new_lower,
                new_tick_upper_index: new_upper,
                method: whirlpool::instructions::RepositionLiquidityMethod::ByLiquidity {
                    new_liquidity_amount: new_liquidity,
                    existing_range_token_min_a: min_a,
                    existing_range_token_min_b: min_b,
                    new_range_token_max_a: max_a,
                    new_range_token_max_b: max_b,
                },
                remaining_accounts_info: None,
            },
        );
        // TransferHookDepositA / DepositB / WithdrawalA / WithdrawalB
        World::with_remaining(ix, &[(9, ha.clone()), (10, hb.clone()), (11, ha), (12, hb)])
    }

    pub fn ix_update_fees(&self, pos: usize) -> Instruction {
        let p = &self.positions[pos];
        let (tl, tu) = self.pos_arrays(pos);
        ixb(wa::UpdateFeesAndRewards { whirlpool: self.pools[p.pool].key, position: p.position, tick_array_lower: tl, tick_array_upper: tu }, wi::UpdateFeesAndRewards {})
    }
    pub fn ix_collect_fees(&self, pos: usize, v2: bool) -> Instruction {
        let p = &self.positions[pos];
        let pl = &self.pools[p.pool];
        let ownerk = self.users[p.owner].key;
        if v2 {
            let ix = ixb(
                wa::CollectFeesV2 {
                    whirlpool: pl.key,
                    position_authority: ownerk,
                    position: p.position,
                    position_token_account: p.token_account,
                    token_mint_a: pl.mint_a.key,
                    token_mint_b: pl.mint_b.key,
                    token_owner_account_a: self.user_token_existing(p.owner, &pl.mint_a.key),
                    token_vault_a: pl.vault_a,
                    token_owner_account_b: self.user_token_existing(p.owner, &pl.mint_b.key),
                    token_vault_b: pl.vault_b,
                    token_program_a: pl.mint_a.program,
                    token_program_b: pl.mint_b.program,
                    memo_program: MEMO,
                },
                wi::CollectFeesV2 { remaining_accounts_info: None },
            );
            return self.hooked_ab(p.pool, ix);
        } else {
            ixb(
                wa::CollectFees {
                    whirlpool: pl.key,
                    position_authority: ownerk,
                    position: p.position,
                    position_token_account: p.token_account,
                    token_owner_account_a: self.user_token_existing(p.owner, &pl.mint_a.key),
                    token_vault_a: pl.vault_a,
                    token_owner_account_b: self.user_token_existing(p.owner, &pl.mint_b.key),
                    token_vault_b: pl.vault_b,
                    token_program: TOKEN,
                },
                wi::CollectFees {},
            )
        }
    }
    pub fn ix_collect_protocol_fees(&self, pool: usize, dest_a: Pubkey, dest_b: Pubkey, v2: bool) -> Instruction {
        let pl = &self.pools[pool];
        let c = &self.configs[pl.config];
        if v2 {
            let ix = ixb(
                wa::CollectProtocolFeesV2 {
                    whirlpools_config: c.key,
                    whirlpool: pl.key,
                    collect_protocol_fees_authority: c.collect_protocol_fees_authority,
                    token_mint_a: pl.mint_a.key,
                    token_mint_b: pl.mint_b.key,
                    token_vault_a: pl.vault_a,
                    token_vault_b: pl.vault_b,
                    token_destination_a: dest_a,
                    token_destination_b: dest_b,
                    token_program_a: pl.mint_a.program,
                    token_program_b: pl.mint_b.program,
                    memo_program: MEMO,
                },
                wi::CollectProtocolFeesV2 { remaining_accounts_info: None },
            );
            return self.hooked_ab(pool, ix);
        } else {
            ixb(
                wa::CollectProtocolFees {
                    whirlpools_config: c.key,
                    whirlpool: pl.key,
                    collect_protocol_fees_authority: c.collect_protocol_fees_authority,
                    token_vault_a: pl.vault_a,
                    token_vault_b: pl.vault_b,
                    token_destination_a: dest_a,
                    token_destination_b: dest_b,
                    token_program: TOKEN,
                },
                wi::CollectProtocolFees {},
            )
        }
    }
    pub fn ix_set_fee_rate(&self, pool: usize, fee_rate: u16) -> Instruction {
        let pl = &self.pools[pool];
        let c = &self.configs[pl.config];
        ixb(wa::SetFeeRate { whirlpools_config: c.key, whirlpool: pl.key, fee_authority: c.fee_authority }, wi::SetFeeRate { fee_rate })
    }
    pub fn ix_set_protocol_fee_rate(&self, pool: usize, protocol_fee_rate: u16) -> Instruction {
        let pl = &self.pools[pool];
        let c = &self.configs[pl.config];
        ixb(wa::SetProtocolFeeRate { whirlpools_config: c.key, whirlpool: pl.key, fee_authority: c.fee_authority }, wi::SetProtocolFeeRate { protocol_fee_rate })
    }

    // ---- rewards ---------------------------------------------------------------------------------
    pub fn reward_authority(&self, pool: usize) -> Pubkey {
        Pubkey::new_from_array(self.pool_state(pool).rewards[0].extension)
    }
    pub fn ix_init_reward(&self, pool: usize, index: u8, mint: &MintInfo, vault: Pubkey, v2: bool) -> Instruction {
        let pl = &self.pools[pool];
        let auth = self.reward_authority(pool);
        if v2 {
            ixb(
                wa::InitializeRewardV2 {
                    reward_authority: auth,
                    funder: self.admin,
                    whirlpool: pl.key,
                    reward_mint: mint.key,
                    reward_token_badge: token_badge_pda(&self.configs[pl.config].key, &mint.key),
                    reward_vault: vault,
                    reward_token_program: mint.program,
                    system_program: SYS,
                    rent: sysvar::rent::ID,
                },
                wi::InitializeRewardV2 { reward_index: index },
            )
        } else {
            ixb(
                wa::InitializeReward { reward_authority: auth, funder: self.admin, whirlpool: pl.key, reward_mint: mint.key, reward_vault: vault, token_program: TOKEN, system_program: SYS, rent: sysvar::rent::ID },
                wi::InitializeReward { reward_index: index },
            )
        }
    }
    pub fn init_reward(&mut self, pool: usize, mint: &MintInfo, v2: bool) -> Result<usize, Outcome> {
        let index = self.pools[pool].rewards.len() as u8;
        let vault = self.new_signer();
        self.bank.accounts.remove(&vault);
        let ix = self.ix_init_reward(pool, index, mint, vault, v2);
        let o = self.exec(&ix);
        if !o.ok() {
            return Err(o);
        }
        self.pools[pool].rewards.push(RewardSlot { mint: mint.clone(), vault });
        Ok(index as usize)
    }
    pub fn ix_set_reward_emissions(&self, pool: usize, index: u8, emissions_per_second_x64: u128, v2: bool) -> Instruction {
        let pl = &self.pools[pool];
        let auth = self.reward_authority(pool);
        let vault = pl.rewards.get(index as usize).map(|r| r.vault).unwrap_or_default();
        if v2 {
            ixb(wa::SetRewardEmissionsV2 { whirlpool: pl.key, reward_authority: auth, reward_vault: vault }, wi::SetRewardEmissionsV2 { reward_index: index, emissions_per_second_x64 })
        } else {
            ixb(wa::SetRewardEmissions { whirlpool: pl.key, reward_authority: auth, reward_vault: vault }, wi::SetRewardEmissions { reward_index: index, emissions_per_second_x64 })
        }
    }
    pub fn ix_collect_reward(&self, pos: usize, index: u8, dest: Pubkey, v2: bool) -> Instruction {
        let p = &self.positions[pos];
        let pl = &self.pools[p.pool];
        let ownerk = self.users[p.owner].key;
        let r = &pl.rewards[index as usize];
        if v2 {
            let ix = ixb(
                wa::CollectRewardV2 {
                    whirlpool: pl.key,
                    position_authority: ownerk,
                    position: p.position,
                    position_token_account: p.token_account,
                    reward_owner_account: dest,
                    reward_mint: r.mint.key,
                    reward_vault: r.vault,
                    reward_token_program: r.mint.program,
                    memo_program: MEMO,
                },
                wi::CollectRewardV2 { reward_index: index, remaining_accounts_info: None },
            );
            // TransferHookReward
            return World::with_remaining(ix, &[(2, World::hook_accounts(&r.mint))]);
        } else {
            ixb(
                wa::CollectReward {
                    whirlpool: pl.key,
                    position_authority: ownerk,
                    position: p.position,
                    position_token_account: p.token_account,
                    reward_owner_account: dest,
                    reward_vault: r.vault,
                    token_program: TOKEN,
                },
                wi::CollectReward { reward_index: index },
            )
        }
    }
}

#[derive(Clone, Debug, PartialEq, Eq, serde::Serialize, serde::Deserialize, Hash)]
pub struct SwapParams {
    pub amount: u64,
    pub threshold: u64,
    #[serde(with = "crate::ser::u128s")]
    pub sqrt_price_limit: u128,
    pub exact_in: bool,
    pub a_to_b: bool,
}

impl SwapParams {
    pub fn neutral_threshold(exact_in: bool) -> u64 {
        if exact_in {
            0
        } else {
            u64::MAX
        }
    }
}

/// harness-side restatement of which (up to three) arrays a swap uses
pub fn swap_array_starts(tick_current: i32, spacing: u16, a_to_b: bool) -> Vec<i32> {
    let ts = spacing as i32;
    let n = 88 * ts;
    let base = floor_div(tick_current, n) * n;
    let offs: [i32; 3] = if a_to_b {
        [0, -1, -2]
    } else if tick_current + ts >= base + n {
        [1, 2, 3]
    } else {
        [0, 1, 2]
    };
    let min_start = floor_div(crate::model::MIN_TICK, n) * n;
    offs.iter().map(|o| base + o * n).filter(|s| *s >= min_start && *s <= crate::model::MAX_TICK).collect()
}

#[derive(Clone, Debug, PartialEq, Eq, serde::Serialize, serde::Deserialize, Hash)]
pub struct TwoHopParams {
    pub amount: u64,
    pub threshold: u64,
    pub exact_in: bool,
    pub a_to_b_one: bool,
    pub a_to_b_two: bool,
    #[serde(with = "crate::ser::u128s")]
    pub limit_one: u128,
    #[serde(with = "crate::ser::u128s")]
    pub limit_two: u128,
}

impl World {
    pub fn mint_of(&self, pool: usize, a: bool) -> MintInfo {
        if a {
            self.pools[pool].mint_a.clone()
        } else {
            self.pools[pool].mint_b.clone()
        }
    }

    /// two-hop swap `p1` then `p2` (v1: both pools over SPL Token)
    pub fn ix_two_hop(&self, p1: usize, p2: usize, user: usize, p: &TwoHopParams, v2: bool) -> Instruction {
        let (one, two) = (&self.pools[p1], &self.pools[p2]);
        let t1 = self.swap_arrays(p1, p.a_to_b_one);
        let t2 = self.swap_arrays(p2, p.a_to_b_two);
        let tok = |m: &Pubkey| self.users[user].tokens.iter().find(|(k, _)| k == m).map(|(_, t)| *t).unwrap_or_default();
        let mut ix = if !v2 {
            ixb(
                wa::TwoHopSwap {
                    token_program: TOKEN,
                    token_authority: self.users[user].key,
                    whirlpool_one: one.key,
                    whirlpool_two: two.key,
                    token_owner_account_one_a: tok(&one.mint_a.key),
                    token_vault_one_a: one.vault_a,
                    token_owner_account_one_b: tok(&one.mint_b.key),
                    token_vault_one_b: one.vault_b,
                    token_owner_account_two_a: tok(&two.mint_a.key),
                    token_vault_two_a: two.vault_a,
                    token_owner_account_two_b: tok(&two.mint_b.key),
                    token_vault_two_b: two.vault_b,
                    tick_array_one_0: t1[0],
                    tick_array_one_1: t1[1],
                    tick_array_one_2: t1[2],
                    tick_array_two_0: t2[0],
                    tick_array_two_1: t2[1],
                    tick_array_two_2: t2[2],
                    oracle_one: one.oracle,
                    oracle_two: two.oracle,
                },
                wi::TwoHopSwap {
                    amount: p.amount,
                    other_amount_threshold: p.threshold,
                    amount_specified_is_input: p.exact_in,
                    a_to_b_one: p.a_to_b_one,
                    a_to_b_two: p.a_to_b_two,
                    sqrt_price_limit_one: p.limit_one,
                    sqrt_price_limit_two: p.limit_two,
                },
            )
        } else {
            let (m_in, v_one_in, v_one_mid, m_mid) = if p.a_to_b_one { (&one.mint_a, one.vault_a, one.vault_b, &one.mint_b) } else { (&one.mint_b, one.vault_b, one.vault_a, &one.mint_a) };
            let (v_two_mid, v_two_out, m_out) = if p.a_to_b_two { (two.vault_a, two.vault_b, &two.mint_b) } else { (two.vault_b, two.vault_a, &two.mint_a) };
            ixb(
                wa::TwoHopSwapV2 {
                    whirlpool_one: one.key,
                    whirlpool_two: two.key,
                    token_mint_input: m_in.key,
                    token_mint_intermediate: m_mid.key,
                    token_mint_output: m_out.key,
                    token_program_input: m_in.program,
                    token_program_intermediate: m_mid.program,
                    token_program_output: m_out.program,
                    token_owner_account_input: tok(&m_in.key),
                    token_vault_one_input: v_one_in,
                    token_vault_one_intermediate: v_one_mid,
                    token_vault_two_intermediate: v_two_mid,
                    token_vault_two_output: v_two_out,
                    token_owner_account_output: tok(&m_out.key),
                    token_authority: self.users[user].key,
                    tick_array_one_0: t1[0],
                    tick_array_one_1: t1[1],
                    tick_array_one_2: t1[2],
                    tick_array_two_0: t2[0],
                    tick_array_two_1: t2[1],
                    tick_array_two_2: t2[2],
                    oracle_one: one.oracle,
                    oracle_two: two.oracle,
                    memo_program: MEMO,
                },
                wi::TwoHopSwapV2 {
                    amount: p.amount,
                    other_amount_threshold: p.threshold,
                    amount_specified_is_input: p.exact_in,
                    a_to_b_one: p.a_to_b_one,
                    a_to_b_two: p.a_to_b_two,
                    sqrt_price_limit_one: p.limit_one,
                    sqrt_price_limit_two: p.limit_two,
                    remaining_accounts_info: None,
                },
            )
        };
        // adaptive-fee pools need their oracle writable
        let mut ix = ix;
        for m in ix.accounts.iter_mut() {
            if (m.pubkey == one.oracle && one.adaptive) || (m.pubkey == two.oracle && two.adaptive) {
                m.is_writable = true;
            }
        }
        if v2 {
            // TransferHookInput / Intermediate / Output
            let m_in = if p.a_to_b_one { &one.mint_a } else { &one.mint_b };
            let m_mid = if p.a_to_b_one { &one.mint_b } else { &one.mint_a };
            let m_out = if p.a_to_b_two { &two.mint_b } else { &two.mint_a };
            ix = World::with_remaining(ix, &[(3, World::hook_accounts(m_in)), (4, World::hook_accounts(m_mid)), (5, World::hook_accounts(m_out))]);
        }
        ix
    }
}
