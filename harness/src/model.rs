//! Reference arithmetic on arbitrary-precision integers (no call into `whirlpool` or the SDK).
use num_bigint::{BigInt, BigUint};
use num_traits::{One, ToPrimitive, Zero};

pub const MIN_SQRT_PRICE: u128 = 4295048016;
pub const MAX_SQRT_PRICE: u128 = 79226673515401279992447579055;
pub const MIN_TICK: i32 = -443636;
pub const MAX_TICK: i32 = 443636;
pub const FEE_DEN: u32 = 1_000_000;
pub const PROTOCOL_FEE_DEN: u32 = 10_000;

pub fn b(x: u128) -> BigUint {
    BigUint::from(x)
}
pub fn bi(x: u128) -> BigInt {
    BigInt::from(x)
}
pub fn pow2(k: u32) -> BigUint {
    BigUint::one() << k
}
pub fn ceil_div(n: &BigUint, d: &BigUint) -> BigUint {
    (n + d - 1u32) / d
}
pub fn div(n: &BigUint, d: &BigUint, up: bool) -> BigUint {
    if up {
        ceil_div(n, d)
    } else {
        n / d
    }
}
pub fn to_u64(x: &BigUint) -> Option<u64> {
    x.to_u64()
}
pub fn to_u128(x: &BigUint) -> Option<u128> {
    x.to_u128()
}

/// exact token-A amount for liquidity `l` between two sqrt prices, as (numerator, denominator)
pub fn a_frac(l: u128, p0: u128, p1: u128) -> (BigUint, BigUint) {
    let (lo, hi) = if p0 < p1 { (p0, p1) } else { (p1, p0) };
    ((b(l) << 64u32) * b(hi - lo), b(lo) * b(hi))
}
/// exact token-B amount for liquidity `l` between two sqrt prices, as (numerator, denominator)
pub fn b_frac(l: u128, p0: u128, p1: u128) -> (BigUint, BigUint) {
    let (lo, hi) = if p0 < p1 { (p0, p1) } else { (p1, p0) };
    (b(l) * b(hi - lo), pow2(64))
}
pub fn amt_a(l: u128, lo: u128, hi: u128, up: bool) -> BigUint {
    if lo >= hi {
        return BigUint::zero();
    }
    let (n, d) = a_frac(l, lo, hi);
    div(&n, &d, up)
}
pub fn amt_b(l: u128, lo: u128, hi: u128, up: bool) -> BigUint {
    if lo >= hi {
        return BigUint::zero();
    }
    let (n, d) = b_frac(l, lo, hi);
    div(&n, &d, up)
}

/// fee charged on a curve input at `rate` (hundredths of a bp): ceil(in * r / (1e6 - r))
pub fn fee_on_input(amount_in: u64, rate: u32) -> BigUint {
    ceil_div(&(b(amount_in as u128) * rate), &BigUint::from(FEE_DEN - rate))
}
/// floor(amount * (1e6 - r) / 1e6): the exact-in budget net of fee
pub fn net_of_fee(amount: u64, rate: u32) -> BigUint {
    (b(amount as u128) * (FEE_DEN - rate)) / FEE_DEN
}

/// Position token amounts (price based, tick free): A over [clamp(p), pu], B over [pl, clamp(p)].
pub fn position_amounts(l: u128, p: u128, pl: u128, pu: u128, up: bool) -> (BigUint, BigUint) {
    // a range with its bounds in the wrong order exists only where a program defect admitted it: it covers nothing and is worth nothing
    // (the checks that own the range rules report it; this function must not take the process down first)
    if pl >= pu {
        return (BigUint::from(0u8), BigUint::from(0u8));
    }
    let pc = p.clamp(pl, pu);
    (amt_a(l, pc, pu, up), amt_b(l, pl, pc, up))
}

/// floor(l * growth_delta / 2^64) with wrapping growth delta, None when it does not fit u64
/// (the program drops such amounts to 0)
pub fn owed_delta(l: u128, growth_delta: u128) -> BigUint {
    (b(l) * b(growth_delta)) >> 64u32
}

/// a liquidity whose exact (unrounded) amount of one token lies in [target, target + 1): the inverse of the
/// cost function, so that the rounded amounts land on chosen boundaries of the u64 result type
pub fn liquidity_for_amount(p: u128, pl: u128, pu: u128, token_a: bool, target: u128, frac: u32) -> Option<u128> {
    if pl >= pu {
        return None;
    }
    let pc = p.clamp(pl, pu);
    let t = (b(target) << 32u32) + BigUint::from(frac);
    let l = if token_a {
        if pc >= pu {
            return None;
        }
        // amount_a = L * 2^64 * (pu - pc) / (pc * pu)
        (t * b(pc) * b(pu)) / ((b(pu - pc)) << 96u32)
    } else {
        if pc <= pl {
            return None;
        }
        // amount_b = L * (pc - pl) / 2^64
        (t << 32u32) / b(pc - pl)
    };
    l.to_u128()
}

pub const AMOUNT_TARGETS: &[u128] = &[0, 1, 2, (1 << 32) - 1, 1 << 32, (1 << 63) - 1, 1 << 63, u64::MAX as u128 - 1, u64::MAX as u128, 1 << 64, (1 << 64) + 1];

