use serde_json::Value;
use std::time::Instant;
use wpv::runner::*;

fn usage() -> ! {
    eprintln!("usage: wpv check <ID> [--tier quick|thorough] [--replay FILE]\n       wpv list");
    std::process::exit(2)
}

fn main() {
    let args: Vec<String> = std::env::args().collect();
    if args.len() < 2 {
        usage();
    }
    match args[1].as_str() {
        "list" => {
            for d in wpv::checks::all() {
                println!("{} {}", d.id, d.subs.iter().map(|s| s.name).collect::<Vec<_>>().join(","));
            }
        }
        "dbg-hook" => {
            // development aid: one hooked pool, a few instructions, logs printed
            use wpv::history::*;
            wpv::rt::install();
            let mut spec: WorldSpec = serde_json::from_str(r#"{"tick_spacing":64,"start_tick":0,"start_price_offset":0,"fee_rate":3000,"protocol_fee_rate":300,"dynamic_mask":0,"n_lps":2,"n_traders":1,"growth_a0":"0","growth_b0":"0","rewards":[],"reward_growth0_hi":0}"#).unwrap();
            spec.mint_kind = 3;
            spec.hook1 = true;
            spec.hook2 = args.len() > 2;
            let mut h = Hist::build(&spec).expect("world");
            for op in [
                Op::Open { lp: 0, kind: wpv::world::PosKind::Plain, range: RangeSel::Rel { lo: -2, hi: 2 } },
                Op::Increase { pos: 0, liquidity: 1_000_000, variant: IncVariant::V2 },
                Op::Swap { trader: 0, a_to_b: true, exact_in: true, amount: 1000, limit: LimitSel::None, v2: true },
                Op::Decrease { pos: 0, amount: DecSel::Frac(30000), v2: true },
                Op::CollectFees { pos: 0, v2: true },
                Op::CollectProtocolFees { v2: true },
            ] {
                let r = h.exec(&op);
                println!("{op:?} -> {:?}", r.did);
                if let Some(o) = &r.outcome {
                    for l in o.logs.iter().rev().take(6).rev() {
                        println!("    {l}");
                    }
                }
            }
            println!("hook executions: {}", wpv::rt::HOOK_CALLS.load(std::sync::atomic::Ordering::Relaxed));
        }
        "check" => {
            if args.len() < 3 {
                usage();
            }
            let id = args[2].to_uppercase();
            let mut tier = match std::env::var("VERIF_TIER").as_deref() {
                Ok("thorough") => Tier::Thorough,
                _ => Tier::Quick,
            };
            let mut replay: Option<String> = None;
            let mut only: Option<String> = None;
            let mut i = 3;
            while i < args.len() {
                match args[i].as_str() {
                    "--tier" => {
                        i += 1;
                        tier = match args.get(i).map(|s| s.as_str()) {
                            Some("quick") => Tier::Quick,
                            Some("thorough") => Tier::Thorough,
                            _ => usage(),
                        }
                    }
                    "quick" => tier = Tier::Quick,
                    "thorough" => tier = Tier::Thorough,
                    "--replay" => {
                        i += 1;
                        replay = Some(args.get(i).cloned().unwrap_or_else(|| usage()));
                    }
                    "--only" => {
                        i += 1;
                        only = Some(args.get(i).cloned().unwrap_or_else(|| usage()));
                    }
                    _ => usage(),
                }
                i += 1;
            }
            let seed: u64 = std::env::var("VERIF_SEED").ok().and_then(|s| s.trim().parse::<i128>().ok()).map(|v| v as u64).unwrap_or(0);
            let threads: usize = std::env::var("VERIF_THREADS").ok().and_then(|s| s.parse().ok()).unwrap_or(16);
            let scale: f64 = std::env::var("VERIF_SCALE").ok().and_then(|s| s.parse().ok()).unwrap_or(1.0);
            let ctx = Ctx { id: id.clone(), tier, seed, threads, scale };
            std::process::exit(wpv::driver::run_check(&ctx, replay.as_deref(), only.as_deref()));
        }
        "rules" => {
            // the rule each check applies, as stated in its definition (DESIGN.md section 9.7 is generated from this)
            for d in wpv::checks::all() {
                let rule = d.rule.split_whitespace().collect::<Vec<_>>().join(" ");
                println!("#### {}\n\nSub-checks: {}.\n\n{}\n\nAssumptions: {}\n", d.id, d.subs.iter().map(|s| format!("`{}`", s.name)).collect::<Vec<_>>().join(", "), rule, d.assumptions.join("; "));
            }
        }
        "fuzz-decode" => {
            // wpv fuzz-decode swapstep <file>: the structured case a fuzz input stands for
            let data = std::fs::read(args.get(3).unwrap_or_else(|| usage())).expect("read input");
            match args.get(2).map(|s| s.as_str()) {
                Some("swapstep") => println!("{}", serde_json::to_string_pretty(&wpv::fuzz::decode_swapstep(&data)).unwrap()),
                _ => usage(),
            }
        }
        _ => usage(),
    }
    let _ = (Instant::now(), Value::Null);
}
