//! Syscall functions.

use crate::{
    instruction::{AccountMeta, ProcessedSiblingInstruction},
    pubkey::Pubkey,
};

#[cfg(target_feature = "static-syscalls")]
macro_rules! define_syscall {
    (fn $name:ident($($arg:ident: $typ:ty),*) -> $ret:ty) => {
		#[inline]
        pub unsafe fn $name($($arg: $typ),*) -> $ret {
			// this enum is used to force the hash to be computed in a const context
			#[repr(usize)]
			enum Syscall {
				Code = sys_hash(stringify!($name)),
			}

            let syscall: extern "C" fn($($arg: $typ),*) -> $ret = core::mem::transmute(Syscall::Code);
            syscall($($arg),*)
        }

    };
    (fn $name:ident($($arg:ident: $typ:ty),*)) => {
        define_syscall!(fn $name($($arg: $typ),*) -> ());
    }
}

#[cfg(not(target_feature = "static-syscalls"))]
macro_rules! define_syscall {
	(fn $name:ident($($arg:ident: $typ:ty),*) -> $ret:ty) => {
		extern "C" {
            /// Syscall function.
			pub fn $name($($arg: $typ),*) -> $ret;
		}
	};
	(fn $name:ident($($arg:ident: $typ:ty),*)) => {
		define_syscall!(fn $name($($arg: $typ),*) -> ());
	}
}

define_syscall!(fn sol_log_(message: *const u8, len: u64));
define_syscall!(fn sol_log_64_(arg1: u64, arg2: u64, arg3: u64, arg4: u64, arg5: u64));
define_syscall!(fn sol_log_compute_units_());
define_syscall!(fn sol_log_pubkey(pubkey_addr: *const u8));
define_syscall!(fn sol_create_program_address(seeds_addr: *const u8, seeds_len: u64, program_id_addr: *const u8, address_bytes_addr: *const u8) -> u64);
define_syscall!(fn sol_try_find_program_address(seeds_addr: *const u8, seeds_len: u64, program_id_addr: *const u8, address_bytes_addr: *const u8, bump_seed_addr: *const u8) -> u64);
define_syscall!(fn sol_sha256(vals: *const u8, val_len: u64, hash_result: *mut u8) -> u64);
define_syscall!(fn sol_keccak256(vals: *const u8, val_len: u64, hash_result: *mut u8) -> u64);
define_syscall!(fn sol_secp256k1_recover(hash: *const u8, recovery_id: u64, signature: *const u8, result: *mut u8) -> u64);
define_syscall!(fn sol_blake3(vals: *const u8, val_len: u64, hash_result: *mut u8) -> u64);
define_syscall!(fn sol_get_clock_sysvar(addr: *mut u8) -> u64);
define_syscall!(fn sol_get_epoch_schedule_sysvar(addr: *mut u8) -> u64);
define_syscall!(fn sol_get_fees_sysvar(addr: *mut u8) -> u64);
define_syscall!(fn sol_get_rent_sysvar(addr: *mut u8) -> u64);
define_syscall!(fn sol_get_last_restart_slot(addr: *mut u8) -> u64);
define_syscall!(fn sol_memcpy_(dst: *mut u8, src: *const u8, n: u64));
define_syscall!(fn sol_memmove_(dst: *mut u8, src: *const u8, n: u64));
define_syscall!(fn sol_memcmp_(s1: *const u8, s2: *const u8, n: u64, result: *mut i32));
define_syscall!(fn sol_memset_(s: *mut u8, c: u8, n: u64));
define_syscall!(fn sol_invoke_signed_c(instruction_addr: *const u8, account_infos_addr: *const u8, account_infos_len: u64, signers_seeds_addr: *const u8, signers_seeds_len: u64) -> u64);
define_syscall!(fn sol_invoke_signed_rust(instruction_addr: *const u8, account_infos_addr: *const u8, account_infos_len: u64, signers_seeds_addr: *const u8, signers_seeds_len: u64) -> u64);
define_syscall!(fn sol_set_return_data(data: *const u8, length: u64));
define_syscall!(fn sol_get_return_data(data: *mut u8, length: u64, program_id: *mut Pubkey) -> u64);
define_syscall!(fn sol_log_data(data: *const u8, data_len: u64));
define_syscall!(fn sol_get_processed_sibling_instruction(index: u64, meta: *mut ProcessedSiblingInstruction, program_id: *mut Pubkey, data: *mut u8, accounts: *mut AccountMeta) -> u64);
define_syscall!(fn sol_get_stack_height() -> u64);
define_syscall!(fn sol_curve_validate_point(curve_id: u64, point_addr: *const u8, result: *mut u8) -> u64);
define_syscall!(fn sol_curve_group_op(curve_id: u64, group_op: u64, left_input_addr: *const u8, right_input_addr: *const u8, result_point_addr: *mut u8) -> u64);
define_syscall!(fn sol_curve_multiscalar_mul(curve_id: u64, scalars_addr: *const u8, points_addr: *const u8, points_len: u64, result_point_addr: *mut u8) -> u64);
define_syscall!(fn sol_curve_pairing_map(curve_id: u64, point: *const u8, result: *mut u8) -> u64);
define_syscall!(fn sol_alt_bn128_group_op(group_op: u64, input: *const u8, input_size: u64, result: *mut u8) -> u64);
define_syscall!(fn sol_big_mod_exp(params: *const u8, result: *mut u8) -> u64);
define_syscall!(fn sol_get_epoch_rewards_sysvar(addr: *mut u8) -> u64);
define_syscall!(fn sol_poseidon(parameters: u64, endianness: u64, vals: *const u8, val_len: u64, hash_result: *mut u8) -> u64);
define_syscall!(fn sol_remaining_compute_units() -> u64);
define_syscall!(fn sol_alt_bn128_compression(op: u64, input: *const u8, input_size: u64, result: *mut u8) -> u64);
define_syscall!(fn abort() -> !);
define_syscall!(fn sol_panic_(filename: *const u8, filename_len: u64, line: u64, column: u64) -> !);
define_syscall!(fn sol_get_sysvar(sysvar_id_addr: *const u8, result: *mut u8, offset: u64, length: u64) -> u64);
define_syscall!(fn sol_get_epoch_stake(vote_address: *const u8) -> u64);

#[cfg(target_feature = "static-syscalls")]
pub const fn sys_hash(name: &str) -> usize {
    murmur3_32(name.as_bytes(), 0) as usize
}

#[cfg(target_feature = "static-syscalls")]
const fn murmur3_32(buf: &[u8], seed: u32) -> u32 {
    const fn pre_mix(buf: [u8; 4]) -> u32 {
        u32::from_le_bytes(buf)
            .wrapping_mul(0xcc9e2d51)
            .rotate_left(15)
            .wrapping_mul(0x1b873593)
    }

    let mut hash = seed;

    let mut i = 0;
    while i < buf.len() / 4 {
        let buf = [buf[i * 4], buf[i * 4 + 1], buf[i * 4 + 2], buf[i * 4 + 3]];
        hash ^= pre_mix(buf);
        hash = hash.rotate_left(13);
        hash = hash.wrapping_mul(5).wrapping_add(0xe6546b64);

        i += 1;
    }

    match buf.len() % 4 {
        0 => {}
        1 => {
            hash = hash ^ pre_mix([buf[i * 4], 0, 0, 0]);
        }
        2 => {
            hash = hash ^ pre_mix([buf[i * 4], buf[i * 4 + 1], 0, 0]);
        }
        3 => {
            hash = hash ^ pre_mix([buf[i * 4], buf[i * 4 + 1], buf[i * 4 + 2], 0]);
        }
        _ => { /* unreachable!() */ }
    }

    hash = hash ^ buf.len() as u32;
    hash = hash ^ (hash.wrapping_shr(16));
    hash = hash.wrapping_mul(0x85ebca6b);
    hash = hash ^ (hash.wrapping_shr(13));
    hash = hash.wrapping_mul(0xc2b2ae35);
    hash = hash ^ (hash.wrapping_shr(16));

    hash
}
