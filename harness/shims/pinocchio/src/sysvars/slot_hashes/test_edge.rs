use crate::{program_error::ProgramError, sysvars::slot_hashes::*};
extern crate std;
use super::test_utils::{build_slot_hashes_bytes as raw_slot_hashes, make_account_info};

#[test]
fn test_wrong_key_from_account_info() {
    let bytes = raw_slot_hashes(0, &[]);
    let (info, _backing) =
        unsafe { make_account_info([1u8; 32], &bytes, crate::entrypoint::NON_DUP_MARKER) };
    assert!(matches!(
        SlotHashes::from_account_info(&info),
        Err(ProgramError::InvalidArgument)
    ));
}

#[test]
fn test_wrong_size_buffer_rejected() {
    // Buffer that declares 1 entry but is 1 byte too small to hold it.
    let num_entries: u64 = 1;
    let required_size = NUM_ENTRIES_SIZE + (num_entries as usize) * ENTRY_SIZE;
    let mut small_buffer = std::vec![0u8; required_size - 1];
    small_buffer[0..NUM_ENTRIES_SIZE].copy_from_slice(&num_entries.to_le_bytes());

    assert!(matches!(
        SlotHashes::new(small_buffer.as_slice()),
        Err(ProgramError::AccountDataTooSmall)
    ));

    // Buffer too small to even contain the length header.
    let too_small_for_header = [0u8; NUM_ENTRIES_SIZE - 1];
    assert!(matches!(
        SlotHashes::new(too_small_for_header.as_slice()),
        Err(ProgramError::AccountDataTooSmall)
    ));
}

#[test]
fn test_truncated_payload_with_max_size_buffer_is_valid() {
    let entry = (123u64, [7u8; HASH_BYTES]);
    let bytes = raw_slot_hashes(2, &[entry]); // says 2 but provides 1, rest is zeros

    // With MAX_SIZE buffers, this is now valid - the second entry is just zeros
    let slot_hashes = SlotHashes::new(bytes.as_slice()).expect("Should be valid");
    assert_eq!(slot_hashes.len(), 2);

    // First entry should match what we provided
    let first_entry = slot_hashes.get_entry(0).unwrap();
    assert_eq!(first_entry.slot(), 123);
    assert_eq!(first_entry.hash, [7u8; HASH_BYTES]);

    // Second entry should be all zeros (default padding)
    let second_entry = slot_hashes.get_entry(1).unwrap();
    assert_eq!(second_entry.slot(), 0);
    assert_eq!(second_entry.hash, [0u8; HASH_BYTES]);
}

#[test]
fn test_duplicate_slots_binary_search_safe() {
    let entries = &[
        (200, [0u8; HASH_BYTES]),
        (200, [1u8; HASH_BYTES]),
        (199, [2u8; HASH_BYTES]),
    ];
    let bytes = raw_slot_hashes(entries.len() as u64, entries);
    let sh = unsafe { SlotHashes::new_unchecked(&bytes[..]) };
    let dup_pos = sh.position(200).expect("slot 200 must exist");
    assert!(
        dup_pos <= 1,
        "binary_search should return one of the duplicate indices (0 or 1)"
    );
    assert_eq!(sh.get_hash(199), Some(&entries[2].1));
}

#[test]
fn test_zero_len_minimal_slice_iterates_empty() {
    let zero_data = raw_slot_hashes(0, &[]);
    let sh = unsafe { SlotHashes::new_unchecked(&zero_data[..]) };
    assert_eq!(sh.len(), 0);
    assert!(sh.into_iter().next().is_none());
}

#[test]
fn test_borrow_state_failure_from_account_info() {
    let bytes = raw_slot_hashes(0, &[]);
    let (info, _backing) = unsafe { make_account_info(SLOTHASHES_ID, &bytes, 0) };
    assert!(matches!(
        SlotHashes::from_account_info(&info),
        Err(ProgramError::AccountBorrowFailed)
    ));
}
