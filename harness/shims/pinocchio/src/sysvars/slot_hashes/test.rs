use super::test_utils::*;
use crate::{
    account_info::{Account, AccountInfo},
    program_error::ProgramError,
    sysvars::{clock::Slot, slot_hashes::*},
};
use core::{
    mem::{align_of, size_of},
    ptr,
};

extern crate std;
use std::io::Write;
use std::vec::Vec;

#[test]
fn test_layout_constants() {
    assert_eq!(NUM_ENTRIES_SIZE, size_of::<u64>());
    assert_eq!(SLOT_SIZE, size_of::<u64>());
    assert_eq!(HASH_BYTES, 32);
    assert_eq!(ENTRY_SIZE, size_of::<u64>() + 32);
    assert_eq!(MAX_SIZE, 20_488);
    assert_eq!(size_of::<SlotHashEntry>(), ENTRY_SIZE);
    assert_eq!(align_of::<SlotHashEntry>(), align_of::<[u8; 8]>());
    assert_eq!(
        SLOTHASHES_ID,
        [
            6, 167, 213, 23, 25, 47, 10, 175, 198, 242, 101, 227, 251, 119, 204, 122, 218, 130,
            197, 41, 208, 190, 59, 19, 110, 45, 0, 85, 32, 0, 0, 0,
        ]
    );

    pub fn check_base58(input_bytes: &[u8], expected_b58: &str) {
        assert_eq!(five8_const::decode_32_const(expected_b58), input_bytes);
    }

    check_base58(
        &SLOTHASHES_ID,
        "SysvarS1otHashes111111111111111111111111111",
    );
}

#[test]
fn test_binary_search_no_std() {
    const TEST_NUM_ENTRIES: usize = 512;
    const START_SLOT: u64 = 2000;

    let entries =
        generate_mock_entries(TEST_NUM_ENTRIES, START_SLOT, DecrementStrategy::Average1_05);
    let data = create_mock_data(&entries);
    let entry_count = entries.len();

    let first_slot = entries[0].0;
    let mid_index = entry_count / 2;
    let mid_slot = entries[mid_index].0;
    let last_slot = entries[entry_count - 1].0;

    let slot_hashes = unsafe { SlotHashes::new_unchecked(data.as_slice()) };

    assert_eq!(slot_hashes.position(first_slot), Some(0));

    let expected_mid_index = Some(mid_index);
    let actual_pos_mid = slot_hashes.position(mid_slot);

    // Extract surrounding entries for context in case of failure
    let start_idx = mid_index.saturating_sub(2);
    let end_idx = core::cmp::min(entry_count, mid_index.saturating_add(3));
    let surrounding_slots: Vec<_> = entries[start_idx..end_idx].iter().map(|e| e.0).collect();
    assert_eq!(
        actual_pos_mid, expected_mid_index,
        "position({}) failed! Surrounding slots: {:?}",
        mid_slot, surrounding_slots
    );

    assert_eq!(slot_hashes.position(last_slot), Some(entry_count - 1));

    assert_eq!(slot_hashes.position(START_SLOT + 1), None);

    // Find an actual gap to test a guaranteed non-existent internal slot
    let mut missing_internal_slot = None;
    for i in 0..(entries.len() - 1) {
        if entries[i].0 > entries[i + 1].0 + 1 {
            missing_internal_slot = Some(entries[i + 1].0 + 1);
            break;
        }
    }
    assert!(
        missing_internal_slot.is_some(),
        "Test requires at least one gap between slots"
    );
    assert_eq!(slot_hashes.position(missing_internal_slot.unwrap()), None);

    assert_eq!(slot_hashes.get_hash(first_slot), Some(&entries[0].1));
    assert_eq!(slot_hashes.get_hash(mid_slot), Some(&entries[mid_index].1));
    assert_eq!(
        slot_hashes.get_hash(last_slot),
        Some(&entries[entry_count - 1].1)
    );
    assert_eq!(slot_hashes.get_hash(START_SLOT + 1), None);

    // Test empty list explicitly
    let empty_entries = generate_mock_entries(0, START_SLOT, DecrementStrategy::Strictly1);
    let empty_data = create_mock_data(&empty_entries);
    let empty_hashes = unsafe { SlotHashes::new_unchecked(empty_data.as_slice()) };
    assert_eq!(empty_hashes.get_hash(100), None);

    let pos_start_plus_1 = slot_hashes.position(START_SLOT + 1);
    assert!(
        pos_start_plus_1.is_none(),
        "position(START_SLOT + 1) should be None"
    );
}

#[test]
fn test_basic_getters_and_iterator_no_std() {
    const NUM_ENTRIES: usize = 512;
    const START_SLOT: u64 = 2000;
    let entries = generate_mock_entries(NUM_ENTRIES, START_SLOT, DecrementStrategy::Strictly1);
    let data = create_mock_data(&entries);
    let slot_hashes = unsafe { SlotHashes::new_unchecked(data.as_slice()) };

    assert_eq!(slot_hashes.len(), NUM_ENTRIES);

    let entry0 = slot_hashes.get_entry(0);
    assert!(entry0.is_some());
    assert_eq!(entry0.unwrap().slot(), START_SLOT); // Check against start slot
    assert_eq!(entry0.unwrap().hash, [0u8; HASH_BYTES]); // First generated hash is [0u8; 32]

    let entry2 = slot_hashes.get_entry(NUM_ENTRIES - 1); // Last entry
    assert!(entry2.is_some());
    assert_eq!(entry2.unwrap().slot(), entries[NUM_ENTRIES - 1].0);
    assert_eq!(entry2.unwrap().hash, entries[NUM_ENTRIES - 1].1);
    assert!(slot_hashes.get_entry(NUM_ENTRIES).is_none()); // Out of bounds

    for (i, entry) in slot_hashes.into_iter().enumerate() {
        assert_eq!(entry.slot(), entries[i].0);
        assert_eq!(entry.hash, entries[i].1);
    }
    assert!(slot_hashes.into_iter().nth(NUM_ENTRIES).is_none());

    // Test ExactSizeIterator hint
    let mut iter_hint = slot_hashes.into_iter();
    assert_eq!(iter_hint.len(), NUM_ENTRIES);
    iter_hint.next();
    assert_eq!(iter_hint.len(), NUM_ENTRIES - 1);
    // Skip to end
    for _ in 1..NUM_ENTRIES {
        iter_hint.next();
    }
    iter_hint.next();
    assert_eq!(iter_hint.len(), 0);

    // Test empty case
    let empty_data = create_mock_data(&[]);
    let empty_hashes = unsafe { SlotHashes::new_unchecked(empty_data.as_slice()) };
    assert_eq!(empty_hashes.len(), 0);
    assert!(empty_hashes.get_entry(0).is_none());
    assert!(empty_hashes.into_iter().next().is_none());
}

#[test]
fn test_entry_count_no_std() {
    // Valid data (2 entries)
    let entries: &[(Slot, Hash)] = &[(100, [1u8; HASH_BYTES]), (98, [2u8; HASH_BYTES])];
    let data = create_mock_data(entries);
    let slot_hashes = unsafe { SlotHashes::new_unchecked(data.as_slice()) };
    assert_eq!(slot_hashes.len(), 2);

    // Too small buffer should fail new()
    let num_entries = entries.len() as u64;
    let data_len = NUM_ENTRIES_SIZE + entries.len() * ENTRY_SIZE;
    let mut small_data = std::vec![0u8; data_len];
    small_data[0..NUM_ENTRIES_SIZE].copy_from_slice(&num_entries.to_le_bytes());
    let mut offset = NUM_ENTRIES_SIZE;
    for (slot, hash) in entries {
        small_data[offset..offset + SLOT_SIZE].copy_from_slice(&slot.to_le_bytes());
        small_data[offset + SLOT_SIZE..offset + ENTRY_SIZE].copy_from_slice(hash);
        offset += ENTRY_SIZE;
    }
    let res1 = SlotHashes::new(small_data.as_slice());
    assert!(
        res1.is_ok(),
        "SlotHashes::new should succeed with a correctly sized buffer"
    );
    let slot_hashes_from_small = res1.unwrap();
    assert_eq!(slot_hashes_from_small.len(), entries.len());

    // Empty data is valid
    let empty_data = create_mock_data(&[]);
    let empty_hashes = unsafe { SlotHashes::new_unchecked(empty_data.as_slice()) };
    assert_eq!(empty_hashes.len(), 0);
}

#[test]
fn test_get_entry_unchecked_no_std() {
    let single_entry: &[(Slot, Hash)] = &[(100, [1u8; HASH_BYTES])];
    let data = create_mock_data(single_entry);
    let slot_hashes = unsafe { SlotHashes::new_unchecked(data.as_slice()) };

    let entry = unsafe { slot_hashes.get_entry_unchecked(0) };
    assert_eq!(entry.slot(), 100);
    assert_eq!(entry.hash, [1u8; HASH_BYTES]);
}

#[test]
fn test_get_entry_unchecked_last_no_std() {
    const COUNT: usize = 8;
    const START_SLOT: u64 = 600;
    let entries = generate_mock_entries(COUNT, START_SLOT, DecrementStrategy::Strictly1);
    let data = create_mock_data(&entries);
    let sh = unsafe { SlotHashes::new_unchecked(data.as_slice()) };

    let last = unsafe { sh.get_entry_unchecked(COUNT - 1) };
    assert_eq!(last.slot(), entries[COUNT - 1].0);
    assert_eq!(last.hash, entries[COUNT - 1].1);
}

#[test]
fn test_iterator_into_ref_no_std() {
    const NUM: usize = 16;
    const START: u64 = 100;
    let entries = generate_mock_entries(NUM, START, DecrementStrategy::Strictly1);
    let data = create_mock_data(&entries);
    let sh = unsafe { SlotHashes::new_unchecked(data.as_slice()) };

    // Collect slots via iterator
    let mut sum: u64 = 0;
    for e in &sh {
        sum += e.slot();
    }
    let expected_sum: u64 = entries.iter().map(|(s, _)| *s).sum();
    assert_eq!(sum, expected_sum);

    let iter = (&sh).into_iter();
    assert_eq!(iter.len(), sh.len());
}

// Tests to verify mock data helpers
#[test]
fn test_mock_data_max_entries_boundary() {
    let entries = generate_mock_entries(MAX_ENTRIES, 1000, DecrementStrategy::Strictly1);
    let data = create_mock_data(&entries);
    let sh = unsafe { SlotHashes::new_unchecked(data.as_slice()) };
    assert_eq!(sh.len(), MAX_ENTRIES);
}

#[test]
fn test_mock_data_raw_byte_layout() {
    let entries = &[(100u64, [0xAB; 32])];
    let data = create_mock_data(entries);
    // length prefix
    assert_eq!(&data[0..8], &1u64.to_le_bytes());
    // slot bytes
    assert_eq!(&data[8..16], &100u64.to_le_bytes());
    // hash bytes
    assert_eq!(&data[16..48], &[0xAB; 32]);
}

#[test]
fn test_read_entry_count_from_bytes() {
    let entry_count = 42u64;
    let mut data = [0u8; 16];
    data[0..8].copy_from_slice(&entry_count.to_le_bytes());

    let result = read_entry_count_from_bytes(&data);
    assert_eq!(result, Some(42));

    let zero_count = 0u64;
    let mut zero_data = [0u8; 8];
    zero_data.copy_from_slice(&zero_count.to_le_bytes());

    let zero_result = read_entry_count_from_bytes(&zero_data);
    assert_eq!(zero_result, Some(0));

    let max_count = MAX_ENTRIES as u64;
    let mut max_data = [0u8; 8];
    max_data.copy_from_slice(&max_count.to_le_bytes());

    let max_result = read_entry_count_from_bytes(&max_data);
    assert_eq!(max_result, Some(MAX_ENTRIES));
}

fn mock_fetch_into_unchecked(
    mock_sysvar_data: &[u8],
    buffer: &mut [u8],
    offset: u64,
) -> Result<(), ProgramError> {
    let offset = offset as usize;
    if offset >= mock_sysvar_data.len() {
        return Err(ProgramError::InvalidArgument);
    }

    let available_len = mock_sysvar_data.len() - offset;
    let copy_len = core::cmp::min(buffer.len(), available_len);

    buffer[..copy_len].copy_from_slice(&mock_sysvar_data[offset..offset + copy_len]);
    Ok(())
}

/// Verifies that the mock byte-copy helper (`mock_fetch_into_unchecked`) obeys
/// the same offset semantics we expect from the real `raw::fetch_into_*` API.
///
/// This is purely an internal byte-math test; it does not call the
/// production syscall wrapper and therefore does not attest that the runtime
/// offset logic works.  Its value is guarding against mistakes
/// in the offset arithmetic used by other in-test helpers.
#[test]
fn test_mock_offset_copy() {
    // Create mock sysvar data: 8-byte length + 3 entries
    let entries = &[
        (100u64, [1u8; HASH_BYTES]),
        (99u64, [2u8; HASH_BYTES]),
        (98u64, [3u8; HASH_BYTES]),
    ];
    let mock_sysvar_data = create_mock_data(entries);

    // Test offset 0 (full data)
    let mut buffer_full = std::vec![0u8; mock_sysvar_data.len()];
    mock_fetch_into_unchecked(&mock_sysvar_data, &mut buffer_full, 0).unwrap();
    assert_eq!(buffer_full, mock_sysvar_data);

    // Test offset 8 (skip length prefix, get entries only)
    let entries_size = 3 * ENTRY_SIZE;
    let mut buffer_entries = std::vec![0u8; entries_size];
    mock_fetch_into_unchecked(&mock_sysvar_data, &mut buffer_entries, 8).unwrap();
    assert_eq!(buffer_entries, &mock_sysvar_data[8..8 + entries_size]);

    // Test offset 8 + ENTRY_SIZE (skip first entry)
    let remaining_entries_size = 2 * ENTRY_SIZE;
    let mut buffer_skip_first = std::vec![0u8; remaining_entries_size];
    let skip_first_offset = 8 + ENTRY_SIZE;
    mock_fetch_into_unchecked(
        &mock_sysvar_data,
        &mut buffer_skip_first,
        skip_first_offset as u64,
    )
    .unwrap();
    assert_eq!(
        buffer_skip_first,
        &mock_sysvar_data[skip_first_offset..skip_first_offset + remaining_entries_size]
    );

    // Test partial read with small buffer
    let mut small_buffer = [0u8; 16]; // Only 16 bytes
    mock_fetch_into_unchecked(&mock_sysvar_data, &mut small_buffer, 0).unwrap();
    assert_eq!(small_buffer, &mock_sysvar_data[0..16]);

    // Test offset beyond data (should fail)
    let mut buffer_beyond = [0u8; 10];
    let beyond_offset = mock_sysvar_data.len() as u64;
    assert!(
        mock_fetch_into_unchecked(&mock_sysvar_data, &mut buffer_beyond, beyond_offset).is_err()
    );
}

#[test]
fn test_entries_exposed_no_std() {
    let entries = generate_mock_entries(8, 80, DecrementStrategy::Strictly1);
    let data = create_mock_data(&entries);
    let sh = unsafe { SlotHashes::new_unchecked(data.as_slice()) };

    let slice = sh.entries();
    assert_eq!(slice.len(), entries.len());
    for (i, e) in slice.iter().enumerate() {
        assert_eq!(e.slot(), entries[i].0);
        assert_eq!(e.hash, entries[i].1);
    }
}

#[test]
fn test_safe_vs_unsafe_getters_consistency() {
    let entries = generate_mock_entries(16, 200, DecrementStrategy::Strictly1);
    let data = create_mock_data(&entries);
    let sh = unsafe { SlotHashes::new_unchecked(data.as_slice()) };

    for i in 0..entries.len() {
        let safe_entry = sh.get_entry(i).unwrap();
        let unsafe_entry = unsafe { sh.get_entry_unchecked(i) };
        assert_eq!(safe_entry, unsafe_entry);
    }

    assert_eq!(sh.len(), entries.len());
}

#[test]
fn test_entry_count_header_too_short() {
    let short = [0u8; 4];
    assert!(SlotHashes::new(&short[..]).is_err());
    assert_eq!(read_entry_count_from_bytes(&short), None);
}

#[test]
fn test_log_function() {
    let test_hash: Hash = [
        1, 2, 3, 4, 5, 6, 7, 8, 9, 10, 11, 12, 13, 14, 15, 16, 17, 18, 19, 20, 21, 22, 23, 24, 25,
        26, 27, 28, 29, 30, 31, 32,
    ];

    // Should not panic
    log(&test_hash);
}

#[test]
fn test_from_account_info_constructor() {
    std::io::stderr().flush().unwrap();

    const NUM_ENTRIES: usize = 3;
    const START_SLOT: u64 = 1234;

    let mock_entries = generate_mock_entries(NUM_ENTRIES, START_SLOT, DecrementStrategy::Strictly1);
    let data = create_mock_data(&mock_entries);

    let mut aligned_backing: Vec<u64>;
    let acct_ptr;

    unsafe {
        let header_size = core::mem::size_of::<AccountLayout>();
        let total_size = header_size + data.len();
        let word_len = (total_size + 7) / 8;
        aligned_backing = std::vec![0u64; word_len];
        let base_ptr = aligned_backing.as_mut_ptr() as *mut u8;

        let header_ptr = base_ptr as *mut AccountLayout;
        ptr::write(
            header_ptr,
            AccountLayout {
                borrow_state: crate::entrypoint::NON_DUP_MARKER,
                is_signer: 0,
                is_writable: 0,
                executable: 0,
                resize_delta: 0,
                key: SLOTHASHES_ID,
                owner: [0u8; 32],
                lamports: 0,
                data_len: data.len() as u64,
            },
        );

        ptr::copy_nonoverlapping(data.as_ptr(), base_ptr.add(header_size), data.len());

        acct_ptr = base_ptr as *mut Account;
    }

    let account_info = AccountInfo { raw: acct_ptr };

    let slot_hashes = SlotHashes::from_account_info(&account_info)
        .expect("from_account_info should succeed with well-formed data");

    assert_eq!(slot_hashes.len(), NUM_ENTRIES);
    for (i, entry) in slot_hashes.into_iter().enumerate() {
        assert_eq!(entry.slot(), mock_entries[i].0);
        assert_eq!(entry.hash, mock_entries[i].1);
    }
}

/// Host-side sanity test: ensure the `SlotHashes::fetch()` helper compiles and
/// allocates a MAX_SIZE-sized buffer without panicking.
///
/// On non-Solana targets the underlying syscall is stubbed; the returned buffer
/// is zero-initialized and contains zero entries.  We overwrite
/// that buffer with deterministic fixture data and then exercise the normal
/// `SlotHashes` getters to make sure the view itself works.  We do not verify
/// that the syscall populated real on-chain bytes, as doing so requires an
/// environment outside the scope of host `cargo test`.
#[cfg(feature = "std")]
#[test]
fn test_fetch_allocates_buffer_host() {
    const START_SLOT: u64 = 500;
    let entries = generate_mock_entries(5, START_SLOT, DecrementStrategy::Strictly1);
    let data = create_mock_data(&entries);

    // This should allocate a 20_488-byte boxed slice and *not* panic.
    let mut slot_hashes =
        SlotHashes::<std::boxed::Box<[u8]>>::fetch().expect("fetch() should allocate");

    // Overwrite the stubbed contents with known data so we can reuse the
    // remainder of the test harness.
    slot_hashes.data[..data.len()].copy_from_slice(&data);

    assert_eq!(slot_hashes.len(), entries.len());
    for (i, entry) in slot_hashes.into_iter().enumerate() {
        assert_eq!(entry.slot(), entries[i].0);
        assert_eq!(entry.hash, entries[i].1);
    }
}
