//! Tests focusing on low-level `slot_hashes::raw` helpers.

use super::raw;
use super::*;
extern crate std;

#[test]
fn test_validate_buffer_size() {
    // ===== Tests with offset = 0 (buffer includes header) =====

    // Too small to fit header
    let small_len = 4;
    assert!(raw::get_valid_buffer_capacity(small_len, 0).is_err());

    // Misaligned: header + partial entry
    let misaligned_len = NUM_ENTRIES_SIZE + 39;
    assert!(raw::get_valid_buffer_capacity(misaligned_len, 0).is_err());

    // Valid cases with offset = 0
    let valid_empty_len = NUM_ENTRIES_SIZE;
    assert_eq!(
        raw::get_valid_buffer_capacity(valid_empty_len, 0).unwrap(),
        0
    );

    let valid_one_len = NUM_ENTRIES_SIZE + ENTRY_SIZE;
    assert_eq!(raw::get_valid_buffer_capacity(valid_one_len, 0).unwrap(), 1);

    let valid_max_len = NUM_ENTRIES_SIZE + MAX_ENTRIES * ENTRY_SIZE;
    assert_eq!(
        raw::get_valid_buffer_capacity(valid_max_len, 0).unwrap(),
        MAX_ENTRIES
    );

    // Edge case: exactly at the boundary (MAX_SIZE)
    assert_eq!(
        raw::get_valid_buffer_capacity(MAX_SIZE, 0).unwrap(),
        MAX_ENTRIES
    );

    // ===== Tests with offset != 0 (buffer doesn't include header) =====

    // Valid cases with non-zero offset - buffer contains only entry data

    // Buffer for exactly 1 entry
    assert_eq!(raw::get_valid_buffer_capacity(ENTRY_SIZE, 8).unwrap(), 1);

    // Buffer for exactly 2 entries
    assert_eq!(
        raw::get_valid_buffer_capacity(2 * ENTRY_SIZE, 8).unwrap(),
        2
    );

    // Buffer for maximum entries (without header space)
    assert_eq!(
        raw::get_valid_buffer_capacity(MAX_ENTRIES * ENTRY_SIZE, 8).unwrap(),
        MAX_ENTRIES
    );

    // Buffer for 10 entries
    assert_eq!(
        raw::get_valid_buffer_capacity(10 * ENTRY_SIZE, 48).unwrap(),
        10
    );

    // Error cases with non-zero offset

    // Misaligned buffer - not a multiple of ENTRY_SIZE
    assert!(raw::get_valid_buffer_capacity(ENTRY_SIZE + 1, 8).is_err());
    assert!(raw::get_valid_buffer_capacity(ENTRY_SIZE - 1, 8).is_err());
    assert!(raw::get_valid_buffer_capacity(39, 8).is_err()); // 39 is not divisible by 40

    // Large buffers that would exceed MAX_SIZE - these now pass validate_buffer_size
    // (the syscall will fail later, but that's acceptable)
    assert_eq!(
        raw::get_valid_buffer_capacity((MAX_ENTRIES + 1) * ENTRY_SIZE, 8).unwrap(),
        MAX_ENTRIES + 1
    );
    assert_eq!(
        raw::get_valid_buffer_capacity((MAX_ENTRIES + 10) * ENTRY_SIZE, 48).unwrap(),
        MAX_ENTRIES + 10
    );

    // Empty buffer with offset (valid - 0 entries)
    assert_eq!(raw::get_valid_buffer_capacity(0, 8).unwrap(), 0);

    // ===== Additional edge cases =====

    // Large offset values (should still work for buffer size validation)
    assert_eq!(
        raw::get_valid_buffer_capacity(5 * ENTRY_SIZE, 1000).unwrap(),
        5
    );
    assert!(raw::get_valid_buffer_capacity(5 * ENTRY_SIZE + 1, 2000).is_err());
    // misaligned
}

#[test]
fn test_fetch_into_offset_validation() {
    let buffer_len = 200;

    // Offset 0 (start of data) - should pass validation
    assert!(validate_fetch_offset(0, buffer_len).is_ok());

    // Offset 8 (start of first entry) - should pass validation
    assert!(validate_fetch_offset(8, buffer_len).is_ok());

    // Offset 48 (start of second entry) - should pass validation
    assert!(validate_fetch_offset(48, buffer_len).is_ok());

    // Offset 88 (start of third entry) - should pass validation
    assert!(validate_fetch_offset(88, buffer_len).is_ok());

    // Invalid offsets that should fail validation

    // Offset beyond MAX_SIZE
    assert!(validate_fetch_offset(MAX_SIZE, buffer_len).is_err());

    // Offset pointing mid-entry (not aligned)
    assert!(validate_fetch_offset(12, buffer_len).is_err()); // 8 + 4, mid-entry
    assert!(validate_fetch_offset(20, buffer_len).is_err()); // 8 + 12, mid-entry
    assert!(validate_fetch_offset(35, buffer_len).is_err()); // 8 + 27, mid-entry

    // Offset in header but not at start
    assert!(validate_fetch_offset(4, buffer_len).is_err()); // Mid-header
    assert!(validate_fetch_offset(7, buffer_len).is_err()); // End of header

    // Test buffer + offset exceeding MAX_SIZE
    assert!(validate_fetch_offset(1, MAX_SIZE).is_err());
    assert!(validate_fetch_offset(MAX_SIZE - 100, 200).is_err());

    // Last entry
    assert!(validate_fetch_offset(8 + 511 * ENTRY_SIZE, 40).is_ok());

    // One past last valid entry
    assert!(validate_fetch_offset(8 + 512 * ENTRY_SIZE, 40).is_err());
}

/// Host-only smoke test for `raw::fetch_into`.
///
/// On a host build the underlying sysvar syscall is stubbed out.
#[test]
fn test_fetch_into_host_stub() {
    // 1. Full-size buffer, offset 0.
    let mut full = std::vec![0u8; MAX_SIZE];
    let n = raw::fetch_into(&mut full, 0).expect("fetch_into(full, 0)");
    assert_eq!(n, 0);

    // 2. Header-only buffer.
    let mut header_only = std::vec![0u8; NUM_ENTRIES_SIZE];
    let n2 = raw::fetch_into(&mut header_only, 0).expect("fetch_into(header_only, 0)");
    assert_eq!(n2, 0);

    // 3. One-entry buffer.
    let mut one_entry = std::vec![0u8; NUM_ENTRIES_SIZE + ENTRY_SIZE];
    let n3 = raw::fetch_into(&mut one_entry, 0).expect("fetch_into(one_entry, 0)");
    assert_eq!(n3, 0);

    // 4. Header-skipped fetch should succeed and return the number of entries that fit.
    let mut skip_header = std::vec![0u8; ENTRY_SIZE];
    let entries_count = raw::fetch_into(&mut skip_header, 8).expect("fetch_into(skip_header, 8)");
    assert_eq!(entries_count, 1); // Buffer can fit exactly 1 entry

    // 5. Mis-aligned buffer size should error.
    let mut misaligned = std::vec![0u8; NUM_ENTRIES_SIZE + 39];
    assert!(raw::fetch_into(&mut misaligned, 0).is_err());

    // 6. Mid-entry offset should error.
    let mut buf = std::vec![0u8; 64];
    assert!(raw::fetch_into(&mut buf, 12).is_err());

    // 7. Offset + len overflow should error.
    let mut small = std::vec![0u8; 200];
    assert!(raw::fetch_into(&mut small, MAX_SIZE - 199).is_err());
}

/// Test that `fetch_into` with offset correctly avoids interpreting slot
/// data as entry count.
#[cfg(test)]
#[test]
fn test_fetch_into_offset_avoids_incorrect_entry_count() {
    // When fetch_into is called with offset != 0, the first
    // 8 bytes of the buffer contains header data, not entry data.
    let mut buffer = std::vec![0u8; 3 * ENTRY_SIZE];

    // Call fetch_into with offset 8 (skipping the 8-byte header)
    let result = raw::fetch_into(&mut buffer, 8);

    assert!(
        result.is_ok(),
        "fetch_into should succeed with offset that skips header"
    );

    let entries_that_fit = result.unwrap();
    assert_eq!(
        entries_that_fit, 3,
        "Should return number of entries that fit in buffer, not some slot number"
    );

    // Buffer for exactly 1 entry starting from offset 48 (2nd entry)
    let mut second_entry_buffer = std::vec![0u8; ENTRY_SIZE];
    let second_result = raw::fetch_into(&mut second_entry_buffer, 48).unwrap();
    assert_eq!(second_result, 1);
}
