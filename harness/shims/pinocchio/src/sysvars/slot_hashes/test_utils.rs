//! Shared helpers for `SlotHashes` sysvar tests.
//! This module is compiled only when `cfg(test)` is active so `std` can be used
//! freely while production code remains `#![no_std]`.

use super::*;
extern crate std;
use crate::account_info::{Account, AccountInfo};
use crate::pubkey::Pubkey;
use core::{mem, ptr};
use std::vec::Vec;

/// Matches the pinocchio Account struct.
/// Account fields are private, so this struct allows more readable
/// use of them in tests.
#[repr(C)]
#[derive(Clone, Copy)]
pub struct AccountLayout {
    pub borrow_state: u8,
    pub is_signer: u8,
    pub is_writable: u8,
    pub executable: u8,
    pub resize_delta: i32,
    pub key: Pubkey,
    pub owner: Pubkey,
    pub lamports: u64,
    pub data_len: u64,
}

/// Strategy that decides how much the slot number is decremented between
/// successive entries in `generate_mock_entries`.
#[allow(dead_code)]
#[derive(Clone, Copy, Debug)]
pub enum DecrementStrategy {
    /// Always decrement by exactly 1.
    Strictly1,
    /// Mostly a decrement of 1 with occasional decrement of 2 so that the
    /// *average* decrement is `1.05`.
    Average1_05,
    /// Average decrement of 2.
    Average2,
}

/// Tiny deterministic PRNG (linear-congruential) good enough for unit tests.
#[inline]
pub fn simple_prng(seed: u64) -> u64 {
    const A: u64 = 16_807;
    const M: u64 = 2_147_483_647; // 2^31 ‑ 1
    let s = if seed == 0 { 1 } else { seed };
    (A.wrapping_mul(s)) % M
}

/// Produce `num_entries` mock `(slot, hash)` pairs sorted by slot descending.
pub fn generate_mock_entries(
    num_entries: usize,
    start_slot: u64,
    strategy: DecrementStrategy,
) -> Vec<(u64, Hash)> {
    let mut entries = Vec::with_capacity(num_entries);
    let mut current_slot = start_slot;
    for i in 0..num_entries {
        let hash_byte = (i % 256) as u8;
        let hash = [hash_byte; HASH_BYTES];
        entries.push((current_slot, hash));

        let random_val = simple_prng(i as u64);
        let dec = match strategy {
            DecrementStrategy::Strictly1 => 1,
            DecrementStrategy::Average1_05 => {
                if random_val % 20 == 0 {
                    2
                } else {
                    1
                }
            }
            DecrementStrategy::Average2 => {
                if random_val % 2 == 0 {
                    1
                } else {
                    3
                }
            }
        };
        current_slot = current_slot.saturating_sub(dec);
    }
    entries
}

/// Build a `Vec<u8>` the size of the *golden* `SlotHashes` sysvar (20 488 bytes)
/// containing the supplied `entries` and with the `declared_len` header.
pub fn build_slot_hashes_bytes(declared_len: u64, entries: &[(u64, Hash)]) -> Vec<u8> {
    let mut data = std::vec![0u8; MAX_SIZE];
    data[..NUM_ENTRIES_SIZE].copy_from_slice(&declared_len.to_le_bytes());
    let mut offset = NUM_ENTRIES_SIZE;
    for (slot, hash) in entries {
        data[offset..offset + SLOT_SIZE].copy_from_slice(&slot.to_le_bytes());
        data[offset + SLOT_SIZE..offset + ENTRY_SIZE].copy_from_slice(hash);
        offset += ENTRY_SIZE;
    }
    data
}

/// Convenience wrapper where `declared_len == entries.len()`.
#[inline]
pub fn create_mock_data(entries: &[(u64, Hash)]) -> Vec<u8> {
    build_slot_hashes_bytes(entries.len() as u64, entries)
}

/// Allocate a heap-backed `AccountInfo` whose data region is initialized with
/// `data` and whose key is `key`.
///
/// The function also returns the backing `Vec<u64>` so the caller can keep it
/// alive for the duration of the test (otherwise the memory would be freed and
/// the raw pointer inside `AccountInfo` would dangle).
///
/// # Safety
/// The caller must ensure the returned `AccountInfo` is used only for reading
/// or according to borrow rules because the Solana runtime invariants are not
/// fully enforced in this hand-rolled representation.
pub unsafe fn make_account_info(
    key: Pubkey,
    data: &[u8],
    borrow_state: u8,
) -> (AccountInfo, Vec<u64>) {
    let hdr_size = mem::size_of::<AccountLayout>();
    let total = hdr_size + data.len();
    let words = (total + 7) / 8;
    let mut backing: Vec<u64> = std::vec![0u64; words];
    assert!(
        mem::align_of::<u64>() >= mem::align_of::<AccountLayout>(),
        "`backing` should be properly aligned to store an `AccountLayout` instance"
    );

    let hdr_ptr = backing.as_mut_ptr() as *mut AccountLayout;
    ptr::write(
        hdr_ptr,
        AccountLayout {
            borrow_state,
            is_signer: 0,
            is_writable: 0,
            executable: 0,
            resize_delta: 0,
            key,
            owner: [0u8; 32],
            lamports: 0,
            data_len: data.len() as u64,
        },
    );

    ptr::copy_nonoverlapping(
        data.as_ptr(),
        (hdr_ptr as *mut u8).add(hdr_size),
        data.len(),
    );

    (
        AccountInfo {
            raw: hdr_ptr as *mut Account,
        },
        backing,
    )
}

#[cfg(test)]
#[test]
fn test_account_layout_compatibility() {
    assert_eq!(
        mem::size_of::<AccountLayout>(),
        mem::size_of::<Account>(),
        "Header size must match Account size"
    );
    assert_eq!(
        mem::align_of::<AccountLayout>(),
        mem::align_of::<Account>(),
        "Header alignment must match Account alignment"
    );

    unsafe {
        let test_header = AccountLayout {
            borrow_state: 42,
            is_signer: 1,
            is_writable: 1,
            executable: 0,
            resize_delta: 100,
            key: [1u8; 32],
            owner: [2u8; 32],
            lamports: 1000,
            data_len: 256,
        };

        let account_ptr = &test_header as *const AccountLayout as *const Account;
        let account_ref = &*account_ptr;
        assert_eq!(
            account_ref.borrow_state, 42,
            "borrow_state field should be accessible and match"
        );
        assert_eq!(
            account_ref.data_len, 256,
            "data_len field should be accessible and match"
        );
    }
}
