//! Efficient, zero-copy access to `SlotHashes` sysvar data.

pub mod raw;
#[doc(inline)]
pub use raw::{fetch_into, fetch_into_unchecked, validate_fetch_offset};

#[cfg(test)]
mod test;
#[cfg(test)]
mod test_edge;
#[cfg(test)]
mod test_raw;
#[cfg(test)]
mod test_utils;

use crate::{
    account_info::{AccountInfo, Ref},
    hint::unlikely,
    program_error::ProgramError,
    pubkey::{pubkey_eq, Pubkey},
    sysvars::clock::Slot,
};
use core::{mem, ops::Deref, slice::from_raw_parts};
#[cfg(feature = "std")]
use std::boxed::Box;

/// `SysvarS1otHashes111111111111111111111111111`
pub const SLOTHASHES_ID: Pubkey = [
    6, 167, 213, 23, 25, 47, 10, 175, 198, 242, 101, 227, 251, 119, 204, 122, 218, 130, 197, 41,
    208, 190, 59, 19, 110, 45, 0, 85, 32, 0, 0, 0,
];
/// Number of bytes in a hash.
pub const HASH_BYTES: usize = 32;
/// Sysvar data is:
/// `len`    (8 bytes): little-endian entry count (`≤ 512`)
/// `entries`(`len × 40 bytes`):    consecutive `(u64 slot, [u8;32] hash)` pairs
/// Size of the entry count field at the beginning of sysvar data.
pub const NUM_ENTRIES_SIZE: usize = mem::size_of::<u64>();
/// Size of a slot number in bytes.
pub const SLOT_SIZE: usize = mem::size_of::<Slot>();
/// Size of a single slot hash entry.
pub const ENTRY_SIZE: usize = SLOT_SIZE + HASH_BYTES;
/// Maximum number of slot hash entries that can be stored in the sysvar.
pub const MAX_ENTRIES: usize = 512;
/// Max size of the sysvar data in bytes. 20488. Golden on mainnet (never smaller)
pub const MAX_SIZE: usize = NUM_ENTRIES_SIZE + MAX_ENTRIES * ENTRY_SIZE;
/// A single hash.
pub type Hash = [u8; HASH_BYTES];

/// A single entry in the `SlotHashes` sysvar.
#[derive(Debug, PartialEq, Eq, Clone, Copy)]
#[repr(C)]
pub struct SlotHashEntry {
    /// The slot number stored as little-endian bytes.
    slot_le: [u8; 8],
    /// The hash corresponding to the slot.
    pub hash: Hash,
}

// Fail compilation if `SlotHashEntry` is not byte-aligned.
const _: [(); 1] = [(); mem::align_of::<SlotHashEntry>()];

/// `SlotHashes` provides read-only, zero-copy access to `SlotHashes` sysvar bytes.
#[derive(Debug)]
pub struct SlotHashes<T: Deref<Target = [u8]>> {
    data: T,
}

/// Log a `Hash` from a program.
pub fn log(hash: &Hash) {
    crate::pubkey::log(hash);
}

/// Reads the entry count from the first 8 bytes of data.
/// Returns None if the data is too short.
#[inline(always)]
pub(crate) fn read_entry_count_from_bytes(data: &[u8]) -> Option<usize> {
    if data.len() < NUM_ENTRIES_SIZE {
        return None;
    }
    Some(unsafe {
        // SAFETY: `data` is guaranteed to be at least `NUM_ENTRIES_SIZE` bytes long by the
        // preceding length check, so it is sound to read the first 8 bytes and interpret
        // them as a little-endian `u64`.
        u64::from_le_bytes(*(data.as_ptr() as *const [u8; NUM_ENTRIES_SIZE]))
    } as usize)
}

/// Reads the entry count from the first 8 bytes of data.
///
/// # Safety
/// Caller must ensure data has at least `NUM_ENTRIES_SIZE` bytes.
#[inline(always)]
pub(crate) unsafe fn read_entry_count_from_bytes_unchecked(data: &[u8]) -> usize {
    u64::from_le_bytes(*(data.as_ptr() as *const [u8; NUM_ENTRIES_SIZE])) as usize
}

/// Validates `SlotHashes` data format.
///
/// The function checks:
/// 1. The buffer is large enough to contain the entry count.
/// 2. The buffer length is sufficient to hold the declared number of entries.
///
/// It returns `Ok(())` if the data is well-formed, otherwise an appropriate
/// `ProgramError` describing the issue.
#[inline]
fn parse_and_validate_data(data: &[u8]) -> Result<(), ProgramError> {
    if data.len() < NUM_ENTRIES_SIZE {
        return Err(ProgramError::AccountDataTooSmall);
    }

    // SAFETY: We've confirmed that data has enough bytes to read the entry count.
    let num_entries = unsafe { read_entry_count_from_bytes_unchecked(data) };

    let min_size = NUM_ENTRIES_SIZE + num_entries * ENTRY_SIZE;
    if data.len() < min_size {
        return Err(ProgramError::AccountDataTooSmall);
    }

    Ok(())
}

impl SlotHashEntry {
    /// Returns the slot number as a `u64`.
    #[inline(always)]
    pub fn slot(&self) -> Slot {
        u64::from_le_bytes(self.slot_le)
    }
}

impl<T: Deref<Target = [u8]>> SlotHashes<T> {
    /// Creates a `SlotHashes` instance with validation of the entry count and buffer size.
    ///
    /// This constructor validates that the buffer has at least enough bytes to contain
    /// the declared number of entries. The buffer can be any size above the minimum required,
    /// making it suitable for both full `MAX_SIZE` buffers and smaller test data.
    /// Does not validate that entries are sorted in descending order.
    #[inline(always)]
    pub fn new(data: T) -> Result<Self, ProgramError> {
        parse_and_validate_data(&data)?;
        // SAFETY: `parse_and_validate_data` verifies that the data slice has at least
        // `NUM_ENTRIES_SIZE` bytes for the entry count and enough additional bytes to
        // contain the declared number of entries, thus upholding all invariants required
        // by `SlotHashes::new_unchecked`.
        Ok(unsafe { Self::new_unchecked(data) })
    }

    /// Creates a `SlotHashes` instance without validation.
    ///
    /// This is an unsafe constructor that bypasses all validation checks for performance.
    /// In debug builds, it still runs `parse_and_validate_data` as a sanity check.
    ///
    /// # Safety
    ///
    /// This function is unsafe because it does not validate the data size or format.
    /// The caller must ensure:
    /// 1. The underlying byte slice in `data` represents valid `SlotHashes` data
    ///    (length prefix plus entries, where entries are sorted in descending order by slot).
    /// 2. The data slice has at least `NUM_ENTRIES_SIZE + (declared_entries * ENTRY_SIZE)` bytes.
    /// 3. The first 8 bytes contain a valid entry count in little-endian format.
    ///
    #[inline(always)]
    pub unsafe fn new_unchecked(data: T) -> Self {
        if cfg!(debug_assertions) {
            parse_and_validate_data(&data)
                .expect("`data` matches all the same requirements as for `new()`");
        }

        SlotHashes { data }
    }

    /// Returns the number of `SlotHashEntry` items accessible.
    #[inline(always)]
    pub fn len(&self) -> usize {
        // SAFETY: `SlotHashes::new` and `new_unchecked` guarantee that `self.data` has at
        // least `NUM_ENTRIES_SIZE` bytes, so reading the entry count without additional
        // checks is safe.
        unsafe { read_entry_count_from_bytes_unchecked(&self.data) }
    }

    /// Returns if the sysvar is empty.
    #[inline(always)]
    pub fn is_empty(&self) -> bool {
        self.len() == 0
    }

    /// Returns a `&[SlotHashEntry]` view into the underlying data.
    ///
    /// Call once and reuse the slice if you need many look-ups.
    ///
    /// The constructor (in the safe path that called `parse_and_validate_data`)
    /// or caller (if unsafe `new_unchecked` path) is responsible for ensuring
    /// the slice is big enough and properly aligned.
    #[inline(always)]
    pub fn entries(&self) -> &[SlotHashEntry] {
        unsafe {
            // SAFETY: The slice begins `NUM_ENTRIES_SIZE` bytes into `self.data`, which
            // is guaranteed by parse_and_validate_data() to have at least `len * ENTRY_SIZE`
            // additional bytes. The pointer is properly aligned for `SlotHashEntry` (which
            // a compile-time assertion ensures is alignment 1).
            from_raw_parts(
                self.data.as_ptr().add(NUM_ENTRIES_SIZE) as *const SlotHashEntry,
                self.len(),
            )
        }
    }

    /// Gets a reference to the entry at `index` or `None` if out of bounds.
    #[inline(always)]
    pub fn get_entry(&self, index: usize) -> Option<&SlotHashEntry> {
        if index >= self.len() {
            return None;
        }
        Some(unsafe { self.get_entry_unchecked(index) })
    }

    /// Finds the hash for a specific slot using binary search.
    ///
    /// Returns the hash if the slot is found, or `None` if not found.
    /// Assumes entries are sorted by slot in descending order.
    /// If calling repeatedly, prefer getting `entries()` in caller
    /// to avoid repeated slice construction.
    #[inline(always)]
    pub fn get_hash(&self, target_slot: Slot) -> Option<&Hash> {
        self.position(target_slot)
            .map(|index| unsafe { &self.get_entry_unchecked(index).hash })
    }

    /// Finds the position (index) of a specific slot using binary search.
    ///
    /// Returns the index if the slot is found, or `None` if not found.
    /// Assumes entries are sorted by slot in descending order.
    /// If calling repeatedly, prefer getting `entries()` in caller
    /// to avoid repeated slice construction.
    #[inline(always)]
    pub fn position(&self, target_slot: Slot) -> Option<usize> {
        self.entries()
            .binary_search_by(|probe_entry| probe_entry.slot().cmp(&target_slot).reverse())
            .ok()
    }

    /// Returns a reference to the entry at `index` **without** bounds checking.
    ///
    /// # Safety
    /// Caller must guarantee that `index < self.len()`.
    #[inline(always)]
    pub unsafe fn get_entry_unchecked(&self, index: usize) -> &SlotHashEntry {
        debug_assert!(index < self.len());
        // SAFETY: Caller guarantees `index < self.len()`. The data pointer is valid
        // and aligned for `SlotHashEntry`. The offset calculation points to a
        // valid entry within the allocated data.
        let entries_ptr = self.data.as_ptr().add(NUM_ENTRIES_SIZE) as *const SlotHashEntry;
        &*entries_ptr.add(index)
    }
}

impl<'a, T: Deref<Target = [u8]>> IntoIterator for &'a SlotHashes<T> {
    type Item = &'a SlotHashEntry;
    type IntoIter = core::slice::Iter<'a, SlotHashEntry>;

    fn into_iter(self) -> Self::IntoIter {
        self.entries().iter()
    }
}

impl<'a> SlotHashes<Ref<'a, [u8]>> {
    /// Creates a `SlotHashes` instance by safely borrowing data from an `AccountInfo`.
    ///
    /// This function verifies that:
    /// - The account key matches the `SLOTHASHES_ID`
    /// - The account data can be successfully borrowed
    ///
    /// Returns a `SlotHashes` instance that borrows the account's data for zero-copy access.
    /// The returned instance is valid for the lifetime of the borrow.
    ///
    /// # Errors
    /// - `ProgramError::InvalidArgument` if the account key doesn't match the `SlotHashes` sysvar ID
    /// - `ProgramError::AccountBorrowFailed` if the account data is already mutably borrowed
    #[inline(always)]
    pub fn from_account_info(account_info: &'a AccountInfo) -> Result<Self, ProgramError> {
        if unlikely(!pubkey_eq(account_info.key(), &SLOTHASHES_ID)) {
            return Err(ProgramError::InvalidArgument);
        }

        let data_ref = account_info.try_borrow_data()?;

        // SAFETY: The account was validated to be the `SlotHashes` sysvar.
        Ok(unsafe { SlotHashes::new_unchecked(data_ref) })
    }
}

#[cfg(feature = "std")]
impl SlotHashes<Box<[u8]>> {
    /// Fills the provided buffer with the full `SlotHashes` sysvar data.
    ///
    /// # Safety
    /// The caller must ensure the buffer pointer is valid for `MAX_SIZE` bytes.
    /// The syscall will write exactly `MAX_SIZE` bytes to the buffer.
    #[inline(always)]
    unsafe fn fill_from_sysvar(buffer_ptr: *mut u8) -> Result<(), ProgramError> {
        crate::sysvars::get_sysvar_unchecked(buffer_ptr, &SLOTHASHES_ID, 0, MAX_SIZE)?;

        // For tests on builds that don't actually fill the buffer.
        #[cfg(not(target_os = "solana"))]
        core::ptr::write_bytes(buffer_ptr, 0, NUM_ENTRIES_SIZE);

        Ok(())
    }

    /// Allocates an optimal buffer for the sysvar data based on available features.
    #[inline(always)]
    fn allocate_and_fetch() -> Result<Box<[u8]>, ProgramError> {
        let mut buf = std::vec::Vec::with_capacity(MAX_SIZE);
        unsafe {
            // SAFETY: `buf` was allocated with capacity `MAX_SIZE` so its
            // pointer is valid for exactly that many bytes. `fill_from_sysvar`
            // writes `MAX_SIZE` bytes, and we immediately set the length to
            // `MAX_SIZE`, marking the entire buffer as initialized before it is
            // turned into a boxed slice.
            Self::fill_from_sysvar(buf.as_mut_ptr())?;
            buf.set_len(MAX_SIZE);
        }
        Ok(buf.into_boxed_slice())
    }

    /// Fetches the `SlotHashes` sysvar data directly via syscall. This copies
    /// the full sysvar data (`MAX_SIZE` bytes).
    #[inline(always)]
    pub fn fetch() -> Result<Self, ProgramError> {
        let data_init = Self::allocate_and_fetch()?;

        // SAFETY: The data was initialized by the syscall.
        Ok(unsafe { SlotHashes::new_unchecked(data_init) })
    }
}
