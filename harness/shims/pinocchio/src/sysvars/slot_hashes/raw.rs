//! Raw / caller-supplied buffer helpers for the `SlotHashes` sysvar.
//!
//! This sub-module exposes lightweight functions that let a program copy
//! `SlotHashes` data directly into an arbitrary buffer **without** constructing
//! a `SlotHashes<T>` view. Use these when you only need a byte snapshot or
//! when including the sysvar account is infeasible.
#![allow(clippy::inline_always)]

use super::*;

/// Validates buffer format for `SlotHashes` data and calculates entry capacity.
///
/// Validates that the buffer follows the correct format:
/// - If `offset == 0`: Buffer must have `8 + (N × 40)` format (header and entries)
/// - If `offset != 0`: Buffer must be a multiple of 40 bytes (entries only)
///
/// Does not validate that `offset + buffer_len ≤ MAX_SIZE`; this is checked
/// separately in `validate_fetch_offset`, and the syscall will fail anyway if
/// `offset + buffer_len > MAX_SIZE`.
///
/// Returns the number of entries that can fit in the buffer.
#[inline(always)]
pub(crate) fn get_valid_buffer_capacity(
    buffer_len: usize,
    offset: usize,
) -> Result<usize, ProgramError> {
    if offset == 0 {
        // Buffer includes header: must have 8 + (N × 40) format
        if buffer_len == MAX_SIZE {
            return Ok(MAX_ENTRIES);
        }

        if buffer_len < NUM_ENTRIES_SIZE {
            return Err(ProgramError::AccountDataTooSmall);
        }

        let entry_data_len = buffer_len - NUM_ENTRIES_SIZE;
        if entry_data_len % ENTRY_SIZE != 0 {
            return Err(ProgramError::InvalidArgument);
        }

        Ok(entry_data_len / ENTRY_SIZE)
    } else {
        // Buffer contains only entry data: must be multiple of ENTRY_SIZE
        if buffer_len % ENTRY_SIZE != 0 {
            return Err(ProgramError::InvalidArgument);
        }

        Ok(buffer_len / ENTRY_SIZE)
    }
}

/// Validates offset parameters for fetching `SlotHashes` data.
///
/// * `offset` - Byte offset within the `SlotHashes` sysvar data.
/// * `buffer_len` - Length of the destination buffer.
#[inline(always)]
pub fn validate_fetch_offset(offset: usize, buffer_len: usize) -> Result<(), ProgramError> {
    if offset >= MAX_SIZE {
        return Err(ProgramError::InvalidArgument);
    }
    if offset != 0 && (offset < NUM_ENTRIES_SIZE || (offset - NUM_ENTRIES_SIZE) % ENTRY_SIZE != 0) {
        return Err(ProgramError::InvalidArgument);
    }
    // Perhaps redundant, as the syscall will fail later if
    // `buffer.len() + offset > MAX_SIZE`, but this is for
    // checked paths.
    if offset.saturating_add(buffer_len) > MAX_SIZE {
        return Err(ProgramError::InvalidArgument);
    }

    Ok(())
}

/// Copies `SlotHashes` sysvar bytes into `buffer`, performing validation.
///
/// # Arguments
///
/// * `buffer` - Destination buffer to copy sysvar data into
/// * `offset` - Byte offset within the `SlotHashes` sysvar data to start copying from
///
/// # Returns
///
/// Returns the number of entries:
/// - If `offset == 0`: The actual entry count read from the sysvar header
/// - If `offset != 0`: The number of entries that can fit in the buffer
///
/// The return value helps callers understand the structure of the copied data.
#[inline(always)]
pub fn fetch_into(buffer: &mut [u8], offset: usize) -> Result<usize, ProgramError> {
    let num_entries = get_valid_buffer_capacity(buffer.len(), offset)?;

    validate_fetch_offset(offset, buffer.len())?;

    // SAFETY: Buffer format and offset alignment validated above.
    unsafe { fetch_into_unchecked(buffer, offset) }?;

    if offset == 0 {
        // Buffer includes header: return actual entry count from sysvar data
        Ok(read_entry_count_from_bytes(buffer).unwrap_or(0))
    } else {
        // Buffer excludes header: return calculated entry capacity
        Ok(num_entries)
    }
}

/// Copies `SlotHashes` sysvar bytes into `buffer` **without** validation.
///
/// The caller is responsible for ensuring that:
/// 1. `buffer` is large enough for the requested `offset + buffer.len()` range and
///    properly laid out (see `validate_buffer_size` and `validate_fetch_offset`).
/// 2. `offset + buffer.len()` is not greater than `MAX_SIZE`, or the syscall will
///    fail.
/// 3. The memory behind `buffer` is writable for its full length.
///
/// # Safety
/// Internally this function performs an unchecked Solana syscall that writes
/// raw bytes into the provided pointer.
#[inline(always)]
pub unsafe fn fetch_into_unchecked(buffer: &mut [u8], offset: usize) -> Result<(), ProgramError> {
    crate::sysvars::get_sysvar_unchecked(
        buffer.as_mut_ptr(),
        &SLOTHASHES_ID,
        offset,
        buffer.len(),
    )?;

    Ok(())
}
