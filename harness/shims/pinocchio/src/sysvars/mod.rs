//! Provides access to cluster system accounts.

#[cfg(target_os = "solana")]
use crate::syscalls::sol_get_sysvar;
use crate::{program_error::ProgramError, pubkey::Pubkey};
#[cfg(not(target_os = "solana"))]
use core::hint::black_box;

pub mod clock;
pub mod fees;
pub mod instructions;
pub mod rent;
pub mod slot_hashes;

/// Return value indicating that the `offset + length` is greater than the length of
/// the sysvar data.
//
// Defined in the bpf loader as [`OFFSET_LENGTH_EXCEEDS_SYSVAR`](https://github.com/anza-xyz/agave/blob/master/programs/bpf_loader/src/syscalls/sysvar.rs#L172).
#[cfg(target_os = "solana")]
const OFFSET_LENGTH_EXCEEDS_SYSVAR: u64 = 1;

/// Return value indicating that the sysvar was not found.
//
// Defined in the bpf loader as [`SYSVAR_NOT_FOUND`](https://github.com/anza-xyz/agave/blob/master/programs/bpf_loader/src/syscalls/sysvar.rs#L171).
#[cfg(target_os = "solana")]
const SYSVAR_NOT_FOUND: u64 = 2;

/// A type that holds sysvar data.
pub trait Sysvar: Sized {
    /// Load the sysvar directly from the runtime.
    ///
    /// This is the preferred way to load a sysvar. Calling this method does not
    /// incur any deserialization overhead, and does not require the sysvar
    /// account to be passed to the program.
    ///
    /// Not all sysvars support this method. If not, it returns
    /// [`ProgramError::UnsupportedSysvar`].
    fn get() -> Result<Self, ProgramError> {
        Err(ProgramError::UnsupportedSysvar)
    }
}

/// Implements the [`Sysvar::get`] method for both SBF and host targets.
#[macro_export]
macro_rules! impl_sysvar_get {
    ($syscall_name:ident) => {
        fn get() -> Result<Self, $crate::program_error::ProgramError> {
            let mut var = core::mem::MaybeUninit::<Self>::uninit();
            let var_addr = var.as_mut_ptr() as *mut _ as *mut u8;

            #[cfg(target_os = "solana")]
            let result = unsafe { $crate::syscalls::$syscall_name(var_addr) };

            #[cfg(not(target_os = "solana"))]
            let result = {
                // VERIF SHIM: off-chain, ask the native runtime for the sysvar bytes.
                extern "Rust" {
                    fn verif_pino_get_sysvar(name: &str, var_addr: *mut u8) -> u64;
                }
                unsafe { verif_pino_get_sysvar(stringify!($syscall_name), var_addr) }
            };

            match result {
                $crate::SUCCESS => {
                    // SAFETY: The syscall initialized the memory.
                    Ok(unsafe { var.assume_init() })
                }
                // Unexpected errors are folded into `UnsupportedSysvar`.
                _ => Err($crate::program_error::ProgramError::UnsupportedSysvar),
            }
        }
    };
}

/// Handler for retrieving a slice of sysvar data from the `sol_get_sysvar`
/// syscall.
///
/// # Safety
///
/// The caller must ensure that the `dst` pointer is valid and has enough space
/// to hold the requested `len` bytes of data.
#[inline]
pub unsafe fn get_sysvar_unchecked(
    dst: *mut u8,
    sysvar_id: &Pubkey,
    offset: usize,
    len: usize,
) -> Result<(), ProgramError> {
    #[cfg(target_os = "solana")]
    {
        let result = unsafe {
            sol_get_sysvar(
                sysvar_id as *const _ as *const u8,
                dst,
                offset as u64,
                len as u64,
            )
        };

        match result {
            crate::SUCCESS => Ok(()),
            OFFSET_LENGTH_EXCEEDS_SYSVAR => Err(ProgramError::InvalidArgument),
            SYSVAR_NOT_FOUND => Err(ProgramError::UnsupportedSysvar),
            // Unexpected errors are folded into `UnsupportedSysvar`.
            _ => Err(ProgramError::UnsupportedSysvar),
        }
    }

    #[cfg(not(target_os = "solana"))]
    {
        black_box((dst, sysvar_id, offset, len));
        Ok(())
    }
}

/// Handler for retrieving a slice of sysvar data from the `sol_get_sysvar`
/// syscall.
#[inline(always)]
pub fn get_sysvar(dst: &mut [u8], sysvar_id: &Pubkey, offset: usize) -> Result<(), ProgramError> {
    // SAFETY: Use the length of the slice as the length parameter.
    unsafe { get_sysvar_unchecked(dst.as_mut_ptr(), sysvar_id, offset, dst.len()) }
}
