//! This account contains the current cluster rent.
//!
//! This is required for the rent sysvar implementation.

use super::Sysvar;
use crate::{
    account_info::{AccountInfo, Ref},
    hint::unlikely,
    impl_sysvar_get,
    program_error::ProgramError,
    pubkey::{pubkey_eq, Pubkey},
};

/// The ID of the rent sysvar.
pub const RENT_ID: Pubkey = [
    6, 167, 213, 23, 25, 44, 92, 81, 33, 140, 201, 76, 61, 74, 241, 127, 88, 218, 238, 8, 155, 161,
    253, 68, 227, 219, 217, 138, 0, 0, 0, 0,
];

/// Default rental rate in lamports/byte-year.
///
/// This calculation is based on:
/// - `10^9` lamports per SOL
/// - `$1` per SOL
/// - `$0.01` per megabyte day
/// - `$3.65` per megabyte year
pub const DEFAULT_LAMPORTS_PER_BYTE_YEAR: u64 = 1_000_000_000 / 100 * 365 / (1024 * 1024);

/// SIMD-0194
///
/// This equates to the integer value of 3480. To account for 2 years of rent
/// exemption, we multiply this value by 2 to make it 6960.
pub const DEFAULT_LAMPORTS_PER_BYTE: u64 = 6960;

/// Default amount of time (in years) the balance has to include rent for the
/// account to be rent exempt.
pub const DEFAULT_EXEMPTION_THRESHOLD: f64 = 2.0;

/// Default amount of time (in years) the balance has to include rent for the
/// account to be rent exempt as a `u64`.
const DEFAULT_EXEMPTION_THRESHOLD_AS_U64: u64 = 2;

/// The `u64` representation of the default exemption threshold.
///
/// This is used to check whether the `f64` value can be safely cast to a `u64`.
const F64_EXEMPTION_THRESHOLD_AS_U64: u64 = 4611686018427387904;

/// The `u64` representation of the deprecated exemption threshold.
///
/// This value is equivalent to `1f64`. It is only used to check whether
/// the exemption threshold is the deprecated value to avoid performing
/// floating-point operations on-chain.
const F64_SIMD0194_EXEMPTION_THRESHOLD_AS_U64: u64 = 4607182418800017408;

/// Default percentage of collected rent that is burned.
///
/// Valid values are in the range [0, 100]. The remaining percentage is
/// distributed to validators.
pub const DEFAULT_BURN_PERCENT: u8 = 50;

/// Account storage overhead for calculation of base rent.
///
/// This is the number of bytes required to store an account with no data. It is
/// added to an accounts data length when calculating [`Rent::minimum_balance`].
pub const ACCOUNT_STORAGE_OVERHEAD: u64 = 128;

/// Rent sysvar data
#[repr(C)]
#[derive(Clone, Copy, Debug)]
pub struct Rent {
    /// Rental rate in lamports per byte-year
    #[deprecated(
        since = "0.9.2",
        note = "SIMD-0194 will rename this field to `lamports_per_byte`"
    )]
    pub lamports_per_byte_year: u64,

    /// Exemption threshold in years.
    ///
    /// SIMD-0194 will deprecate this value. The current implementation checks
    /// the value against known defaults to avoid performing a floating-point
    /// operation on-chain.
    #[deprecated(since = "0.9.2", note = "SIMD-0194 will deprecate this value")]
    pub exemption_threshold: f64,

    /// Burn percentage
    pub burn_percent: u8,
}

impl Rent {
    /// The length of the `Rent` sysvar account data.
    pub const LEN: usize = 8 + 8 + 1;

    /// Return a `Rent` from the given account info.
    ///
    /// This method performs a check on the account info key.
    #[inline]
    pub fn from_account_info(account_info: &AccountInfo) -> Result<Ref<Rent>, ProgramError> {
        if unlikely(!pubkey_eq(account_info.key(), &RENT_ID)) {
            return Err(ProgramError::InvalidArgument);
        }
        Ok(Ref::map(account_info.try_borrow_data()?, |data| unsafe {
            Self::from_bytes_unchecked(data)
        }))
    }

    /// Return a `Rent` from the given account info.
    ///
    /// This method performs a check on the account info key, but does not
    /// perform the borrow check.
    ///
    /// # Safety
    ///
    /// The caller must ensure that it is safe to borrow the account data - e.g., there are
    /// no mutable borrows of the account data.
    #[inline]
    pub unsafe fn from_account_info_unchecked(
        account_info: &AccountInfo,
    ) -> Result<&Self, ProgramError> {
        if unlikely(!pubkey_eq(account_info.key(), &RENT_ID)) {
            return Err(ProgramError::InvalidArgument);
        }
        Ok(Self::from_bytes_unchecked(
            account_info.borrow_data_unchecked(),
        ))
    }

    /// Return a `Rent` from the given bytes.
    ///
    /// This method performs a length validation. The caller must ensure that `bytes` contains
    /// a valid representation of `Rent`.
    #[inline]
    pub fn from_bytes(bytes: &[u8]) -> Result<&Self, ProgramError> {
        if bytes.len() < Self::LEN {
            return Err(ProgramError::InvalidArgument);
        }
        // SAFETY: `bytes` has been validated to be at least `Self::LEN` bytes long; the
        // caller must ensure that `bytes` contains a valid representation of `Rent`.
        Ok(unsafe { Self::from_bytes_unchecked(bytes) })
    }

    /// Return a `Rent` from the given bytes.
    ///
    /// # Safety
    ///
    /// The caller must ensure that `bytes` contains a valid representation of `Rent` and
    /// that is has the expected length.
    #[inline]
    pub unsafe fn from_bytes_unchecked(bytes: &[u8]) -> &Self {
        &*(bytes.as_ptr() as *const Rent)
    }

    /// Calculate how much rent to burn from the collected rent.
    ///
    /// The first value returned is the amount burned. The second is the amount
    /// to distribute to validators.
    #[inline]
    pub fn calculate_burn(&self, rent_collected: u64) -> (u64, u64) {
        let burned_portion = (rent_collected * u64::from(self.burn_percent)) / 100;
        (burned_portion, rent_collected - burned_portion)
    }

    /// Rent due on account's data length with balance.
    #[inline]
    pub fn due(&self, balance: u64, data_len: usize, years_elapsed: f64) -> RentDue {
        if self.is_exempt(balance, data_len) {
            RentDue::Exempt
        } else {
            RentDue::Paying(self.due_amount(data_len, years_elapsed))
        }
    }

    /// Rent due for account that is known to be not exempt.
    #[inline]
    #[allow(deprecated)]
    pub fn due_amount(&self, data_len: usize, years_elapsed: f64) -> u64 {
        let actual_data_len = data_len as u64 + ACCOUNT_STORAGE_OVERHEAD;
        let lamports_per_year = self.lamports_per_byte_year * actual_data_len;
        (lamports_per_year as f64 * years_elapsed) as u64
    }

    /// Calculates the minimum balance for rent exemption.
    ///
    /// This method avoids floating-point operations when the `exemption_threshold`
    /// is the default value.
    ///
    /// # Arguments
    ///
    /// * `data_len` - The number of bytes in the account
    ///
    /// # Returns
    ///
    /// The minimum balance in lamports for rent exemption.
    #[inline]
    #[allow(deprecated)]
    pub fn minimum_balance(&self, data_len: usize) -> u64 {
        let bytes = data_len as u64;
        let exemption_threshold_as_u64 = u64::from_le_bytes(self.exemption_threshold.to_le_bytes());

        match exemption_threshold_as_u64 {
            F64_SIMD0194_EXEMPTION_THRESHOLD_AS_U64 => {
                (ACCOUNT_STORAGE_OVERHEAD + bytes) * self.lamports_per_byte_year
            }
            F64_EXEMPTION_THRESHOLD_AS_U64 => {
                ((ACCOUNT_STORAGE_OVERHEAD + bytes) * self.lamports_per_byte_year)
                    * DEFAULT_EXEMPTION_THRESHOLD_AS_U64
            }
            _ => {
                (((ACCOUNT_STORAGE_OVERHEAD + bytes) * self.lamports_per_byte_year) as f64
                    * self.exemption_threshold) as u64
            }
        }
    }

    /// Determines if an account can be considered rent exempt.
    ///
    /// # Arguments
    ///
    /// * `lamports` - The balance of the account in lamports
    /// * `data_len` - The size of the account in bytes
    ///
    /// # Returns
    ///
    /// `true`` if the account is rent exempt, `false`` otherwise.
    #[inline]
    pub fn is_exempt(&self, lamports: u64, data_len: usize) -> bool {
        lamports >= self.minimum_balance(data_len)
    }
}

impl Sysvar for Rent {
    impl_sysvar_get!(sol_get_rent_sysvar);
}

/// The return value of [`Rent::due`].
#[derive(Debug, Copy, Clone, Eq, PartialEq)]
pub enum RentDue {
    /// Used to indicate the account is rent exempt.
    Exempt,
    /// The account owes this much rent.
    Paying(u64),
}

impl RentDue {
    /// Return the lamports due for rent.
    pub fn lamports(&self) -> u64 {
        match self {
            RentDue::Exempt => 0,
            RentDue::Paying(x) => *x,
        }
    }

    /// Return 'true' if rent exempt.
    pub fn is_exempt(&self) -> bool {
        match self {
            RentDue::Exempt => true,
            RentDue::Paying(_) => false,
        }
    }
}

#[cfg(test)]
#[allow(deprecated)]
mod tests {
    use crate::sysvars::rent::{
        ACCOUNT_STORAGE_OVERHEAD, DEFAULT_BURN_PERCENT, DEFAULT_EXEMPTION_THRESHOLD,
        DEFAULT_LAMPORTS_PER_BYTE, DEFAULT_LAMPORTS_PER_BYTE_YEAR,
    };

    #[test]
    pub fn test_minimum_balance() {
        let mut rent = super::Rent {
            lamports_per_byte_year: DEFAULT_LAMPORTS_PER_BYTE_YEAR,
            exemption_threshold: DEFAULT_EXEMPTION_THRESHOLD,
            burn_percent: DEFAULT_BURN_PERCENT,
        };

        // Using the default exemption threshold.

        let balance = rent.minimum_balance(100);
        let calculated = (((ACCOUNT_STORAGE_OVERHEAD + 100) * rent.lamports_per_byte_year) as f64
            * rent.exemption_threshold) as u64;

        assert!(calculated > 0);
        assert_eq!(balance, calculated);

        // Using a different exemption threshold.
        rent.exemption_threshold = 0.5;

        let balance = rent.minimum_balance(100);
        let calculated = (((ACCOUNT_STORAGE_OVERHEAD + 100) * rent.lamports_per_byte_year) as f64
            * rent.exemption_threshold) as u64;

        assert!(calculated > 0);
        assert_eq!(balance, calculated);
    }

    #[test]
    pub fn test_minimum_balance_simd0194() {
        let mut rent = super::Rent {
            lamports_per_byte_year: DEFAULT_LAMPORTS_PER_BYTE,
            exemption_threshold: 1.0, // SIMD-0194 default
            burn_percent: DEFAULT_BURN_PERCENT,
        };

        // Using the default exemption threshold.

        let balance = rent.minimum_balance(100);
        let calculated = (ACCOUNT_STORAGE_OVERHEAD + 100) * rent.lamports_per_byte_year;

        assert!(calculated > 0);
        assert_eq!(balance, calculated);

        // Using a different lamports per byte value.
        rent.lamports_per_byte_year = DEFAULT_LAMPORTS_PER_BYTE * 2;

        let balance = rent.minimum_balance(100);
        let calculated = (ACCOUNT_STORAGE_OVERHEAD + 100) * rent.lamports_per_byte_year;

        assert!(calculated > 0);
        assert_eq!(balance, calculated);
    }
}
