//! Calculation of transaction fees.

use super::{clock::DEFAULT_MS_PER_SLOT, Sysvar};
use crate::impl_sysvar_get;

/// Fee calculator for processing transactions
#[derive(Debug, Clone, Copy)]
pub struct FeeCalculator {
    /// The current cost of a signature in lamports.
    /// This amount may increase/decrease over time based on cluster processing
    /// load.
    pub lamports_per_signature: u64,
}

impl FeeCalculator {
    /// Create a new instance of the `FeeCalculator`.
    pub fn new(lamports_per_signature: u64) -> Self {
        Self {
            lamports_per_signature,
        }
    }
}

/// Governs the fee rate for the cluster
#[derive(Debug, Clone, Copy)]
pub struct FeeRateGovernor {
    /// The current cost of a signature
    pub lamports_per_signature: u64,
    /// The target cost of a signature
    pub target_lamports_per_signature: u64,
    /// The target number of signatures per slot
    pub target_signatures_per_slot: u64,
    /// Minimum lamports per signature
    pub min_lamports_per_signature: u64,
    /// Maximum lamports per signature
    pub max_lamports_per_signature: u64,
    /// Percentage of fees to burn (0-100)
    pub burn_percent: u8,
}

/// Default lamports per signature.
pub const DEFAULT_TARGET_LAMPORTS_PER_SIGNATURE: u64 = 10_000;

/// Default signatures per slot.
pub const DEFAULT_TARGET_SIGNATURES_PER_SLOT: u64 = 50 * DEFAULT_MS_PER_SLOT;

/// Default percentage of fees to burn.
pub const DEFAULT_BURN_PERCENT: u8 = 50;

impl Default for FeeRateGovernor {
    fn default() -> Self {
        Self {
            lamports_per_signature: 0,
            target_lamports_per_signature: DEFAULT_TARGET_LAMPORTS_PER_SIGNATURE, // Example default value
            target_signatures_per_slot: DEFAULT_TARGET_SIGNATURES_PER_SLOT, // Assuming 400ms per slot
            min_lamports_per_signature: 0,
            max_lamports_per_signature: 0,
            burn_percent: DEFAULT_BURN_PERCENT,
        }
    }
}

impl FeeRateGovernor {
    /// Create a new `FeeCalculator` based on current cluster signature throughput
    pub fn create_fee_calculator(&self) -> FeeCalculator {
        FeeCalculator::new(self.lamports_per_signature)
    }

    /// Calculate unburned fee from a fee total, returns (unburned, burned)
    pub fn burn(&self, fees: u64) -> (u64, u64) {
        let burned = fees * u64::from(self.burn_percent) / 100;
        (fees - burned, burned)
    }
}

/// Fees sysvar
#[derive(Copy, Clone, Debug)]
pub struct Fees {
    /// Fee calculator for processing transactions
    pub fee_calculator: FeeCalculator,
    /// Fee rate governor
    pub fee_rate_governor: FeeRateGovernor,
}

impl Fees {
    /// Create a new instance of the Fees sysvar
    pub fn new(fee_calculator: FeeCalculator, fee_rate_governor: FeeRateGovernor) -> Self {
        Self {
            fee_calculator,
            fee_rate_governor,
        }
    }
}

impl Sysvar for Fees {
    impl_sysvar_get!(sol_get_fees_sysvar);
}
