//! Information about the network's clock, ticks, slots, etc.

use super::Sysvar;
use crate::{
    account_info::{AccountInfo, Ref},
    hint::unlikely,
    impl_sysvar_get,
    program_error::ProgramError,
    pubkey::{pubkey_eq, Pubkey},
};

/// The ID of the clock sysvar.
pub const CLOCK_ID: Pubkey = [
    6, 167, 213, 23, 24, 199, 116, 201, 40, 86, 99, 152, 105, 29, 94, 182, 139, 94, 184, 163, 155,
    75, 109, 92, 115, 85, 91, 33, 0, 0, 0, 0,
];

/// The unit of time given to a leader for encoding a block.
///
/// It is some some number of _ticks_ long.
pub type Slot = u64;

/// The unit of time a given leader schedule is honored.
///
/// It lasts for some number of [`Slot`]s.
pub type Epoch = u64;

/// An approximate measure of real-world time.
///
/// Expressed as Unix time (i.e. seconds since the Unix epoch).
pub type UnixTimestamp = i64;

/// A representation of network time.
///
/// All members of `Clock` start from 0 upon network boot.
#[repr(C)]
#[derive(Clone, Copy, Debug)]
pub struct Clock {
    /// The current `Slot`.
    pub slot: Slot,

    /// The timestamp of the first `Slot` in this `Epoch`.
    pub epoch_start_timestamp: UnixTimestamp,

    /// The current `Epoch`.
    pub epoch: Epoch,

    /// The future `Epoch` for which the leader schedule has
    /// most recently been calculated.
    pub leader_schedule_epoch: Epoch,

    /// The approximate real world time of the current slot.
    ///
    /// This value was originally computed from genesis creation time and
    /// network time in slots, incurring a lot of drift. Following activation of
    /// the [`timestamp_correction` and `timestamp_bounding`][tsc] features it
    /// is calculated using a [validator timestamp oracle][oracle].
    ///
    /// [tsc]: https://docs.solanalabs.com/implemented-proposals/bank-timestamp-correction
    /// [oracle]: https://docs.solanalabs.com/implemented-proposals/validator-timestamp-oracle
    pub unix_timestamp: UnixTimestamp,
}

/// At 160 ticks/s, 64 ticks per slot implies that leader rotation and voting will happen
/// every 400 ms. A fast voting cadence ensures faster finality and convergence
pub const DEFAULT_TICKS_PER_SLOT: u64 = 64;

/// The default tick rate that the cluster attempts to achieve (160 per second).
///
/// Note that the actual tick rate at any given time should be expected to drift.
pub const DEFAULT_TICKS_PER_SECOND: u64 = 160;

/// The expected duration of a slot (400 milliseconds).
// Actually calculation is supposed to be derived DEFAULT_TICKS_PER_SLOT / DEFAULT_TICKS_PER_SECOND
pub const DEFAULT_MS_PER_SLOT: u64 = 1_000 * DEFAULT_TICKS_PER_SLOT / DEFAULT_TICKS_PER_SECOND;

impl Sysvar for Clock {
    impl_sysvar_get!(sol_get_clock_sysvar);
}

impl Clock {
    /// The length of the `Clock` sysvar account data.
    pub const LEN: usize = 8 + 8 + 8 + 8 + 8;

    /// Return a `Clock` from the given account info.
    ///
    /// This method performs a check on the account info key.
    #[inline]
    pub fn from_account_info(account_info: &AccountInfo) -> Result<Ref<Clock>, ProgramError> {
        if unlikely(!pubkey_eq(account_info.key(), &CLOCK_ID)) {
            return Err(ProgramError::InvalidArgument);
        }
        Ok(Ref::map(account_info.try_borrow_data()?, |data| unsafe {
            Self::from_bytes_unchecked(data)
        }))
    }

    /// Return a `Clock` from the given account info.
    ///
    /// This method performs a check on the account info key, but does not
    /// perform the borrow check.
    ///
    /// # Safety
    ///
    /// The caller must ensure that it is safe to borrow the account data - e.g., there are
    /// no mutable borrows of the account data.
    #[inline]
    pub unsafe fn from_account_info_unchecked(
        account_info: &AccountInfo,
    ) -> Result<&Self, ProgramError> {
        if unlikely(!pubkey_eq(account_info.key(), &CLOCK_ID)) {
            return Err(ProgramError::InvalidArgument);
        }
        Ok(Self::from_bytes_unchecked(
            account_info.borrow_data_unchecked(),
        ))
    }

    /// Return a `Clock` from the given bytes.
    ///
    /// This method performs a length validation. The caller must ensure that `bytes` contains
    /// a valid representation of `Clock`.
    #[inline]
    pub fn from_bytes(bytes: &[u8]) -> Result<&Self, ProgramError> {
        if bytes.len() < Self::LEN {
            return Err(ProgramError::InvalidArgument);
        }
        // SAFETY: `bytes` has been validated to be at least `Self::LEN` bytes long; the
        // caller must ensure that `bytes` contains a valid representation of `Clock`.
        Ok(unsafe { Self::from_bytes_unchecked(bytes) })
    }

    /// Return a `Clock` from the given bytes.
    ///
    /// # Safety
    ///
    /// The caller must ensure that `bytes` contains a valid representation of `Clock` and
    /// that is has the expected length.
    #[inline]
    pub unsafe fn from_bytes_unchecked(bytes: &[u8]) -> &Self {
        &*(bytes.as_ptr() as *const Clock)
    }
}
