use crate::{
    account_info::{AccountInfo, Ref},
    instruction::AccountMeta,
    program_error::ProgramError,
    pubkey::{Pubkey, PUBKEY_BYTES},
};

use core::{marker::PhantomData, mem::size_of, ops::Deref};

/// Instructions sysvar ID `Sysvar1nstructions1111111111111111111111111`.
pub const INSTRUCTIONS_ID: Pubkey = [
    0x06, 0xa7, 0xd5, 0x17, 0x18, 0x7b, 0xd1, 0x66, 0x35, 0xda, 0xd4, 0x04, 0x55, 0xfd, 0xc2, 0xc0,
    0xc1, 0x24, 0xc6, 0x8f, 0x21, 0x56, 0x75, 0xa5, 0xdb, 0xba, 0xcb, 0x5f, 0x08, 0x00, 0x00, 0x00,
];

#[derive(Clone, Copy, Debug)]
pub struct Instructions<T>
where
    T: Deref<Target = [u8]>,
{
    data: T,
}

impl<T> Instructions<T>
where
    T: Deref<Target = [u8]>,
{
    /// Creates a new `Instructions` struct.
    ///
    /// `data` is the instructions sysvar account data.
    ///
    /// # Safety
    ///
    /// This function is unsafe because it does not check if the provided data is from the Sysvar Account.
    #[inline(always)]
    pub unsafe fn new_unchecked(data: T) -> Self {
        Instructions { data }
    }

    /// Load the number of instructions in the currently executing `Transaction`.
    #[inline(always)]
    pub fn num_instructions(&self) -> u16 {
        // SAFETY: The first 2 bytes of the Instructions sysvar data represents the
        // number of instructions.
        unsafe { u16::from_le_bytes(*(self.data.as_ptr() as *const [u8; 2])) }
    }

    /// Load the current `Instruction`'s index in the currently executing
    /// `Transaction`.
    #[inline(always)]
    pub fn load_current_index(&self) -> u16 {
        let len = self.data.len();
        // SAFETY: The last 2 bytes of the Instructions sysvar data represents the current
        // instruction index.
        unsafe { u16::from_le_bytes(*(self.data.as_ptr().add(len - 2) as *const [u8; 2])) }
    }

    /// Creates and returns an `IntrospectedInstruction` for the instruction at the specified index.
    ///
    /// # Safety
    ///
    /// This function is unsafe because it does not check if the provided index is out of bounds. It is
    /// typically used internally with the `load_instruction_at` or `get_instruction_relative` functions,
    /// which perform the necessary index verification.
    #[inline(always)]
    pub unsafe fn deserialize_instruction_unchecked(
        &self,
        index: usize,
    ) -> IntrospectedInstruction {
        let offset = *(self
            .data
            .as_ptr()
            .add(size_of::<u16>() + index * size_of::<u16>()) as *const u16);

        IntrospectedInstruction {
            raw: self.data.as_ptr().add(offset as usize),
            marker: PhantomData,
        }
    }

    /// Creates and returns an `IntrospectedInstruction` for the instruction at the specified index.
    #[inline(always)]
    pub fn load_instruction_at(
        &self,
        index: usize,
    ) -> Result<IntrospectedInstruction, ProgramError> {
        if index >= self.num_instructions() as usize {
            return Err(ProgramError::InvalidInstructionData);
        }

        // SAFETY: The index was checked to be in bounds.
        Ok(unsafe { self.deserialize_instruction_unchecked(index) })
    }

    /// Creates and returns an `IntrospectedInstruction` relative to the current `Instruction` in the
    /// currently executing `Transaction.
    #[inline(always)]
    pub fn get_instruction_relative(
        &self,
        index_relative_to_current: i64,
    ) -> Result<IntrospectedInstruction, ProgramError> {
        let current_index = self.load_current_index() as i64;
        let index = current_index.saturating_add(index_relative_to_current);

        if index < 0 {
            return Err(ProgramError::InvalidInstructionData);
        }

        self.load_instruction_at(index as usize)
    }
}

impl<'a> TryFrom<&'a AccountInfo> for Instructions<Ref<'a, [u8]>> {
    type Error = ProgramError;

    #[inline(always)]
    fn try_from(account_info: &'a AccountInfo) -> Result<Self, Self::Error> {
        if account_info.key() != &INSTRUCTIONS_ID {
            return Err(ProgramError::UnsupportedSysvar);
        }

        Ok(Instructions {
            data: account_info.try_borrow_data()?,
        })
    }
}

#[repr(C)]
#[derive(Clone, Debug, Eq, PartialEq)]
pub struct IntrospectedInstruction<'a> {
    pub raw: *const u8,
    pub marker: PhantomData<&'a [u8]>,
}

impl IntrospectedInstruction<'_> {
    /// Get the account meta at the specified index.
    ///
    /// # Safety
    ///
    /// This function is unsafe because it does not verify if the index is out of bounds.
    ///
    /// It is typically used internally within the `get_account_meta_at` function, which
    /// performs the necessary index verification. However, to optimize performance for users
    /// who are sure that the index is in bounds, we have exposed it as an unsafe function.
    #[inline(always)]
    pub unsafe fn get_account_meta_at_unchecked(&self, index: usize) -> &IntrospectedAccountMeta {
        let offset = core::mem::size_of::<u16>() + (index * IntrospectedAccountMeta::LEN);
        &*(self.raw.add(offset) as *const IntrospectedAccountMeta)
    }

    /// Get the account meta at the specified index.
    ///
    /// # Errors
    ///
    /// Returns [`ProgramError::InvalidArgument`] if the index is out of bounds.
    #[inline(always)]
    pub fn get_account_meta_at(
        &self,
        index: usize,
    ) -> Result<&IntrospectedAccountMeta, ProgramError> {
        // SAFETY: The first 2 bytes represent the number of accounts in the instruction.
        let num_accounts = u16::from_le_bytes(unsafe { *(self.raw as *const [u8; 2]) });

        if index >= num_accounts as usize {
            return Err(ProgramError::InvalidArgument);
        }

        // SAFETY: The index was checked to be in bounds.
        Ok(unsafe { self.get_account_meta_at_unchecked(index) })
    }

    /// Get the program ID of the `Instruction`.
    #[inline(always)]
    pub fn get_program_id(&self) -> &Pubkey {
        // SAFETY: The first 2 bytes represent the number of accounts in the instruction.
        let num_accounts = u16::from_le_bytes(unsafe { *(self.raw as *const [u8; 2]) });

        // SAFETY: The program ID is located after the account metas.
        unsafe {
            &*(self.raw.add(
                size_of::<u16>() + num_accounts as usize * size_of::<IntrospectedAccountMeta>(),
            ) as *const Pubkey)
        }
    }

    /// Get the instruction data of the `Instruction`.
    #[inline(always)]
    pub fn get_instruction_data(&self) -> &[u8] {
        // SAFETY: The first 2 bytes represent the number of accounts in the instruction.
        let offset = u16::from_le_bytes(unsafe { *(self.raw as *const [u8; 2]) }) as usize
            * size_of::<IntrospectedAccountMeta>()
            + PUBKEY_BYTES;

        // SAFETY: The instruction data length is located after the program ID.
        let data_len = u16::from_le_bytes(unsafe {
            *(self.raw.add(size_of::<u16>() + offset) as *const [u8; 2])
        });

        // SAFETY: The instruction data is located after the data length.
        unsafe {
            core::slice::from_raw_parts(
                self.raw.add(size_of::<u16>() + offset + size_of::<u16>()),
                data_len as usize,
            )
        }
    }
}

/// The bit positions for the signer flags in the `AccountMeta`.
const IS_SIGNER: u8 = 0b00000001;

/// The bit positions for the writable flags in the `AccountMeta`.
const IS_WRITABLE: u8 = 0b00000010;

#[repr(C)]
#[derive(Clone, Copy, Debug, Eq, PartialEq)]
pub struct IntrospectedAccountMeta {
    /// Account flags:
    ///   * bit `0`: signer
    ///   * bit `1`: writable
    flags: u8,

    /// The account key.
    pub key: Pubkey,
}

impl IntrospectedAccountMeta {
    const LEN: usize = core::mem::size_of::<Self>();

    /// Indicate whether the account is writable or not.
    #[inline(always)]
    pub fn is_writable(&self) -> bool {
        (self.flags & IS_WRITABLE) != 0
    }

    /// Indicate whether the account is a signer or not.
    #[inline(always)]
    pub fn is_signer(&self) -> bool {
        (self.flags & IS_SIGNER) != 0
    }

    /// Convert the `IntrospectedAccountMeta` to an `AccountMeta`.
    #[inline(always)]
    pub fn to_account_meta(&self) -> AccountMeta {
        AccountMeta::new(&self.key, self.is_writable(), self.is_signer())
    }
}
