//! Instruction types.

use core::{marker::PhantomData, ops::Deref};

use crate::{account_info::AccountInfo, pubkey::Pubkey};

/// Information about a CPI instruction.
#[derive(Debug, Clone)]
pub struct Instruction<'a, 'b, 'c, 'd>
where
    'a: 'b,
{
    /// Public key of the program.
    pub program_id: &'c Pubkey,

    /// Data expected by the program instruction.
    pub data: &'d [u8],

    /// Metadata describing accounts that should be passed to the program.
    pub accounts: &'b [AccountMeta<'a>],
}

/// Use to query and convey information about the sibling instruction components
/// when calling the `sol_get_processed_sibling_instruction` syscall.
#[repr(C)]
#[derive(Default, Debug, Clone, Copy, Eq, PartialEq)]
pub struct ProcessedSiblingInstruction {
    /// Length of the instruction data
    pub data_len: u64,

    /// Number of `AccountMeta` structures
    pub accounts_len: u64,
}

/// An `Account` for CPI invocations.
///
/// This struct contains the same information as an [`AccountInfo`], but has
/// the memory layout as expected by `sol_invoke_signed_c` syscall.
#[repr(C)]
#[derive(Clone, Copy, Debug)]
pub struct Account<'a> {
    // Public key of the account.
    key: *const Pubkey,

    // Number of lamports owned by this account.
    lamports: *const u64,

    // Length of data in bytes.
    data_len: u64,

    // On-chain data within this account.
    data: *const u8,

    // Program that owns this account.
    owner: *const Pubkey,

    // The epoch at which this account will next owe rent.
    rent_epoch: u64,

    // Transaction was signed by this account's key?
    is_signer: bool,

    // Is the account writable?
    is_writable: bool,

    // This account's data contains a loaded program (and is now read-only).
    executable: bool,

    /// The pointers to the `AccountInfo` data are only valid for as long as the
    /// `&'a AccountInfo` lives. Instead of holding a reference to the actual `AccountInfo`,
    /// which would increase the size of the type, we claim to hold a reference without
    /// actually holding one using a `PhantomData<&'a AccountInfo>`.
    _account_info: PhantomData<&'a AccountInfo>,
}

/// Return a pointer to a type `U` given type `T` has a field of type `U` at the specified
/// offset (in bytes) from the start of the `T` type.
///
/// # Safety
///
/// The caller must ensure that the `ptr` is a valid pointer to a type `T`, and `ptr + offset`
/// points to bytes that are properly aligned for `U` and represent a bit pattern that is a
/// valid instance of `U`.
///
/// If any of this requirements is not valid, this function leads to undefined behavior.
#[inline(always)]
const unsafe fn field_at_offset<T, U>(ptr: *const T, offset: usize) -> *const U {
    // SAFETY: The caller ensures that the offset is valid for the type `T` and that
    // the resulting pointer is valid for type `U`.
    unsafe { (ptr as *const u8).add(offset) as *const U }
}

impl<'a> From<&'a AccountInfo> for Account<'a> {
    fn from(account: &'a AccountInfo) -> Self {
        Account {
            // SAFETY: offset `8` is the `key` field in the `Account` struct.
            key: unsafe { field_at_offset(account.raw, 8) },
            // SAFETY: offset `72` is the `lamports` field in the `Account` struct.
            lamports: unsafe { field_at_offset(account.raw, 72) },
            data_len: account.data_len() as u64,
            // SAFETY: offset `88` is the start of the account data in the `Account` struct.
            data: unsafe { field_at_offset(account.raw, 88) },
            // SAFETY: offset `40` is the `owner` field in the `Account` struct.
            owner: unsafe { field_at_offset(account.raw, 40) },
            // The `rent_epoch` field is not present in the `AccountInfo` struct,
            // since the value occurs after the variable data of the account in
            // the runtime input data.
            rent_epoch: 0,
            is_signer: account.is_signer(),
            is_writable: account.is_writable(),
            executable: account.executable(),
            _account_info: PhantomData::<&'a AccountInfo>,
        }
    }
}

/// Describes a single account read or written by a program during instruction
/// execution.
///
/// When constructing an [`Instruction`], a list of all accounts that may be
/// read or written during the execution of that instruction must be supplied.
/// Any account that may be mutated by the program during execution, either its
/// data or metadata such as held lamports, must be writable.
///
/// Note that because the Solana runtime schedules parallel transaction
/// execution around which accounts are writable, care should be taken that only
/// accounts which actually may be mutated are specified as writable.
#[repr(C)]
#[derive(Debug, Clone)]
pub struct AccountMeta<'a> {
    /// Public key of the account.
    pub pubkey: &'a Pubkey,

    /// Indicates whether the account is writable or not.
    pub is_writable: bool,

    /// Indicates whether the account signed the instruction or not.
    pub is_signer: bool,
}

impl<'a> AccountMeta<'a> {
    /// Creates a new `AccountMeta`.
    #[inline(always)]
    pub const fn new(pubkey: &'a Pubkey, is_writable: bool, is_signer: bool) -> Self {
        Self {
            pubkey,
            is_writable,
            is_signer,
        }
    }

    /// Creates a new read-only `AccountMeta`.
    #[inline(always)]
    pub const fn readonly(pubkey: &'a Pubkey) -> Self {
        Self::new(pubkey, false, false)
    }

    /// Creates a new writable `AccountMeta`.
    #[inline(always)]
    pub const fn writable(pubkey: &'a Pubkey) -> Self {
        Self::new(pubkey, true, false)
    }

    /// Creates a new read-only and signer `AccountMeta`.
    #[inline(always)]
    pub const fn readonly_signer(pubkey: &'a Pubkey) -> Self {
        Self::new(pubkey, false, true)
    }

    /// Creates a new writable and signer `AccountMeta`.
    #[inline(always)]
    pub const fn writable_signer(pubkey: &'a Pubkey) -> Self {
        Self::new(pubkey, true, true)
    }
}

impl<'a> From<&'a AccountInfo> for AccountMeta<'a> {
    fn from(account: &'a crate::account_info::AccountInfo) -> Self {
        AccountMeta::new(account.key(), account.is_writable(), account.is_signer())
    }
}

/// Represents a signer seed.
///
/// This struct contains the same information as a `[u8]`, but
/// has the memory layout as expected by `sol_invoke_signed_c`
/// syscall.
#[repr(C)]
#[derive(Debug, Clone)]
pub struct Seed<'a> {
    /// Seed bytes.
    pub(crate) seed: *const u8,

    /// Length of the seed bytes.
    pub(crate) len: u64,

    /// The pointer to the seed bytes is only valid while the `&'a [u8]` lives. Instead
    /// of holding a reference to the actual `[u8]`, which would increase the size of the
    /// type, we claim to hold a reference without actually holding one using a
    /// `PhantomData<&'a [u8]>`.
    _bytes: PhantomData<&'a [u8]>,
}

impl<'a> From<&'a [u8]> for Seed<'a> {
    fn from(value: &'a [u8]) -> Self {
        Self {
            seed: value.as_ptr(),
            len: value.len() as u64,
            _bytes: PhantomData::<&[u8]>,
        }
    }
}

impl<'a, const SIZE: usize> From<&'a [u8; SIZE]> for Seed<'a> {
    fn from(value: &'a [u8; SIZE]) -> Self {
        Self {
            seed: value.as_ptr(),
            len: value.len() as u64,
            _bytes: PhantomData::<&[u8]>,
        }
    }
}

impl Deref for Seed<'_> {
    type Target = [u8];

    fn deref(&self) -> &Self::Target {
        unsafe { core::slice::from_raw_parts(self.seed, self.len as usize) }
    }
}

/// Represents a [program derived address][pda] (PDA) signer controlled by the
/// calling program.
///
/// [pda]: https://solana.com/docs/core/cpi#program-derived-addresses
#[repr(C)]
#[derive(Debug, Clone)]
pub struct Signer<'a, 'b> {
    /// Signer seeds.
    pub(crate) seeds: *const Seed<'a>,

    /// Number of seeds.
    pub(crate) len: u64,

    /// The pointer to the seeds is only valid while the `&'b [Seed<'a>]` lives. Instead
    /// of holding a reference to the actual `[Seed<'a>]`, which would increase the size
    /// of the type, we claim to hold a reference without actually holding one using a
    /// `PhantomData<&'b [Seed<'a>]>`.
    _seeds: PhantomData<&'b [Seed<'a>]>,
}

impl<'a, 'b> From<&'b [Seed<'a>]> for Signer<'a, 'b> {
    fn from(value: &'b [Seed<'a>]) -> Self {
        Self {
            seeds: value.as_ptr(),
            len: value.len() as u64,
            _seeds: PhantomData::<&'b [Seed<'a>]>,
        }
    }
}

impl<'a, 'b, const SIZE: usize> From<&'b [Seed<'a>; SIZE]> for Signer<'a, 'b> {
    fn from(value: &'b [Seed<'a>; SIZE]) -> Self {
        Self {
            seeds: value.as_ptr(),
            len: value.len() as u64,
            _seeds: PhantomData::<&'b [Seed<'a>]>,
        }
    }
}

/// Convenience macro for constructing a `Signer` from a list of seeds
/// represented as byte slices.
///
/// # Example
///
/// Creating a signer for a PDA with a single seed and bump value:
/// ```
/// use pinocchio::signer;
///
/// let pda_bump = 255;
/// let signer = signer!(b"seed", &[pda_bump]);
/// ```
#[macro_export]
#[deprecated(since = "0.8.0", note = "Use `seeds!` macro instead")]
macro_rules! signer {
    ( $($seed:expr),* ) => {
            $crate::instruction::Signer::from(&[$(
                $seed.into(),
            )*])
    };
}

/// Convenience macro for constructing a `[Seed; N]` array from a list of seeds.
///
/// # Example
///
/// Creating seeds array and signer for a PDA with a single seed and bump value:
/// ```
/// use pinocchio::{seeds, instruction::Signer};
/// use pinocchio::pubkey::Pubkey;
///
/// let pda_bump = 0xffu8;
/// let pda_ref = &[pda_bump];  // prevent temporary value being freed
/// let example_key = Pubkey::default();
/// let seeds = seeds!(b"seed", &example_key, pda_ref);
/// let signer = Signer::from(&seeds);
/// ```
#[macro_export]
macro_rules! seeds {
    ( $($seed:expr),* ) => {
        [$(
            $crate::instruction::Seed::from($seed),
        )*]
    };
}
