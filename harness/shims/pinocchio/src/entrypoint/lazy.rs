//! Defines the lazy program entrypoint and the context to access the
//! input buffer.

use crate::{
    account_info::{Account, AccountInfo},
    entrypoint::{NON_DUP_MARKER, STATIC_ACCOUNT_DATA},
    program_error::ProgramError,
    pubkey::Pubkey,
    BPF_ALIGN_OF_U128,
};

/// Declare the lazy program entrypoint.
///
/// Use the `lazy_program_entrypoint!` macro instead.
#[deprecated(
    since = "0.7.0",
    note = "Use the `lazy_program_entrypoint!` macro instead"
)]
#[macro_export]
macro_rules! lazy_entrypoint {
    ( $process_instruction:expr ) => {
        $crate::lazy_program_entrypoint!($process_instruction);
    };
}

/// Declare the lazy program entrypoint.
///
/// This entrypoint is defined as *lazy* because it does not read the accounts upfront.
/// Instead, it provides an [`InstructionContext`] to the access input information on demand.
/// This is useful when the program needs more control over the compute units it uses.
/// The trade-off is that the program is responsible for managing potential duplicated
/// accounts and set up a `global allocator` and `panic handler`.
///
/// The usual use-case for a [`crate::lazy_program_entrypoint!`] is small programs with a single
/// instruction. For most use-cases, it is recommended to use the [`crate::program_entrypoint!`]
/// macro instead.
///
/// This macro emits the boilerplate necessary to begin program execution, calling a
/// provided function to process the program instruction supplied by the runtime, and reporting
/// its result to the runtime. Note that it does not set up a global allocator nor a panic
/// handler.
///
/// The only argument is the name of a function with this type signature:
///
/// ```ignore
/// fn process_instruction(
///    mut context: InstructionContext, // wrapper around the input buffer
/// ) -> ProgramResult;
/// ```
///
/// # Example
///
/// Defining an entrypoint and making it conditional on the `bpf-entrypoint` feature. Although
/// the `entrypoint` module is written inline in this example, it is common to put it into its
/// own file.
///
/// ```no_run
/// #[cfg(feature = "bpf-entrypoint")]
/// pub mod entrypoint {
///
///     use pinocchio::{
///         default_allocator,
///         default_panic_handler,
///         entrypoint::InstructionContext,
///         lazy_program_entrypoint,
///         msg,
///         ProgramResult
///     };
///
///     lazy_program_entrypoint!(process_instruction);
///     default_allocator!();
///     default_panic_handler!();
///
///     pub fn process_instruction(
///         mut context: InstructionContext,
///     ) -> ProgramResult {
///         msg!("Hello from my `lazy` program!");
///         Ok(())
///     }
///
/// }
/// ```
#[macro_export]
macro_rules! lazy_program_entrypoint {
    ( $process_instruction:expr ) => {
        /// Program entrypoint.
        #[no_mangle]
        pub unsafe extern "C" fn entrypoint(input: *mut u8) -> u64 {
            match $process_instruction($crate::entrypoint::lazy::InstructionContext::new_unchecked(
                input,
            )) {
                Ok(_) => $crate::SUCCESS,
                Err(error) => error.into(),
            }
        }
    };
}

/// Context to access data from the input buffer for the instruction.
///
/// This is a wrapper around the input buffer that provides methods to read the accounts
/// and instruction data. It is used by the lazy entrypoint to access the input data on demand.
#[derive(Debug)]
pub struct InstructionContext {
    /// Pointer to the runtime input buffer to read from.
    ///
    /// This pointer is moved forward as accounts are read from the buffer.
    buffer: *mut u8,

    /// Number of remaining accounts.
    ///
    /// This value is decremented each time [`next_account`] is called.
    remaining: u64,
}

impl InstructionContext {
    /// Creates a new [`InstructionContext`] for the input buffer.
    ///
    /// The caller must ensure that the input buffer is valid, i.e., it represents
    /// the program input parameters serialized by the SVM loader.
    ///
    /// This method is deprecated and will be removed in a future version. It is
    /// missing the `unsafe` qualifier.
    #[deprecated(since = "0.8.3", note = "Use `new_unchecked` instead")]
    #[allow(clippy::not_unsafe_ptr_arg_deref)]
    #[inline(always)]
    pub fn new(input: *mut u8) -> Self {
        unsafe { Self::new_unchecked(input) }
    }

    /// Creates a new [`InstructionContext`] for the input buffer.
    ///
    /// # Safety
    ///
    /// The caller must ensure that the input buffer is valid, i.e., it represents
    /// the program input parameters serialized by the SVM loader. The SVM loader
    /// serializes the input parameters aligned to `8` bytes, with the first
    /// `8` bytes representing the number of accounts, followed by the accounts
    /// themselves, the instruction data and the program id.
    ///
    /// More information on the input buffer format can be found in the
    /// [SVM documentation].
    ///
    /// [SVM documentation]: https://solana.com/docs/programs/faq#input-parameter-serialization
    #[inline(always)]
    pub unsafe fn new_unchecked(input: *mut u8) -> Self {
        Self {
            // SAFETY: The first 8 bytes of the input buffer represent the
            // number of accounts when serialized by the SVM loader, which is read
            // when the context is created.
            buffer: unsafe { input.add(core::mem::size_of::<u64>()) },
            // SAFETY: Read the number of accounts from the input buffer serialized
            // by the SVM loader.
            remaining: unsafe { *(input as *const u64) },
        }
    }

    /// Reads the next account for the instruction.
    ///
    /// The account is represented as a [`MaybeAccount`], since it can either
    /// represent and [`AccountInfo`] or the index of a duplicated account. It is up to the
    /// caller to handle the mapping back to the source account.
    ///
    /// # Error
    ///
    /// Returns a [`ProgramError::NotEnoughAccountKeys`] error if there are
    /// no remaining accounts.
    #[inline(always)]
    pub fn next_account(&mut self) -> Result<MaybeAccount, ProgramError> {
        self.remaining = self
            .remaining
            .checked_sub(1)
            .ok_or(ProgramError::NotEnoughAccountKeys)?;

        Ok(unsafe { self.read_account() })
    }

    /// Returns the next account for the instruction.
    ///
    /// Note that this method does *not* decrement the number of remaining accounts, but moves
    /// the input pointer forward. It is intended for use when the caller is certain on the number of
    /// remaining accounts.
    ///
    /// # Safety
    ///
    /// It is up to the caller to guarantee that there are remaining accounts; calling this when
    /// there are no more remaining accounts results in undefined behavior.
    #[inline(always)]
    pub unsafe fn next_account_unchecked(&mut self) -> MaybeAccount {
        self.read_account()
    }

    /// Returns the number of remaining accounts.
    ///
    /// This value is decremented each time [`Self::next_account`] is called.
    #[inline(always)]
    pub fn remaining(&self) -> u64 {
        self.remaining
    }

    /// Returns the data for the instruction.
    ///
    /// This method can only be used after all accounts have been read; otherwise, it will
    /// return a [`ProgramError::InvalidInstructionData`] error.
    #[inline(always)]
    pub fn instruction_data(&self) -> Result<&[u8], ProgramError> {
        if self.remaining > 0 {
            return Err(ProgramError::InvalidInstructionData);
        }

        Ok(unsafe { self.instruction_data_unchecked() })
    }

    /// Returns the instruction data for the instruction.
    ///
    /// # Safety
    ///
    /// It is up to the caller to guarantee that all accounts have been read; calling this method
    /// before reading all accounts will result in undefined behavior.
    #[inline(always)]
    pub unsafe fn instruction_data_unchecked(&self) -> &[u8] {
        let data_len = *(self.buffer as *const usize);
        // shadowing the input to avoid leaving it in an inconsistent position
        let data = self.buffer.add(core::mem::size_of::<u64>());
        core::slice::from_raw_parts(data, data_len)
    }

    /// Returns the program id for the instruction.
    ///
    /// This method can only be used after all accounts have been read; otherwise, it will
    /// return a [`ProgramError::InvalidInstructionData`] error.
    #[inline(always)]
    pub fn program_id(&self) -> Result<&Pubkey, ProgramError> {
        if self.remaining > 0 {
            return Err(ProgramError::InvalidInstructionData);
        }

        Ok(unsafe { self.program_id_unchecked() })
    }

    /// Returns the program id for the instruction.
    ///
    /// # Safety
    ///
    /// It is up to the caller to guarantee that all accounts have been read; calling this method
    /// before reading all accounts will result in undefined behavior.
    #[inline(always)]
    pub unsafe fn program_id_unchecked(&self) -> &Pubkey {
        let data_len = *(self.buffer as *const usize);
        &*(self.buffer.add(core::mem::size_of::<u64>() + data_len) as *const Pubkey)
    }

    /// Read an account from the input buffer.
    ///
    /// This can only be called with a buffer that was serialized by the runtime as
    /// it assumes a specific memory layout.
    #[allow(clippy::cast_ptr_alignment, clippy::missing_safety_doc)]
    #[inline(always)]
    unsafe fn read_account(&mut self) -> MaybeAccount {
        let account: *mut Account = self.buffer as *mut Account;
        // Adds an 8-bytes offset for:
        //   - rent epoch in case of a non-duplicate account
        //   - duplicate marker + 7 bytes of padding in case of a duplicate account
        self.buffer = self.buffer.add(core::mem::size_of::<u64>());

        if (*account).borrow_state == NON_DUP_MARKER {
            self.buffer = self.buffer.add(STATIC_ACCOUNT_DATA);
            self.buffer = self.buffer.add((*account).data_len as usize);
            self.buffer = self.buffer.add(self.buffer.align_offset(BPF_ALIGN_OF_U128));

            MaybeAccount::Account(AccountInfo { raw: account })
        } else {
            // The caller will handle the mapping to the original account.
            MaybeAccount::Duplicated((*account).borrow_state)
        }
    }
}

/// Wrapper type around an [`AccountInfo`] that may be a duplicate.
#[derive(Debug, Copy, Clone)]
pub enum MaybeAccount {
    /// An [`AccountInfo`] that is not a duplicate.
    Account(AccountInfo),

    /// The index of the original account that was duplicated.
    Duplicated(u8),
}

impl MaybeAccount {
    /// Extracts the wrapped [`AccountInfo`].
    ///
    /// It is up to the caller to guarantee that the [`MaybeAccount`] really is in an
    /// [`MaybeAccount::Account`]. Calling this method when the variant is a
    /// [`MaybeAccount::Duplicated`] will result in a panic.
    #[inline(always)]
    pub fn assume_account(self) -> AccountInfo {
        let MaybeAccount::Account(account) = self else {
            panic!("Duplicated account")
        };
        account
    }
}
